a2l_specification! {
    /// Contains all the objects of an A2lfile
    ///
    /// An instance of this struct is returned when an a2l file is loaded successfully
    keyword A2L_FILE {
        [-> ASAP2_VERSION]
        [-> A2ML_VERSION]
        [-> PROJECT]!
    }

    /// Description of the addressing of table values or axis point values.
    ///
    /// Specification: predefined data types
    enum AddrType {
        PBYTE,
        PWORD,
        PLONG,
        PLONGLONG   (1.70 ..),
        DIRECT
    }

    /// Description of the word lengths in the ECU program.
    ///
    /// Specification: predefined data types (datasize)
    enum DataTypeSize {
        BYTE,
        WORD,
        LONG
    }

    /// Description of the basic data types in the ECU program.
    ///
    /// Specification: predefined data types
    enum DataType {
        UBYTE,
        SBYTE,
        UWORD,
        SWORD,
        ULONG,
        SLONG,
        A_UINT64       (1.60 ..),
        A_INT64        (1.60 ..),
        FLOAT16_IEEE   (1.71 ..),
        FLOAT32_IEEE,
        FLOAT64_IEEE
    }

    /// Description of the axis point sequence in the memory.
    ///
    /// Specification: predefined data types
    enum IndexOrder {
        INDEX_INCR,
        INDEX_DECR
    }

    /// Contains AML code for description of interface specific description data.
    ///
    /// Specification: 3.5.2
    block A2ML {
        // the A2ML block gets special treatment in the code generator based on the block name
    }

    /// `A2ML_VERSION` is currently ignored
    keyword A2ML_VERSION {
        uint version_no
        uint upgrade_no
    }

    /// Address of the EPROM identifier
    keyword ADDR_EPK {
        ulong address
    }


    /// Description of the addressing of table values or axis point values.
    keyword ADDRESS_TYPE {
        AddrType address_type
    }

    /// Defines the alignment of byte-sized values in complex objects (maps and axis)
    keyword ALIGNMENT_BYTE {
        uint alignment_border
    }

    /// Defines the alignment of 16bit floats in complex objects (maps and axis)
    keyword ALIGNMENT_FLOAT16_IEEE {
        uint alignment_border
    }

    /// Defines the alignment of 32bit floats in complex objects (maps and axis)
    keyword ALIGNMENT_FLOAT32_IEEE {
        uint alignment_border
    }

    /// Defines the alignment of 64bit floats in complex objects (maps and axis)
    keyword ALIGNMENT_FLOAT64_IEEE {
        uint alignment_border
    }

    /// Defines the alignment of int64 values in complex objects (maps and axis)
    keyword ALIGNMENT_INT64 {
        uint alignment_border
    }

    /// Defines the alignment of long-sized values in complex objects (maps and axis)
    keyword ALIGNMENT_LONG {
        uint alignment_border
    }

    /// Defines the alignment of word-sized values in complex objects (maps and axis)
    keyword ALIGNMENT_WORD {
        uint alignment_border
    }

    /// An extended description text
    ///
    /// One ANNOTATION may represent a voluminous description. Its purpose is to be e.g.
    /// an application note which explains the function of an identifier for the calibration
    /// engineer.
    block ANNOTATION {
        [-> ANNOTATION_LABEL]
        [-> ANNOTATION_ORIGIN]
        [-> ANNOTATION_TEXT]
    }

    /// The label or title of an annotation
    keyword ANNOTATION_LABEL {
        string label
    }

    /// Identify who or which system has created an annotation
    keyword ANNOTATION_ORIGIN {
        string origin
    }

    /// Text of an annotation
    ///
    /// One `ANNOTATION_TEXT` may represent a multi-line description text.
    block ANNOTATION_TEXT {
        {string annotation_text}* annotation_text_list
    }

    /// marks a measurement object as an array of <Number> measurement values
    ///
    /// ARRAY_SIZE is obsolete: MATRIX_DIM should be used instead.
    keyword ARRAY_SIZE {
        uint number
    }

    /// describes the Autosar component type of a function
    block AR_COMPONENT {
        string component_type
        [-> AR_PROTOTYPE_OF]
    }

    /// Describes the resationship of the component type to to a component prototype in the Autosar system
    keyword AR_PROTOTYPE_OF {
        ident name
    }

    /// Version of the ASAM MCD-2MC standard used by this file
    ///
    /// This keyword is mandatory. Example:
    ///     ASAP2_VERSION 1 61
    keyword ASAP2_VERSION {
        uint version_no
        uint upgrade_no
    }

    /// Description of the axis points
    enum AxisDescrAttribute {
        CURVE_AXIS,
        COM_AXIS,
        FIX_AXIS,
        RES_AXIS,
        STD_AXIS
    }

    /// Axis description within an adjustable object
    block AXIS_DESCR {
        AxisDescrAttribute attribute
        ident input_quantity
        ident conversion
        uint max_axis_points
        float lower_limit
        float upper_limit
        [-> ANNOTATION]*
        [-> AXIS_PTS_REF]
        [-> BYTE_ORDER]
        [-> CURVE_AXIS_REF]
        [-> DEPOSIT]
        [-> EXTENDED_LIMITS]
        [-> FIX_AXIS_PAR]
        [-> FIX_AXIS_PAR_DIST]
        [-> FIX_AXIS_PAR_LIST]
        [-> FORMAT]
        [-> MAX_GRAD]
        [-> MONOTONY]
        [-> PHYS_UNIT]    (1.60 ..)
        [-> READ_ONLY]
        [-> STEP_SIZE]    (1.60 ..)
    }

    /// Parameters for the handling of an axis points distribution
    block AXIS_PTS {
        ident name
        string long_identifier
        ulong address
        ident input_quantity
        ident deposit_record
        float max_diff
        ident conversion
        uint max_axis_points
        float lower_limit
        float upper_limit
        [-> ANNOTATION]*
        [-> BYTE_ORDER]
        [-> CALIBRATION_ACCESS]
        [-> DEPOSIT]
        [-> DISPLAY_IDENTIFIER]
        [-> ECU_ADDRESS_EXTENSION]
        [-> EXTENDED_LIMITS]
        [-> FORMAT]
        [-> FUNCTION_LIST]
        [-> GUARD_RAILS]
        [-> IF_DATA]*
        [-> MAX_REFRESH]   (1.70 ..)
        [-> MODEL_LINK]    (1.70 ..)
        [-> MONOTONY]
        [-> PHYS_UNIT]     (1.60 ..)
        [-> READ_ONLY]
        [-> REF_MEMORY_SEGMENT]
        [-> STEP_SIZE]     (1.60 ..)
        [-> SYMBOL_LINK]
    }

    /// Reference to an AXIS_PTS record
    keyword AXIS_PTS_REF {
        ident axis_points
    }

    /// Description of the X, Y, Z, Z4 or Z5 axis points in memory
    keyword AXIS_PTS_X / _Y / _Z / _4 / _5 {
        uint position
        DataType datatype
        IndexOrder index_incr
        AddrType addressing
    }

    /// Description of rescaling the axis values of an adjustable object
    keyword AXIS_RESCALE_X /_Y /_Z / _4 / _5 {
        uint position
        DataType datatype
        uint max_number_of_rescale_pairs
        IndexOrder index_incr
        AddrType addressing
    }

    /// The BIT_MASK keyword can be used to mask out single bits of the value to be processed.
    keyword BIT_MASK {
        uint64 mask
    }

    /// Used to perform bit operation on a value
    block BIT_OPERATION {
        [-> LEFT_SHIFT]
        [-> RIGHT_SHIFT]
        [-> SIGN_EXTEND]
    }

    /// Special data object that can be used to handle domain specific data, which are processed inside the ECU in a dedicated way
    ///
    /// To the MCD system a blob is just an array of bytes without any interpretation
    block BLOB {
        ident name
        string long_identifier
        ulong start_address
        ulong size
        [-> ADDRESS_TYPE]
        [-> ANNOTATION]*
        [-> CALIBRATION_ACCESS]
        [-> DISPLAY_IDENTIFIER]
        [-> ECU_ADDRESS_EXTENSION]
        [-> IF_DATA]*
        [-> MAX_REFRESH]
        [-> MODEL_LINK]
        [-> SYMBOL_LINK]
    }

    /// Byte ordering of a value on the ECU
    enum ByteOrderEnum {
        LITTLE_ENDIAN        (.. 1.51),
        BIG_ENDIAN           (.. 1.51),
        MSB_LAST,
        MSB_FIRST,
        MSB_FIRST_MSW_LAST   (1.70 ..),
        MSB_LAST_MSW_FIRST   (1.70 ..)
    }

    /// Where the standard value does not apply this parameter can be used to specify the byte order
    ///
    /// Specification: 3.5.24
    keyword BYTE_ORDER {
        ByteOrderEnum byte_order
    }

    /// Type of access that is possible for a CHARACTERISTIC or AXIS_PTS object
    enum CalibrationAccessEnum {
        CALIBRATION,
        NO_CALIBRATION,
        NOT_IN_MCD_SYSTEM,
        OFFLINE_CALIBRATION
    }

    /// Specifies the access of a CHARACTERISTIC or AXIS_PTS for calibration
    keyword CALIBRATION_ACCESS {
        CalibrationAccessEnum calibration_access
    }

    /// calibration method specific data
    block CALIBRATION_HANDLE {
        {long handle}* handle_list
        [-> CALIBRATION_HANDLE_TEXT]* (1.60 ..)
    }

    /// Additional text for a calibration handle
    ///
    /// Specification: 3.5.27
    keyword CALIBRATION_HANDLE_TEXT {
        string text
    }

    /// Indicates the different methods of access that are implemented in the ECU
    ///
    /// Valid method strings are: "InCircuit", "SERAM", "DSERAP", "BSERAP"
    block CALIBRATION_METHOD {
        string method
        ulong version
        [-> CALIBRATION_HANDLE]*
    }

    /// Specifies the type of an adjustable object
    enum CharacteristicType {
        ASCII,
        CURVE,
        MAP,
        CUBOID,
        CUBE_4  (1.60 ..),
        CUBE_5  (1.60 ..),
        VAL_BLK,
        VALUE
    }

    /// Specifies all the parameters of an adjustable object
    block CHARACTERISTIC {
        ident name
        string long_identifier
        CharacteristicType characteristic_type
        ulong address
        ident deposit
        float max_diff
        ident conversion
        float lower_limit
        float upper_limit
        [-> ANNOTATION]*
        [-> AXIS_DESCR]*
        [-> BIT_MASK]
        [-> BYTE_ORDER]
        [-> CALIBRATION_ACCESS]
        [-> COMPARISON_QUANTITY]
        [-> DEPENDENT_CHARACTERISTIC]
        [-> DISCRETE]   (1.60 ..)
        [-> DISPLAY_IDENTIFIER]
        [-> ECU_ADDRESS_EXTENSION]
        [-> ENCODING]   (1.70 ..)
        [-> EXTENDED_LIMITS]
        [-> FORMAT]
        [-> FUNCTION_LIST]
        [-> GUARD_RAILS]
        [-> IF_DATA]*
        [-> MAP_LIST]
        [-> MATRIX_DIM]
        [-> MAX_REFRESH]
        [-> MODEL_LINK]  (1.70 ..)
        [-> NUMBER]      // (.. 1.51) - causes too many deprecation warnings in real files
        [-> PHYS_UNIT]   (1.60 ..)
        [-> READ_ONLY]
        [-> REF_MEMORY_SEGMENT]
        [-> STEP_SIZE]   (1.60 ..)
        [-> SYMBOL_LINK] (1.60 ..)
        [-> VIRTUAL_CHARACTERISTIC]
    }

    /// Specifies the coefficients for the formula f(x) = (axx + bx + c) / (dxx + ex + f)
    keyword COEFFS {
        float a
        float b
        float c
        float d
        float e
        float f
    }

    /// Specifies the coefficients for the linear formula f(x) = ax + b
    keyword COEFFS_LINEAR {
        float a
        float b
    }

    /// references a valid MEASUREMENT
    keyword COMPARISON_QUANTITY {
        ident name
    }

    /// Describes how to convert internal input values to physical values
    enum ConversionType {
        IDENTICAL  (1.60 ..),
        FORM,
        LINEAR  (1.60 ..),
        RAT_FUNC,
        TAB_INTP,
        TAB_NOINTP,
        TAB_VERB
    }

    /// Specification of a conversion method from internal values to physical values
    block COMPU_METHOD {
        ident name
        string long_identifier
        ConversionType conversion_type
        string format
        string unit
        [-> COEFFS]
        [-> COEFFS_LINEAR]        (1.60 ..)
        [-> COMPU_TAB_REF]
        [-> FORMULA]
        [-> REF_UNIT]
        [-> STATUS_STRING_REF]    (1.60 ..)
    }

    /// Conversion table for conversions that cannot be represented as a function
    block COMPU_TAB {
        ident name
        string long_identifier
        ConversionType conversion_type
        uint number_value_pairs
        {
            float in_val
            float out_val
        }* tab_entry
        [-> DEFAULT_VALUE]
        [-> DEFAULT_VALUE_NUMERIC]  (1.60 ..)
    }

    /// reference to a conversion table
    keyword COMPU_TAB_REF {
        ident conversion_table
    }

    /// Conversion table for the assignment of display strings to values. Typically used for enums.
    block COMPU_VTAB {
        ident name
        string long_identifier
        ConversionType conversion_type
        uint number_value_pairs
        {
            float in_val
            string out_val
        }* value_pairs
        [-> DEFAULT_VALUE]
    }

    /// Conversion table for the assignment of display strings to a value range
    block COMPU_VTAB_RANGE {
        ident name
        string long_identifier
        uint number_value_triples
        {
            float in_val_min
            float in_val_max
            string out_val
        }* value_triples
        [-> DEFAULT_VALUE]
    }

    /// indicates that an instance of a structure should always be handled completely
    keyword CONSISTENT_EXCHANGE {}

    /// CONVERSION is used inside OVERWRITE to override the default conversion method
    keyword CONVERSION {
        ident name
    }

    /// Identifies the CPU used in the ECU
    keyword CPU_TYPE {
        string cpu
    }

    /// Used to specify the adjustable CURVE CHARACTERISTIC that is used to normalize or scale the axis in an AXIS_DESCR
    keyword CURVE_AXIS_REF {
        ident curve_axis
    }

    /// Allows a customer name to be specified
    keyword CUSTOMER {
        string customer
    }

    /// specify a customer number or identifier as a string
    keyword CUSTOMER_NO {
        string number
    }

    /// Data size in bits
    keyword DATA_SIZE {
        uint size
    }

    /// Defines which adjustable objects are used by a FUNCTION
    block DEF_CHARACTERISTIC {
        { ident identifier }* identifier_list
    }

    /// Sets the default text value of COMPU_TAB, COMPU_VTAB or COMPU_VTAB_RANGE
    keyword DEFAULT_VALUE {
        string display_string
    }

    /// Sets the default numerical value of COMPU_TAB, COMPU_VTAB or COMPU_VTAB_RANGE
    keyword DEFAULT_VALUE_NUMERIC {
        float display_value
    }

    /// Specify characteristics that depend on a formula
    block DEPENDENT_CHARACTERISTIC {
        string formula
        {ident characteristic}* characteristic_list
    }

    /// Deposit of the axis points of a characteristic curve or map
    enum DepositMode {
        ABSOLUTE,
        DIFFERENCE
    }

    /// Specifies how the axis points of a characteristic are deposited in memory
    keyword DEPOSIT {
        DepositMode mode
    }

    /// Indicates that a measurement or calibration object has discrete values which should not be interpolated
    keyword DISCRETE {}

    /// Gives the display name of a CHARACTERISTIC or MEASUREMENT value
    keyword DISPLAY_IDENTIFIER {
        ident display_name
    }

    /// Description of the distance operand in the deposit structure to compute the axis points for fixed characteristic curves and fixed characteristic maps
    keyword DIST_OP_X / _Y / _Z / _4 / _5 {
        uint position
        DataType datatype
    }

    /// String for identification of the control unit.
    keyword ECU {
        string control_unit
    }

    /// Provides the address of a MEASUREMENT
    keyword ECU_ADDRESS {
        ulong address
    }

    /// Used to specify additional address information
    keyword ECU_ADDRESS_EXTENSION {
        int extension
    }

    /// Provide an address offset in order to handle near pointers or variant coding
    keyword ECU_CALIBRATION_OFFSET {
        long offset
    }

    /// Describes the encoding of a string, if it is not ASCII
    enum CharacterEncoding {
        UTF8,
        UTF16,
        UTF32
    }

    /// a CHARACTERISTIC of type ASCII can be configured to use a multi-byte encoding instead
    keyword ENCODING {
        CharacterEncoding encoding
    }

    /// EPROM identifier
    keyword EPK {
        string identifier
    }

    /// Used to mask bits of a MEASUREMENT which indicate that the value is in error
    keyword ERROR_MASK {
        uint64 mask
    }

    /// used to specify an extended range of values
    keyword EXTENDED_LIMITS {
        float lower_limit
        float upper_limit
    }

    /// Parameters for the calculation of fixed axis points: X_i = Offset + (i - 1)*2^shift
    keyword FIX_AXIS_PAR {
        int offset
        int shift
        uint number_apo
    }

    /// Parameters for the calculation of fixed axis points: X_i = Offset + (i - 1)*distance
    keyword FIX_AXIS_PAR_DIST {
        int offset
        int distance
        uint number_apo
    }

    /// A list of fixed axis point, as implemented on the ECU
    block FIX_AXIS_PAR_LIST {
        { float axis_pts_value }* axis_pts_value_list
    }

    /// Specifies the number of axis points available to CURVE, MAP, CUBOID, CUBE_4 or CUBE_5
    keyword FIX_NO_AXIS_PTS_X / _Y / _Z / _4 / _5 {
        uint number_of_axis_points
    }

    /// Describes how the 2-dimensional table values are mapped onto the 1-dimensional address space
    enum IndexMode {
        ALTERNATE_CURVES,
        ALTERNATE_WITH_X,
        ALTERNATE_WITH_Y,
        COLUMN_DIR,
        ROW_DIR
    }

    /// Description of the table values (function values) of an adjustable object
    keyword FNC_VALUES {
        uint position
        DataType datatype
        IndexMode index_mode
        AddrType address_type
    }

    /// Allows a display format string to be specified for a MEASUREMENT, CHARACTERISTIC or AXIS_PTS object
    keyword FORMAT {
        string format_string
    }

    /// Allows any kind of formula to be specified
    block FORMULA {
        string fx
        [-> FORMULA_INV]
    }

    /// Allows an inverse formula to be specified
    keyword FORMULA_INV {
        string gx
    }

    /// Defines a function frame to structure large amounts of measurement objects
    block FRAME {
        ident name
        string long_identifier
        uint scaling_unit
        ulong rate
        [-> FRAME_MEASUREMENT]
        [-> IF_DATA]*
    }

    /// Contains a list of identifiers of measurement objects
    keyword FRAME_MEASUREMENT {
        { ident identifier}* identifier_list
    }

    /// Describes the input, local, and output variables of a function on the ECU
    block FUNCTION {
        ident name
        string long_identifier
        [-> ANNOTATION]*
        [-> AR_COMPONENT]   (1.70 ..)
        [-> DEF_CHARACTERISTIC]
        [-> FUNCTION_VERSION]
        [-> IF_DATA]*    (1.60 ..)
        [-> IN_MEASUREMENT]
        [-> LOC_MEASUREMENT]
        [-> OUT_MEASUREMENT]
        [-> REF_CHARACTERISTIC]
        [-> SUB_FUNCTION]
    }

    /// a list of FUNCTION objects
    block FUNCTION_LIST {
        {ident name}* name_list
    }

    /// A string containing the version of a FUNCTION
    keyword FUNCTION_VERSION {
        string version_identifier
    }

    /// Defines a group of releated CHARACTERISTIC and MEASUREMENT objects
    block GROUP {
        ident name
        string long_identifier
        [-> ANNOTATION]*
        [-> FUNCTION_LIST]
        [-> IF_DATA]*     (1.60 ..)
        [-> REF_CHARACTERISTIC]
        [-> REF_MEASUREMENT]
        [-> ROOT]
        [-> SUB_GROUP]
    }

    /// Used to indicate that an adjustable CURVE, MAP or AXIS_PTS uses guard rails
    keyword GUARD_RAILS {}

    /// The header of a project
    block HEADER {
        string comment
        [-> PROJECT_NO]
        [-> VERSION]
    }

    /// used to describe that an 'identifier' is deposited in a specific position in the adjustable object
    keyword IDENTIFICATION {
        uint position
        DataType datatype
    }

    /// Interface specific data
    block IF_DATA {
        // the A2ML block gets special treatment in the code generator based on the block name
    }

    /// A list of measurement objects that are used as the inputs of a function
    block IN_MEASUREMENT {
        {ident identifier}* identifier_list
    }

    ///INPUT_QUANTITY is used inside OVERWRITE to override the input_quantity of an INSTANCE
    keyword INPUT_QUANTITY {
        ident name
    }

    /// Creates an instance of a type defined using TYPEDEF_STRUCTURE, TYPEDEF_MEASUREMENT or TYPEDEF_CHARACTERISTIC
    block INSTANCE {
        ident name
        string long_identifier
        ident type_ref
        ulong start_address
        [-> ADDRESS_TYPE]  (1.71 ..)
        [-> ANNOTATION]*
        [-> CALIBRATION_ACCESS]
        [-> DISPLAY_IDENTIFIER]
        [-> ECU_ADDRESS_EXTENSION]
        [-> IF_DATA]*
        [-> LAYOUT]
        [-> MATRIX_DIM]
        [-> MAX_REFRESH]
        [-> MODEL_LINK]
        [-> OVERWRITE]*
        [-> READ_ONLY]
        [-> SYMBOL_LINK]
    }

    /// describes the layout of a multi-dimensional measurement array
    keyword LAYOUT {
        IndexMode index_mode
    }

    /// Used within BIT_OPERATION to left-shift the bits of a value
    keyword LEFT_SHIFT {
        ulong bitcount
    }

    /// LIMITS is used inside OVERWRITE to override the limits of an INSTANCE
    keyword LIMITS {
        float lower_limit
        float upper_limit
    }

    /// A list of measurement objects that are local variables of a function
    block LOC_MEASUREMENT {
        {ident identifier}* identifier_list
    }

    /// used to specify the list of MAPs which comprise a CUBOID
    block MAP_LIST {
        {ident name}* name_list
    }

    /// describes the dimensions of a multidimensional array of values
    keyword MATRIX_DIM {
        {uint dim}* dim_list // note: changed for 1.70
    }

    /// specifies a maximum permissible gradient for an adjustable object
    keyword MAX_GRAD {
        float max_gradient
    }

    /// specifies the maximum refresh rate in the control unit
    keyword MAX_REFRESH {
        uint scaling_unit
        ulong rate
    }

    /// describes the parameters for a measurement object
    block MEASUREMENT {
        ident name
        string long_identifier
        DataType datatype
        ident conversion
        uint resolution
        float accuracy
        float lower_limit
        float upper_limit
        [-> ADDRESS_TYPE] (1.70 ..)
        [-> ANNOTATION]*
        [-> ARRAY_SIZE] (.. 1.51)
        [-> BIT_MASK]
        [-> BIT_OPERATION]
        [-> BYTE_ORDER]
        [-> DISCRETE]  (1.60 ..)
        [-> DISPLAY_IDENTIFIER]
        [-> ECU_ADDRESS]
        [-> ECU_ADDRESS_EXTENSION]
        [-> ERROR_MASK]
        [-> FORMAT]
        [-> FUNCTION_LIST]
        [-> IF_DATA]*
        [-> LAYOUT]   (1.60 ..)
        [-> MATRIX_DIM]
        [-> MAX_REFRESH]
        [-> MODEL_LINK] (1.70 ..)
        [-> PHYS_UNIT]   (1.60 ..)
        [-> READ_WRITE]
        [-> REF_MEMORY_SEGMENT]
        [-> SYMBOL_LINK]   (1.60 ..)
        [-> VIRTUAL]
    }

    /// describes the types of program segments
    enum ProgType {
        PRG_CODE,
        PRG_DATA,
        PRG_RESERVED
    }

    /// describes the layout of the ECU memory
    block MEMORY_LAYOUT {
        ProgType prog_type
        ulong address
        ulong size
        long[5] offset
        [-> IF_DATA]*
    }

    /// Describes the types of data in the ECU program
    enum PrgType {
        CALIBRATION_VARIABLES,
        CODE,
        DATA,
        EXCLUDE_FROM_FLASH,
        OFFLINE_DATA,
        RESERVED,
        SERAM,
        VARIABLES
    }

    /// describes the type of memory used
    enum MemoryType {
        EEPROM,
        EPROM,
        FLASH,
        RAM,
        ROM,
        REGISTER,
        NOT_IN_ECU   (1.70 ..)
    }

    /// specifies if a given memory region is internal or external
    enum MemoryAttribute {
        INTERN,
        EXTERN
    }

    /// describes a memory segment of the ECU program
    block MEMORY_SEGMENT {
        ident name
        string long_identifier
        PrgType prg_type
        MemoryType memory_type
        MemoryAttribute attribute
        ulong address
        ulong size
        long[5] offset
        [-> IF_DATA]*
    }

    /// defines default values for the  entire module
    block MOD_COMMON {
        string comment
        [-> ALIGNMENT_BYTE]
        [-> ALIGNMENT_FLOAT16_IEEE]   (1.71 ..)
        [-> ALIGNMENT_FLOAT32_IEEE]
        [-> ALIGNMENT_FLOAT64_IEEE]
        [-> ALIGNMENT_INT64]    (1.60 ..)
        [-> ALIGNMENT_LONG]
        [-> ALIGNMENT_WORD]
        [-> BYTE_ORDER]
        [-> DATA_SIZE]
        [-> DEPOSIT]
        [-> S_REC_LAYOUT] (.. 1.60) // deprecated in 1.61: RECORD_LAYOUT is always mandatory
    }

    /// defines system information and management data for the module
    block MOD_PAR {
        string comment
        [-> ADDR_EPK]*
        [-> CALIBRATION_METHOD]*
        [-> CPU_TYPE]
        [-> CUSTOMER]
        [-> CUSTOMER_NO]
        [-> ECU]
        [-> ECU_CALIBRATION_OFFSET]
        [-> EPK]
        [-> MEMORY_LAYOUT]*
        [-> MEMORY_SEGMENT]*
        [-> NO_OF_INTERFACES]
        [-> PHONE_NO]
        [-> SUPPLIER]
        [-> SYSTEM_CONSTANT]*
        [-> USER]
        [-> VERSION]
    }

    /// add a string to a CHARACTERISTIC linking it to a name in the model
    keyword MODEL_LINK {
        string model_link
    }

    /// The MODULE keyword describes a complete ECU or device with all adjustable and measurement objects, conversion methods and functions
    ///
    /// At least one module must be defined within the PROJECT
    block MODULE {
        ident name
        string long_identifier
        [-> A2ML]
        [-> AXIS_PTS]*
        [-> BLOB]*                     (1.70 ..)
        [-> CHARACTERISTIC]*
        [-> COMPU_METHOD]*
        [-> COMPU_TAB]*
        [-> COMPU_VTAB]*
        [-> COMPU_VTAB_RANGE]*
        [-> FRAME]*
        [-> FUNCTION]*
        [-> GROUP]*
        [-> IF_DATA]*
        [-> INSTANCE]*                 (1.70 ..)
        [-> MEASUREMENT]*
        [-> MOD_COMMON]
        [-> MOD_PAR]
        [-> RECORD_LAYOUT]*
        [-> TRANSFORMER]*              (1.70 ..)
        [-> TYPEDEF_AXIS]*             (1.70 ..)
        [-> TYPEDEF_BLOB]*             (1.70 ..)
        [-> TYPEDEF_CHARACTERISTIC]*   (1.70 ..)
        [-> TYPEDEF_MEASUREMENT]*      (1.70 ..)
        [-> TYPEDEF_STRUCTURE]*        (1.70 ..)
        [-> UNIT]*
        [-> USER_RIGHTS]*
        [-> VARIANT_CODING]
    }

    /// describes the possible ways an adjustment object can be monotonous
    enum MonotonyType {
        MON_DECREASE,
        MON_INCREASE,
        STRICT_DECREASE,
        STRICT_INCREASE,
        MONOTONOUS    (1.60 ..),
        STRICT_MON    (1.60 ..),
        NOT_MON       (1.60 ..)
    }


    /// specifies the monotony of an adjustment object
    keyword MONOTONY {
        MonotonyType monotony
    }

    /// Description of the number of axis points in an adjustable object
    keyword NO_AXIS_PTS_X / _Y / _Z / _4 / _5 {
        uint position
        DataType datatype
    }

    /// the number of interfaces
    keyword NO_OF_INTERFACES {
        uint num
    }

    /// number of rescaling axis point value pairs
    keyword NO_RESCALE_X / _Y / _Z / _4 / _5 {
        uint position
        DataType datatype
    }

    /// specifies the number of values in an array. Obsolete, replaced by MATRIX_DIM
    keyword NUMBER {
        uint number
    }

    /// Description of the 'offset' parameter in the deposit structure
    keyword OFFSET_X / _Y / _Z / _4 / _5 {
        uint position
        DataType datatype
    }

    /// defines output quantities of a function
    block OUT_MEASUREMENT {
        {ident identifier}* identifier_list
    }

    /// override some default attributes of a type definition in a specific INSTANCE.
    block OVERWRITE {
        ident name
        ulong axis_number
        [-> CONVERSION]
        [-> EXTENDED_LIMITS]
        [-> FORMAT]
        [-> INPUT_QUANTITY]
        [-> LIMITS]
        [-> MONOTONY]
        [-> PHYS_UNIT]
    }

    /// contains a phone number, e.g. of the calibration engineer
    keyword PHONE_NO {
        string telnum
    }

    /// specifies the physical unit of a measurement or calibration object as a string
    keyword PHYS_UNIT {
        string unit
    }

    /// Project description with project header and all modules belonging to the project. Required.
    block PROJECT {
        ident name
        string long_identifier
        [-> HEADER]
        [-> MODULE]+
    }

    /// Gives the project identifier
    keyword PROJECT_NO {
        ident project_number
    }

    /// used to indicate that an adjustable object is read-only
    keyword READ_ONLY {}

    /// used to indicate that a measurement object is writeable
    keyword READ_WRITE {}

    /// specifies the various data structures of an adjustable objects in memory
    block RECORD_LAYOUT {
        ident name
        [-> ALIGNMENT_BYTE]
        [-> ALIGNMENT_FLOAT16_IEEE]  (1.71 ..)
        [-> ALIGNMENT_FLOAT32_IEEE]
        [-> ALIGNMENT_FLOAT64_IEEE]
        [-> ALIGNMENT_INT64]
        [-> ALIGNMENT_LONG]
        [-> ALIGNMENT_WORD]
        [-> AXIS_PTS_X/_Y/_Z/_4/_5]
        [-> AXIS_RESCALE_X/_Y/_Z/_4/_5]
        [-> DIST_OP_X/_Y/_Z/_4/_5]
        [-> FIX_NO_AXIS_PTS_X/_Y/_Z/_4/_5]
        [-> FNC_VALUES]
        [-> IDENTIFICATION]
        [-> NO_AXIS_PTS_X/_Y/_Z/_4/_5]
        [-> NO_RESCALE_X/_Y/_Z/_4/_5]
        [-> OFFSET_X/_Y/_Z/_4/_5]
        [-> RESERVED]*
        [-> RIP_ADDR_W/_X/_Y/_Z/_4/_5]
        [-> SRC_ADDR_X/_Y/_Z/_4/_5]
        [-> SHIFT_OP_X/_Y/_Z/_4/_5]
        [-> STATIC_RECORD_LAYOUT]    (1.60 ..)
        [-> STATIC_ADDRESS_OFFSETS]  (1.70 ..)
    }

    /// defines a list of adjustable objects that can be referenced by a function or group
    block REF_CHARACTERISTIC {
        { ident identifier}* identifier_list
    }

    /// defines a list of groups for use by USER_RIGHTS
    block REF_GROUP {
        { ident identifier}* identifier_list
    }

    /// defines a list of measurement objects that can be referenced by a group
    block REF_MEASUREMENT {
        { ident identifier}* identifier_list
    }

    /// reference to a MEMORY_SEGMENT
    keyword REF_MEMORY_SEGMENT {
        ident name
    }

    /// reference to a UNIT
    keyword REF_UNIT {
        ident unit
    }

    /// indicates that the data at the given position is reserved and should not be interpreted by the MCD system
    keyword RESERVED {
        uint position
        DataTypeSize data_size
    }

    /// Used within BIT_OPERATION to right-shift the bits of a value
    keyword RIGHT_SHIFT {
        ulong bitcount
    }

    /// Describes the storage of the ECU-internal result of interpolation (RIP)
    keyword RIP_ADDR_W / _X / _Y / _Z / _4 / _5 {
        uint position
        DataType datatype
    }

    /// indicates that the current group is at the root of the navigation tree
    keyword ROOT {}

    /// Description of the shift operand in the deposit structure to compute the axis points for fixed characteristic curves and fixed characteristic maps
    keyword SHIFT_OP_X / _Y / _Z / _4 / _5 {
        uint position
        DataType datatype
    }

    /// used in BIT_OPERATION to specify that sign extension should be performed
    keyword SIGN_EXTEND {}

    /// the seven base dimensions required to define an extended SI unit
    keyword SI_EXPONENTS {
        int length
        int mass
        int time
        int electric_current
        int temperature
        int amount_of_substance
        int luminous_intensity
    }

    /// Description of the address of the input quantity in an adjustable object
    keyword SRC_ADDR_X / _Y / _Z / _4 / _5 {
        uint position
        DataType datatype
    }

    /// indicates that the start addresses of axes and function values of an adjustable object do not change when removing or inserting axis points
    keyword STATIC_ADDRESS_OFFSETS {}

    /// indicates that an adjustable object with dynamic number of axis points does not compact or expand data when removing or inserting axis points
    keyword STATIC_RECORD_LAYOUT {}

    /// used to split up the value range of ECU internal values into a numerical and a verbal part
    keyword STATUS_STRING_REF {
        ident conversion_table
    }

    /// step size when adjusting the value of a CHARACTERISTIC, AXIS_PTS or AXIS_DESCR
    keyword STEP_SIZE {
        float step_size
    }

    /// defines a single component of a TYPEDEF_STRUCTURE
    block STRUCTURE_COMPONENT {
        ident name
        ident component_type
        ulong address_offset
        [-> ADDRESS_TYPE]  (1.71 ..)
        [-> LAYOUT]
        [-> MATRIX_DIM]
        [-> SYMBOL_TYPE_LINK]
    }

    /// a list of identifiers of functions which are sub-functions of the current function
    block SUB_FUNCTION {
        { ident identifier}* identifier_list
    }

    /// a list of identifiers of groups which are subgroups of the current group
    block SUB_GROUP {
        { ident identifier}* identifier_list
    }

    /// Name of the ECU manufacturer
    keyword SUPPLIER {
        string manufacturer
    }

    /// specifes the name of a symbol within a linker map file that corresponds to the a2l object
    keyword SYMBOL_LINK {
        string symbol_name
        long offset
    }

    /// Specifies the name of a symbol within a linker map file or debug file that describes a class, class member, structure or structure component
    keyword SYMBOL_TYPE_LINK {
        string symbol_type
    }

    /// defines a system constant that can be used in conversion formulas
    keyword SYSTEM_CONSTANT {
        string name
        string value
    }

    /// sets the standard record layout for the module
    keyword S_REC_LAYOUT {
        ident name
    }

    /// the trigger conditions of a TRANSFORMER
    enum TransformerTrigger {
        ON_USER_REQUEST,
        ON_CHANGE
    }

    /// Definition of call to an external function (32-bit or 64-bit DLL) for converting calibration object values between their implementation format and physical format
    block TRANSFORMER {
        ident name
        string version
        string dllname_32bit
        string dllname_64bit
        uint timeout
        TransformerTrigger trigger
        ident inverse_transformer
        [-> TRANSFORMER_IN_OBJECTS]
        [-> TRANSFORMER_OUT_OBJECTS]
    }

    /// provides a list of inputs for a TRANSFORMER
    block TRANSFORMER_IN_OBJECTS {
        {ident identifier}* identifier_list
    }

    /// provides a list of outputs for a TRANSFORMER
    block TRANSFORMER_OUT_OBJECTS {
        {ident identifier}* identifier_list
    }

    /// Type definition of an axis object
    block TYPEDEF_AXIS {
        ident name
        string long_identifier
        ident input_quantity
        ident record_layout
        float max_diff
        ident conversion
        uint max_axis_points
        float lower_limit
        float upper_limit
        [-> BYTE_ORDER]
        [-> DEPOSIT]
        [-> EXTENDED_LIMITS]
        [-> FORMAT]
        [-> MONOTONY]
        [-> PHYS_UNIT]
        [-> STEP_SIZE]
    }

    /// Type definition of a BLOB
    block TYPEDEF_BLOB {
        ident name
        string long_identifier
        ulong size
        [-> ADDRESS_TYPE]  (1.71 ..)
    }

    /// Type definition of a calibration object
    block TYPEDEF_CHARACTERISTIC {
        ident name
        string long_identifier
        CharacteristicType characteristic_type
        ident record_layout
        float max_diff
        ident conversion
        float lower_limit
        float upper_limit
        [-> AXIS_DESCR]*
        [-> BIT_MASK]
        [-> BYTE_ORDER]
        [-> DISCRETE]
        [-> ENCODING]
        [-> EXTENDED_LIMITS]
        [-> FORMAT]
        [-> MATRIX_DIM]
        [-> NUMBER]
        [-> PHYS_UNIT]
        [-> STEP_SIZE]
    }

    /// Type definition of a measurement object
    block TYPEDEF_MEASUREMENT {
        ident name
        string long_identifier
        DataType datatype
        ident conversion
        uint resolution
        float accuracy
        float lower_limit
        float upper_limit
        [-> ADDRESS_TYPE]
        [-> BIT_MASK]
        [-> BIT_OPERATION]
        [-> BYTE_ORDER]
        [-> DISCRETE]
        [-> ERROR_MASK]
        [-> FORMAT]
        [-> LAYOUT]
        [-> MATRIX_DIM]
        [-> PHYS_UNIT]
    }

    /// Definition of structured data types similar to the "typedef" command in C
    block TYPEDEF_STRUCTURE {
        ident name
        string long_identifier
        ulong total_size
        [-> ADDRESS_TYPE]
        [-> CONSISTENT_EXCHANGE]
        [-> STRUCTURE_COMPONENT]*
        [-> SYMBOL_TYPE_LINK]
    }

    /// Type of the UNIT
    enum UnitType {
        DERIVED,
        EXTENDED_SI
    }

    /// Specification of a measurement unit
    block UNIT {
        ident name
        string long_identifier
        string display
        UnitType unit_type
        [-> REF_UNIT]
        [-> SI_EXPONENTS]
        [-> UNIT_CONVERSION]
    }

    /// Specification of the linear relationship between two measurement units
    keyword UNIT_CONVERSION {
        float gradient
        float offset
    }

    /// Name of the user
    keyword USER {
        string user_name
    }

    /// used to define groups accessible only for certain users
    block USER_RIGHTS {
        ident user_level_id
        [-> READ_ONLY]
        [-> REF_GROUP]*
    }

    /// define a list of start addresses of variant coded adjustable objects
    block VAR_ADDRESS {
        { ulong address}* address_list
    }

    /// defines one adjustable object to be variant coded
    block VAR_CHARACTERISTIC {
        ident name
        { ident criterion_name }* criterion_name_list
        [-> VAR_ADDRESS]
    }

    /// describes a variant criterion
    block VAR_CRITERION {
        ident name
        string long_identifier
        {ident  value}* value_list
        [-> VAR_MEASUREMENT]
        [-> VAR_SELECTION_CHARACTERISTIC]
    }

    /// describes a forbidden combination of values of different variant criteria
    block VAR_FORBIDDEN_COMB {
        {
            ident criterion_name
            ident criterion_value
        }* combination
    }

    /// specify a special measurement object which indicates the currently active variant
    keyword VAR_MEASUREMENT {
        ident name
    }

    /// intended to define the format of the variant extension. Currently only one format is supported
    enum VarNamingTag {
        NUMERIC
    }

    /// defines the format of the variant extension (index) of adjustable object names
    keyword VAR_NAMING {
        VarNamingTag tag
    }

    /// used to specify a special characteristic object which can change the currently active variant
    keyword VAR_SELECTION_CHARACTERISTIC {
        ident name
    }

    /// defines the separating symbol between the two parts of an adjustable object name
    keyword VAR_SEPARATOR {
        string separator
    }

    /// All information related to variant coding is grouped in this structure
    block VARIANT_CODING {
        [-> VAR_CHARACTERISTIC]*
        [-> VAR_CRITERION]*
        [-> VAR_FORBIDDEN_COMB]*
        [-> VAR_NAMING]
        [-> VAR_SEPARATOR]
    }

    /// version identifier
    keyword VERSION {
        string version_identifier
    }

    /// specification of the measurement objects for a virtual measurement channel
    block VIRTUAL {
        { ident measuring_channel }* measuring_channel_list
    }

    /// defines characteristics that are not deposited in the memory of the control unit, but can be used to indirectly calibrate other characteristic values
    block VIRTUAL_CHARACTERISTIC {
        string formula
        {ident characteristic }* characteristic_list
    }
}
