"""shared pipeline of the Graph checks (C08-C11): abstract case -> A2L text -> real operation ->
extracted module graphs -> verdict by the relations of Graph.tla (Trace_Graph)."""
import json
import os
import re

import graphmodel as gm
import vlib

DEFAULTS = {"rl0": ("RECORD_LAYOUT", 900), "td0": ("TYPEDEF_BLOB", 901)}


def abstract_to_graph(mod):
    """module as exported by the TLA+ generators -> module graph (with the default helper
    elements that mandatory reference fields of the rendered text point to)"""
    elems = []
    for e in mod:
        refs = {}
        for site, names in e.get("refs", []):
            refs[site] = list(names)
        el = {"kind": e["kind"], "name": e["name"], "c": e["c"], "refs": refs}
        if isinstance(e.get("opts"), dict) and set(e["opts"]) != {"none"}:
            el["opts"] = e["opts"]
        if e.get("criteria"):
            el["criteria"] = list(e["criteria"])
        elems.append(el)
    need = set()
    for e in elems:
        if e["kind"] in ("CHARACTERISTIC", "TYPEDEF_CHARACTERISTIC") and "ctype" in (e.get("opts") or {}):
            need.add("rl0")
        if e["kind"] in ("AXIS_PTS", "CHARACTERISTIC", "TYPEDEF_AXIS", "TYPEDEF_CHARACTERISTIC"):
            site = {"AXIS_PTS": "AXIS_PTS.deposit_record", "CHARACTERISTIC": "CHARACTERISTIC.deposit",
                    "TYPEDEF_AXIS": "TYPEDEF_AXIS.record_layout", "TYPEDEF_CHARACTERISTIC": "TYPEDEF_CHARACTERISTIC.record_layout"}[e["kind"]]
            if site not in e["refs"]:
                need.add("rl0")
        if e["kind"] == "INSTANCE" and "INSTANCE.type_ref" not in e["refs"]:
            need.add("td0")
    have = {(e["kind"], e["name"]) for e in elems}
    for n in sorted(need):
        k, c = DEFAULTS[n]
        if (k, n) not in have:
            elems.append({"kind": k, "name": n, "c": c, "refs": {}})
    return {"elems": elems}


def run_ops(binp, cases, tag, timeout=1800):
    """cases: list of dicts for the harness subcommand model-op; returns results by id"""
    inp = os.path.join(vlib.scratch(), f"modelop_{tag}.ndjson")
    outp = os.path.join(vlib.scratch(), f"modelop_{tag}.out")
    vlib.write_ndjson(inp, cases)
    rc, lines, err = vlib.run_harness(binp, ["model-op", "--cases", inp, "--out", outp], timeout=timeout)
    if rc != 0:
        vlib.tool_error(f"model-op failed rc={rc}: {err[-800:]}")
    res = {}
    with open(outp) as f:
        for l in f:
            if l.strip():
                r = json.loads(l)
                res[r["id"]] = r
    return res


def graph_of_tree(a2l_tree, k=0):
    return gm.extract(gm.module_of(a2l_tree, k))


def judge(events, cfg, tag):
    """run Trace_Graph over the events; returns {event index (0-based): [failed conjunct names]}"""
    p = os.path.join(vlib.scratch(), f"graph_events_{tag}.ndjson")
    vlib.write_ndjson(p, events)
    res = vlib.tlc("Trace_Graph", cfg=cfg, workers=1, dfs=True, coverage=False, env={"TRACE": p}, timeout=3000, heap="6g",
                   expect_violation=True)
    if not res.ok:
        vlib.tool_error(f"Trace_Graph did not consume all events: rejected_at={res.rejected_at} errors={res.errors[:3]}")
    failed = {}
    cur = []
    for line in res.raw_lines("<<"):
        m = re.match(r'<<"FAILED", "([^"]+)">>', line)
        if m:
            cur.append(m.group(1))
            continue
        m = re.match(r'<<"REJECT", (\d+)>>', line)
        if m:
            failed[int(m.group(1)) - 1] = cur or ["?"]
            cur = []
    return failed, res
