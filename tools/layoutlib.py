"""Layout cases for C01 / C02 / C05: apply a layout pattern (MC_LayoutCases) to the document of an
element, load and write it with the real library and build the events judged by Trace_Layout."""
import re

import a2ldoc
import docgen


def simple_tokens(text):
    """independent tokenizer: (kind, text, line) with kind in id/num/str/begin/end/cmt; the content of an
    A2ML block is one 'str' token; line = line of the first character"""
    out = []
    i, line, n = 0, 1, len(text)
    while i < n:
        c = text[i]
        if c == "\n":
            line += 1
            i += 1
        elif c.isspace():
            i += 1
        elif text.startswith("/*", i):
            j = text.find("*/", i + 2)
            j = n if j < 0 else j + 2
            out.append(("cmt", text[i:j], line))
            line += text.count("\n", i, j)
            i = j
        elif text.startswith("//", i):
            j = text.find("\n", i)
            j = n if j < 0 else j
            out.append(("cmt", text[i:j], line))
            i = j
        elif c == '"':
            j = i + 1
            while j < n:
                if text[j] == "\\":
                    j += 2
                    continue
                if text[j] == '"':
                    if j + 1 < n and text[j + 1] == '"':
                        j += 2
                        continue
                    break
                j += 1
            j = min(j + 1, n)
            out.append(("str", text[i:j], line))
            line += text.count("\n", i, j)
            i = j
        else:
            j = i
            while j < n and not text[j].isspace():
                j += 1
            w = text[i:j]
            kind = "begin" if w == "/begin" else "end" if w == "/end" else "num" if (w[0].isdigit() or w[0] in "-+.") else "id"
            out.append((kind, w, line))
            i = j
            if w == "A2ML" and len(out) >= 2 and out[-2][0] == "begin":
                # the A2ML text ends at the first /end that stands outside the comments of the A2ML text
                j = i
                while j < n and not text.startswith("/end", j):
                    if text.startswith("//", j):
                        k = text.find("\n", j)
                        j = n if k < 0 else k
                    elif text.startswith("/*", j):
                        k = text.find("*/", j + 2)
                        j = n if k < 0 else k + 2
                    else:
                        j += 1
                raw = text[i:j]
                if raw.strip():
                    lead = len(raw) - len(raw.lstrip())
                    out.append(("str", raw.strip(), line + raw.count("\n", 0, lead)))
                line += raw.count("\n")
                i = j
    return out


def equivalent(a, b):
    """are two tokens lexically equivalent (same kind; equal up to number / escape notation)?"""
    if a[0] != b[0]:
        return False
    if a[0] == "str":
        if a[1].startswith('"') and b[1].startswith('"'):
            return a2ldoc.unescape(a[1]) == a2ldoc.unescape(b[1])
        return " ".join(a[1].split()) == " ".join(b[1].split())
    if a[0] == "num":
        ia, ib = a2ldoc.int_value(a[1]), a2ldoc.int_value(b[1])
        if ia is not None and ib is not None:
            return ia[0] == ib[0]                            # number notation may differ, the value may not
        if (ia is None) != (ib is None):
            # an integer literal against float notation: the same number exactly (an integer beyond 2^53 that comes back
            # rounded is another value)
            from decimal import Decimal, InvalidOperation
            from fractions import Fraction
            try:
                other = b[1] if ia is not None else a[1]
                return Fraction(Decimal(other)) == (ia or ib)[0]
            except (InvalidOperation, ValueError):
                return False
        try:
            fa = float(int(a[1], 16)) if a[1][:2] in ("0x", "0X") else float(a[1])
            fb = float(int(b[1], 16)) if b[1][:2] in ("0x", "0X") else float(b[1])
            return fa == fb                                  # all float fields of the grammar are f64: the value is kept exactly
        except ValueError:
            return False
    if a[0] == "cmt":
        return " ".join(a[1].split()) == " ".join(b[1].split())      # line ends inside a comment are whitespace
    return a[1] == b[1]


COMMENTS = {"line": "// a line comment", "block1": "/* a block comment */", "block2": "/* a block comment\n   of two lines */",
            "block3": "/* a block comment\n   of\n   three lines */"}


def apply_pattern(element, pat):
    """document text of `element` under the layout pattern; returns (text, has_file_level_comment)"""
    lines = docgen.document(element, docgen.best_version(element))
    items = []          # [token text, gap, starts_child]
    for li, l in enumerate(lines):
        toks = [t for t in l if t != "  "]
        depth = len(l) - len(toks)
        for ti, t in enumerate(toks):
            items.append([t, (0 if li == 0 else 1) if ti == 0 else 0, ti == 0 and li > 0 and (toks[0] == "/begin" or depth > 0) and toks[0] != "/end"])
    fam = pat["fam"]

    def forced(i):
        # the tag stays on the line of /begin and /end; the raw A2ML text keeps its own line structure
        prev = items[i - 1][0] if i > 0 else ""
        return prev in ("/begin", "/end") or "\n" in items[i][0] or "\n" in prev or items[i][0] == "/end" and i >= 2 and items[i - 2][0] == "A2ML"
    for i in range(1, len(items)):
        if forced(i):
            continue
        if fam == "oneline":
            items[i][1] = 0 if i > 3 else items[i][1]
        elif fam == "tokenperline":
            items[i][1] = 1
        elif fam == "blanklines" and items[i][1] == 1:
            items[i][1] = 2
    n = len(items)
    for p, g in ((pat["p1"], pat["g1"]), (pat["p2"], pat["g2"])):
        i = 3 + (p * max(1, n - 4)) // 10
        if 0 < i < n and not forced(i):
            items[i][1] = g
    file_level = False
    if pat["cmt"] != "none":
        cands = [i for i in range(len(items)) if items[i][2]]
        if cands:
            i = cands[(pat["cpos"] * len(cands)) // 4 % len(cands)]
            file_level = items[i][0] == "/begin" and items[i + 1][0] == "PROJECT"
            items[i][1] = max(1, items[i][1])
            if pat["p1"] % 3 == 0 and i > 0 and pat["cmt"] in ("line", "block1", "block2"):
                # the comment stands on the line of the item in front of it (e.g. `/end MEASUREMENT /* x */`)
                items.insert(i, [COMMENTS[pat["cmt"]], 0, False])
            else:
                # (every second pattern indents the comment: the real tokenizer keeps the leading blanks in the comment token)
                items.insert(i, [("    " if pat["cpos"] % 2 == 1 else "") + COMMENTS[pat["cmt"]], 1, False])
    out = []
    for i, (t, g, _) in enumerate(items):
        if i > 0:
            out.append("\n" * g if g > 0 else " ")
        out.append(t)
    text = "".join(out) + "\n"
    if fam == "crlf":
        text = text.replace("\n", "\r\n")
    return text, file_level


def doc_event(text_in, result):
    """Trace_Layout event for one load / write / cycles result of load-op (want: write, cycle)"""
    tin = [t for t in simple_tokens(text_in.replace("\r\n", "\n"))]
    tout = [t for t in simple_tokens(result.get("written", ""))]
    same = [equivalent(a, b) for a, b in zip(tin, tout)]
    ev = {"in": [[t[0], t[2]] for t in tin], "out": [[t[0], t[2]] for t in tout], "same": same,
          "cycles": result.get("cycle", []), "ndiags": len(result.get("diags", [])), "inScope": True}
    if "file" in result:
        f = result["file"]
        ev["file"] = {"ok": bool(f.get("ok")), "banner": bool(f.get("banner_first")), "eq": bool(f.get("model_eq")), "fix": bool(f.get("text_fix"))}
    return ev
