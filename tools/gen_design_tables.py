#!/usr/bin/env python3
"""Regenerate the tables of DESIGN.md §13 (findings, from KNOWN_FINDINGS.json and the fix: commits of /repo)
and §15 (seeded changes, from seeded/*/meta.json) between their BEGIN/END markers."""
import json
import os
import re
import subprocess

VERIF = os.path.dirname(os.path.dirname(os.path.abspath(__file__)))


def findings_table():
    k = json.load(open(os.path.join(VERIF, "KNOWN_FINDINGS.json")))["findings"]
    log = subprocess.run(["git", "-C", "/repo", "log", "--format=%h %s", "--reverse"], stdout=subprocess.PIPE, text=True).stdout.splitlines()
    fixes = [(l.split(" ", 1)[0], l.split(" ", 1)[1]) for l in log if l.split(" ", 1)[1].startswith("fix:")]
    by_commit = {}
    for f in k:
        st = f["status"]
        if st.startswith("fixed:"):
            for c in st[6:].split("+"):
                by_commit.setdefault(c, []).append(f)
    rows = ["| fix commit | properties whose check reports it | what was wrong (commit subject) | signatures in KNOWN_FINDINGS.json |", "|---|---|---|---|"]
    for c, subj in fixes:
        fs = by_commit.get(c, [])
        props = sorted({f["property"] for f in fs})
        sigs = sorted({f["signature"] for f in fs})
        sig_txt = ", ".join(f"`{x}`" for x in sigs[:3]) + (f" … ({len(sigs)})" if len(sigs) > 3 else "")
        rows.append(f"| {c} | {', '.join(props) or '–'} | {subj[5:]} | {sig_txt or '–'} |")
    open_rows = ["| property | signature | finding (not repaired) |", "|---|---|---|"]
    for f in k:
        if f["status"] == "open":
            open_rows.append(f"| {f['property']} | `{f['signature']}` | {f['what']} |")
    return "\n".join(rows) + "\n\nOpen (recorded, not repaired; the check prints `KNOWN-FINDING` for exactly this signature):\n\n" + "\n".join(open_rows) + "\n"


def seeds_table():
    d = os.path.join(VERIF, "seeded")
    rows = ["| seed | breaks | what the change does | detected by (quick tier) | first signature |", "|---|---|---|---|---|"]
    for sid in sorted(os.listdir(d)):
        mp = os.path.join(d, sid, "meta.json")
        if not os.path.exists(mp):
            continue
        m = json.load(open(mp))
        what = m.get("summary") or ""
        if not what:
            notes = m.get("needs_to_manifest", "")
            lines = [l.strip("-# ").strip() for l in notes.splitlines() if l.strip()]
            what = next((l for l in lines if l.lower().startswith("change")), lines[1] if len(lines) > 1 else (lines[0] if lines else ""))
        what = re.sub(r"\s+", " ", what)[:230].replace("|", "/")
        det = []
        first = ""
        for p, r in m.get("check_results", {}).items():
            det.append(f"{p}: {'**yes**' if r['exit'] == 1 else 'no (exit ' + str(r['exit']) + ')'}")
            if r["exit"] == 1 and not first:
                sig = next((l for l in r.get("first", []) if "signature=" in l), "")
                first = sig.strip().split(" ", 1)[0].replace("signature=", "")
        note = m.get("after_strengthening")
        rows.append(f"| {sid} | {', '.join(m.get('breaks', []))} | {what} | {'; '.join(det)}{' — ' + note if note else ''} | `{first}` |")
    return "\n".join(rows) + "\n"


def main():
    p = os.path.join(VERIF, "DESIGN.md")
    s = open(p).read()
    for name, fn in (("findings", findings_table), ("seeds", seeds_table)):
        a, b = f"<!-- BEGIN:{name} -->", f"<!-- END:{name} -->"
        if a in s and b in s:
            s = s[:s.index(a) + len(a)] + "\n" + fn() + s[s.index(b):]
    open(p, "w").write(s)
    print("DESIGN.md tables regenerated")


if __name__ == "__main__":
    main()
