#!/usr/bin/env python3
"""writes /verif/MANIFEST.json from the table below (kept in one place so it stays valid)"""
import json
import os

VERIF = os.path.dirname(os.path.dirname(os.path.abspath(__file__)))
ALL = [f"C{i:02d}" for i in range(1, 21)]

CHECKS = {
    "C13": dict(
        category="model_checking",
        text="TLC explores the product of the ideal list and the implementation-shaped (items + map) layer of ItemList.tla exhaustively for a 4/5-name alphabet with every operation and every argument including out-of-range ones (invariants Coherent, Refines, NoPanic); every transition of that graph is replayed on real ItemLists of three element types with a total observation of the public API, and long random histories of the real list are validated against the specification by TLC trace validation. Complete for the bounded alphabet because the list's abstract state is fully observable.",
        design_ref="DESIGN.md §4.5, §6 C13",
        note="Assumes unique names (precondition of the property), bounded alphabet; trusts TLC, the Json module and the 200-line observation/replay code in harness/src/itemlist.rs.",
        technique="TLA+ spec (ItemList.tla) model-checked with TLC; TLC-generated transitions replayed into the Rust ItemList; recorded histories validated against Trace_ItemList.tla",
        engine="tlc+replay",
    ),
}

CHECKS["C15"] = dict(
    category="model_checking",
    text="Placement.tla models the uid/line placement scheme of sort_new_items, merge and the writer's ordering; TLC checks for every bounded history that it refines the ideal relation of the property (placed order stable, new elements directly after the last placed element of their kind), that the uid compaction keeps this true for unbounded histories (small-uid configuration, 118k states), and finds the expected overflow counterexamples for the pinned algorithm with 5-bit uids. Every transition of the bounded graph (incl. states straddling the real 2^30 compaction threshold) is replayed on real models through the public API, and random histories with real loads, merges, pushes and up to 200 consecutive sort_new_items calls are validated against the specification by TLC. A difference from the implementation-shaped model is only reported as a violation if the ideal relation (Trace_PlacementIdeal, written orders only) rejects what was observed.",
    design_ref="DESIGN.md §4.6, §6 C15",
    note="Model covers the 20 list kinds and comments of one MODULE at a time (part of the recorded histories run on the second MODULE of a file; not the optional singletons, IF_DATA, USER_RIGHTS); bounded histories for the exhaustive part; comment uids inferred; trusts TLC and the harness projection (written /begin sequence, public uid/line fields).",
    technique="TLA+ spec (Placement.tla) model-checked with TLC against the ideal relation; TLC-generated transitions replayed into the real code; recorded histories validated against Trace_Placement.tla / Trace_PlacementIdeal.tla",
    engine="tlc+replay",
)

CHECKS["C14"] = dict(
    category="model_checking",
    text="The SortFull action of Placement.tla (sort.rs) is model-checked by TLC against the ideal relation of the property (same elements, grouped by kind, ascending names within a kind) and idempotence from every reachable placement state; every exported transition is replayed on real models, where the relations of the property (== content per element, written order, reload equality and order, text idempotence) are evaluated directly on the real objects; random documents with interleaved sort() calls are validated by TLC trace validation, with the ideal trace specification as the judge when the implementation-shaped one rejects.",
    design_ref="DESIGN.md §4.4, §4.6, §6 C14",
    note="One MODULE at a time in the model (files with two MODULEs are judged per module by IdealSortFull, the order of the MODULEs and the content of every element included), list kinds + comments in the model (other module children are present in the recorded documents but projected out of the order comparison; they are covered by the ==/reload/idempotence relations); bounded state space.",
    technique="TLA+ spec (Placement.tla, SortFull) model-checked with TLC; TLC-generated transitions replayed into the real code; recorded histories validated against Trace_Placement.tla / Trace_PlacementIdeal.tla",
    engine="tlc+replay",
)

_MERGE_NOTE = "Merging is per pair of modules (one MODULE per file; cleanup and check are also run on files with two MODULEs and judged per module); module graphs are extracted from the Debug rendering of the real objects through the hand-classified reference-site table (tools/graphmodel.py; generation fails if an ident-typed field of the frozen grammar is unclassified); content identities unique except deliberate twins; lenient readings listed in the evidence assumptions. Trusts TLC and the 300-line renderer/extractor."
CHECKS["C08"] = dict(
    category="model_checking",
    text="Graph.tla states C08 as a relation MergeOK(A, B, R) between module graphs (A unchanged, every named element of B represented exactly once under its own or a fresh name, names unique per namespace, nothing invented). TLC enumerates one abstract case per reference site x overlap pattern (identical twin, same name/other content, other kind of the same namespace, homonym in another namespace, pre-existing .MERGE names, conflicting owner, GROUP/FUNCTION union; 3034 cases) and checks the reference merge against the relation; every case plus seeded random module pairs is rendered to A2L, merged by the real merge_modules, and the graphs extracted from the real objects are judged by the same relation in TLC.",
    design_ref="DESIGN.md §4.4, §6 C08",
    note=_MERGE_NOTE,
    technique="TLA+ relation (Graph.tla MergeOK) + TLC-generated cases (MC_Merge) executed on the real merge and validated by TLC (Trace_Graph)",
    engine="tlc+replay",
)
CHECKS["C09"] = dict(
    category="model_checking",
    text="Graph.tla states C09 as the relation RefsFollow(A, B, R): every reference held by an element added from B designates the representative of its original target, at every one of the 60 reference sites of the grammar (site table generated from a hand classification with a completeness gate over the frozen grammar), and resolved references stay resolved. TLC generates a case for every site x overlap pattern x kind combination and checks the reference merge (and an expected-violation configuration with one site left out); every case and seeded random module pairs run through the real merge_modules and the extracted graphs are judged by TLC.",
    design_ref="DESIGN.md §4.4, §6 C09, Appendix A",
    note=_MERGE_NOTE,
    technique="TLA+ relation (Graph.tla RefsFollow) over a site-exhaustive TLC-generated case set, executed on the real merge and validated by TLC (Trace_Graph)",
    engine="tlc+replay",
)

CHECKS["C10"] = dict(
    category="model_checking",
    text="Graph.tla states C10 as the relation CleanupOK(G, R) (removes only helpers, objects/typedefs untouched except dangling references, no removed element is still referenced from any of the 60 reference sites, resolved stays resolved, nothing invented) plus idempotence. TLC enumerates a module for every site whose target can be a helper x helper kind x {only reference, dangling, with unused sibling} x supported owner, SUB_GROUP/SUB_FUNCTION/REF_UNIT chains and cycles, and groups/functions with a single member of each object kind, and checks the fixpoint reference cleanup against the relation. Every case and seeded random modules run through the real cleanup() twice; the extracted graphs are judged by TLC, the real check() must not report new dangling references, and the model after the second run must equal the first.",
    design_ref="DESIGN.md §4.4, §6 C10",
    note=_MERGE_NOTE,
    technique="TLA+ relation (Graph.tla CleanupOK) over TLC-generated per-site cases, executed on the real cleanup and validated by TLC (Trace_Graph)",
    engine="tlc+replay",
)

CHECKS["C11"] = dict(
    category="model_checking",
    text="Graph.tla defines ExpectedReports(G): for every reference at a covered site the name check() must report (none if it resolves, honouring the neutral names and the THIS. convention for TYPEDEF_CHARACTERISTICs that are only used as structure components). TLC enumerates for every site x target kind the consistent module and each single corruption of the property (unused name at each list position, neutral, homonym in another namespace), all THIS constellations, and a totality family (8 CHARACTERISTIC types x 0..7 AXIS_DESCR x 5 attributes on both owner kinds, self references, empty lists), and checks the oracle on them; every case and seeded random modules are run through the real check(): the reported missing names must equal the oracle's (sound and complete), no panic, model unchanged.",
    design_ref="DESIGN.md §4.4, §6 C11",
    note=_MERGE_NOTE + " Completeness is over the sites covered by check() at the pinned commit.",
    technique="TLA+ oracle (Graph.tla ExpectedReports/CheckOK) over TLC-generated per-site corruptions, executed on the real check() and validated by TLC (Trace_Graph)",
    engine="tlc+replay",
)

CHECKS["C17"] = dict(
    category="model_checking",
    text="Decode.tla transcribes the loader's encoding cascade and BOM strip as a decision procedure over byte sequences. TLC proves within the bounds that every encoding of every 1..4-character text over representative code points (all UTF-8 lengths, BMP and non-BMP, every length residue mod 4) decodes back to the text, i.e. the heuristic design is model-checked; all 41k byte strings up to length 4 over a branch-separating byte alphabet are compared between the specification and the real decode_raw_bytes (hook), every round-trip case is embedded in a real document, encoded independently and loaded from a file (model equal to loading the string), and seeded random byte files go through load() without a panic.",
    design_ref="DESIGN.md §4.9, §6 C17",
    note="Representative code points per class; ASCII first character (precondition). The byte-level fuzz part is exploration, not model checking. Trusts TLC, Rust's std encoders used to build the files, and the hook (a 3-line pass-through).",
    technique="TLA+ spec (Decode.tla) model-checked with TLC; TLC-generated byte strings and texts replayed into the real decoder/loader",
    engine="tlc+replay",
)

CHECKS["C12"] = dict(
    category="model_checking",
    text="Limits.tla is the symbolic decision table of the property: for each of 12 conversion cases which raw endpoint of the data type maps to which physical limit (identity/table: raw range; LINEAR by sign of a; linear RAT_FUNC inverted by sign of f/b; FORM and general RAT_FUNC unbounded) and when a report is due. TLC enumerates and sanity-checks the complete table (5 element kinds x 11 data types x 12 cases x 4 placements = 2640 rows); every row is instantiated with seeded coefficients, evaluated in exact rational arithmetic, the declared limits are placed clearly inside/outside, and the real check() must report a LimitCheckError for the element exactly when the table says so.",
    design_ref="DESIGN.md §4.11, §6 C12, §7",
    note="The case analysis is decided by the TLA+ table; the numeric instantiation is exploration (exact rationals in Python, limits clearly inside/outside by at least 1 % of the range); accuracy near the documented tolerance and double overflow corner cases are not verified.",
    technique="TLA+ decision table (Limits.tla) enumerated by TLC; rows instantiated numerically and executed on the real check()",
    engine="tlc+replay",
)

CHECKS["C16"] = dict(
    category="model_checking",
    text="Include.tla models include resolution relative to the including file, flattening, and the writer's reproduction of directives from the per-element include attribution; TLC checks for every generated shape that the written main file reloads to the flattened element sequence (and finds the expected violation of the pinned 'innermost file' attribution for nested includes). All 360 shape variants (8 shapes x placement of every include file x quoted/unquoted x separator), 12 variants of an include inside the A2ML block and 10 fault cases are materialised as directory trees and run through the real library: load equals load of the flattened text, the written main file has exactly the ideal directives and reloads equal, merge_includes gives a self-contained equal output, faults give an error naming the file (each fault in its own process with time and memory limits).",
    design_ref="DESIGN.md §4.8, §6 C16",
    note="Documents of three module-level elements; include files hold whole elements (splits at element boundaries); 'unreadable' realised as a directory. Trusts TLC and the 150-line tree materialiser in tools/checks/c16.py.",
    technique="TLA+ spec (Include.tla) model-checked with TLC; TLC-generated include trees materialised on disk and executed on the real load/write/merge_includes",
    engine="tlc+replay",
)

_PARSER_NOTE = "The grammar is the DSL of the pinned commit (frozen copy); token attributes (which integer types a literal fits, valid float syntax, digit-start identifiers) and value equality between token text and stored value are computed by the driver (Python, exact arithmetic), outside TLA+; IF_DATA content is treated as balanced tokens at this level. Trusts TLC, the hook tokenizer (token stream fed to the specification) and tools/docgen.py / a2ldoc.py."
CHECKS["C04"] = dict(
    category="model_checking",
    text="Grammar.tla holds the frozen A2L 1.7.1 grammar (205 elements, 20 enums) as a TLA+ constant and Parser.tla is the parser as a function of the token sequence, parametric in it (a transcription of the code-generator templates and parser.rs helpers: typed parameters, greedy sequences with rewind, optional/required/repeatable sub-elements, block vs keyword form, version gating, unknown-tag skipping, end-tag check, file-level version look-ahead, severity of every diagnostic site). TLC enumerates the finite case space from the grammar (every element under every version and every single deviation named by the property: 7.7k cases); each case is concretised with distinct tokens, loaded by the real library in strict and non-strict mode, and TLC evaluates Parser.tla on the real token stream: outcome, error class and line, every diagnostic with its line, which token lands in which field, and (table Corresponding) that the deviation produced its diagnostic class; stored values are compared with the token texts by the driver.",
    design_ref="DESIGN.md §4.1, §4.3, §6 C04",
    note=_PARSER_NOTE,
    technique="TLA+ spec (Parser.tla over Grammar.tla) as the oracle; TLC-enumerated case space (MC_ParserCases) concretised and executed on the real loader; outcomes validated by TLC (Trace_Parser)",
    engine="tlc+replay",
)

CHECKS["C06"] = dict(
    category="model_checking",
    text="The severity of every diagnostic site (error_or_log / log_warning / hard error) is part of Parser.tla, so strict-vs-lenient behaviour is a consequence of the specification; every load of the C04 case space and of 220 documents with two and three injected recoverable problems of different classes (every pair and triple of 11 fault classes) is validated against Parser.tla in both modes, including class and line of every diagnostic (R4), and the relations R1-R3 of the property are evaluated by TLC directly on every pair of observed outcomes (relations before predictions).",
    design_ref="DESIGN.md §4.3, §6 C06, Appendix C",
    note=_PARSER_NOTE,
    technique="TLA+ spec (Parser.tla severity table) + relations R1-R3 (Trace_Parser PairVerdict) evaluated by TLC on observed strict/lenient outcome pairs",
    engine="tlc+replay",
)
CHECKS["C07"] = dict(
    category="model_checking",
    text="SkipUnknown in Parser.tla transcribes the unknown-tag skipper (begin/end balance, stop list, rewind). For each of the 40 blocks that admit optional sub-elements TLC enumerates documents with 0-2 sub-elements x insertion point x 12 payload shapes (2880 cases; the property's exclusions are generator constraints); base document and document with payload are loaded leniently and strictly by the real library, every load is validated against Parser.tla, and the relation of the property (exactly one more warning, of class UnknownSubBlock naming the element; model equal to the base document's; strict rejects naming the element) is evaluated by TLC on the observed outcomes.",
    design_ref="DESIGN.md §4.3, §6 C07",
    note=_PARSER_NOTE,
    technique="TLA+ spec (Parser.tla SkipUnknown) + relation SkipVerdict evaluated by TLC on observed outcomes of TLC-enumerated payload cases",
    engine="tlc+replay",
)

_LAYOUT_NOTE = "Documents are generated from the grammar in canonical order (preconditions of C05 are generator constraints); token equivalence (number and escape notation, whitespace in comments and A2ML) is decided by the driver with an independent tokenizer; comments only at block level and at the file level (the latter is the open finding D18). Model equality is the library's ==. Edit locality through the API (third sentence of C05) and API-built models (C01) are not covered yet."
CHECKS["C01"] = dict(
    category="model_checking",
    text="Layout.tla models the line bookkeeping of tokenizer, parser and writer and TLC checks on all abstract documents of up to 4 items (tokens, comments of height 1-3, strings; gaps 0-2; 111k documents) that writing is a fixpoint (no drift) - with the expected violation for the pinned scheme. The maximal document of every one of the 205 grammar elements under seeded layout patterns (enumerated by MC_LayoutCases), and the literal catalogue of every parameter type (all string escapes, integer limits in decimal and hex, float formats), are loaded, written and cycled three times by the real library; TLC (Trace_Layout) judges on the observations: every cycle loads, the model stays equal, the text is a byte fixpoint, no new diagnostics.",
    design_ref="DESIGN.md §4.7, §6 C01",
    note=_LAYOUT_NOTE,
    technique="TLA+ spec (Layout.tla) model-checked with TLC; TLC-enumerated layout patterns and literal classes executed on the real load/write cycle; observations judged by TLC (Trace_Layout, Trace_Parser)",
    engine="tlc+replay",
)
CHECKS["C02"] = dict(
    category="model_checking",
    text="Content preservation is judged on two levels: (i) Parser.tla decides which token lands in which field and that a literal which does not fit its field (literal catalogue: limits of every integer width in decimal and hex, float overflow, identifier length, ...) is diagnosed, and the driver compares stored values with token texts; (ii) for every element of the grammar under seeded layout patterns (with comments in block-level gaps) the written text must hold the same significant tokens in the same order with equivalent values (relation ContentPreserved of Trace_Layout, evaluated by TLC on the token sequences of an independent tokenizer).",
    design_ref="DESIGN.md §4.3, §6 C02",
    note=_LAYOUT_NOTE + " Uninterpreted IF_DATA payloads are covered by C18.",
    technique="TLA+ specs (Parser.tla, Layout.tla) + relation ContentPreserved evaluated by TLC on observed input/output token sequences of TLC-enumerated cases",
    engine="tlc+replay",
)
CHECKS["C05"] = dict(
    category="model_checking",
    text="Layout.tla states line preservation for the offset scheme (stored line per token, offsets as differences, comment heights) and TLC checks it on all abstract documents of up to 4 items, with the expected violation for the pinned scheme (multi-line block comments). The maximal document of each of the 205 grammar elements is laid out under seeded patterns from MC_LayoutCases (one line, token per line, blank lines, CRLF, two gap changes at relative positions, line and block comments of height 1-3 in block-level gaps), loaded and written by the real library, and TLC (Trace_Layout) judges that every significant token and comment is written on the line it had in the input and that text in the writer's own format is reproduced byte for byte.",
    design_ref="DESIGN.md §4.7, §6 C05",
    note=_LAYOUT_NOTE,
    technique="TLA+ spec (Layout.tla) model-checked with TLC; TLC-enumerated layout patterns applied to real documents; observed token lines judged by TLC (Trace_Layout)",
    engine="tlc+replay",
)

CHECKS["C20"] = dict(
    category="translation_validation",
    text="Two builds of the same probe harness - against the crate as shipped (specification.rs) and against a scratch copy whose specification.rs is the macro invocation (specification_orig.rs) expanded by the in-tree generator - run the same TLC-generated corpus (C04 case space with all deviations in both modes, the literal catalogue, multi-fault documents, laid-out documents of every element); their transcripts (Debug tree, Display of the error and of every diagnostic, written text, three reload cycles) are compared case by case, and the freshly generated variant is additionally validated against Parser.tla (Trace_Parser), so both variants are bound to the same specification.",
    design_ref="DESIGN.md §6 C20, §7",
    note="Differential comparison bounded by the corpus; equality of two programs' outputs is not a statement of a single state machine (DESIGN.md 7), the TLA+ specification contributes the corpus and the conformance of both variants. The scratch build (about 40 s) is removed afterwards.",
    technique="differential execution of the shipped and the freshly expanded code on a TLC-generated corpus, both validated against Parser.tla",
    engine="tlc+replay",
)

CHECKS["C03"] = dict(
    category="model_checking",
    text="Lexer.tla is a scanner that consumes input in every step (termination by construction) and Parser.tla is total; TLC enumerates every string of up to 3/4 pieces over a branch-separating alphabet and every token soup of up to 4 tokens (98k inputs, thorough: millions): the real tokenizer must agree with Lexer.tla on tokens, lines and error class and all four load entry points must return. Token-level prefixes, deletions, duplications and swaps of grammar documents are loaded strict, lenient and as fragment and judged by Parser.tla (IF_DATA through A2ml.tla); 760 hostile A2ML x IF_DATA combinations run in isolated processes with time and memory limits; seeded random byte files go through load().",
    design_ref="DESIGN.md §4.2, §4.3, §6 C03, §7",
    note="Exhaustive within the stated bounds for the lexer state machine; random bytes and the hostile A2ML list are exploration. A hang is observable only as a time-out (10 s per isolated case).",
    technique="TLA+ specs (Lexer.tla, Parser.tla) with TLC-enumerated inputs replayed into the real tokenizer and loader; isolated-process execution with limits for hostile inputs",
    engine="tlc+replay",
)

CHECKS["C18"] = dict(
    category="model_checking",
    text="A2ml.tla specifies the A2ML declaration semantics (Resolve: scoping of named types, one name space per kind, block / repeat flags, array nesting) and the type-directed IF_DATA interpreter with its cursor restore, definition order (built-in before in-file) and the fallback for undescribed content (transcribed from ifdata.rs). A grammar-based generator produces well-formed LL(1)-unambiguous definitions (depth <= 4, all ten scalar types, char[n], enums, structs, arrays, sequences, tagged structs / unions, blocks, references); the type tree the library builds (hook parse_a2ml) is compared with Resolve by TLC; conforming instances and single-token deviations at all eleven IF_DATA sites, with the definition in the file, built-in or both, strict and lenient, are judged block by block by TLC (Trace_A2ml: validity flag, diagnostics, error class and line, ConformingIsValid) and the specification's value tree is compared leaf by leaf with the stored values; write / three reload cycles and ifdata_cleanup (exactly the invalid blocks go, CleanupVerdict) are checked per document.",
    design_ref="DESIGN.md §4.10, §6 C18",
    note="Random exploration of the definition language (60 definitions / 3 400 blocks quick, 10 000 / 570 000 thorough), exhaustive over nothing. The A2ML lexer (text to declaration list) is exercised through the rendered text of every generated definition but is not itself specified. Ambiguous definitions and multiplicity of non-repeatable tags are outside the claim (see evidence assumptions).",
    technique="TLA+ spec (A2ml.tla) evaluated by TLC on observed executions (trace validation of type trees, IF_DATA blocks and cleanup results recorded from the real library)",
    engine="tlc+replay",
)

CHECKS["C19"] = dict(
    category="model_checking",
    text="Nine a2ml_specification! invocations (three hand-written ones that together use every A2ML construct the macro accepts, doc comments and equally named tagged items of different content; six seeded definitions of the C18 generator) are compiled into the harness with the in-tree a2lmacros. The plain-A2ML constant of each is parsed by the library and its type tree compared by TLC with Resolve(decls) of A2ml.tla for the declaration list the invocation was rendered from. Conforming instances and deviations at the eleven IF_DATA sites are loaded with the constant as built-in definition; each block is judged by A2ml.tla, and the typed round trip is judged by TLC (TypedVerdict / TypedDocVerdict in Trace_A2ml): a valid block decodes, the stored block is valid and decodes to an equal value, an invalid block gives no value, the written file is byte-identical after every typed value was stored back; the values held by the typed value are exactly the leaves of the specification's value tree. Every single change of shape of each specification (shorter arrays, dropped dimensions, other scalar types, dropped members / tags, flipped block / sequence flags) is used as in-file definition and decoded with the unchanged typed code: no panic.",
    design_ref="DESIGN.md §4.10, §6 C19",
    note="The set of invocations is fixed at build time. Constructs the macro refuses at compile time (arrays of enums / structs, an anonymous struct as sequence item) cannot be part of it and are listed in DESIGN.md. Typed values are compared with the block as multisets of leaves.",
    technique="TLA+ spec (A2ml.tla) evaluated by TLC on observed executions: type trees, IF_DATA blocks and typed load/store relations recorded from macro-generated code in the harness (trace validation)",
    engine="tlc+replay",
)

PENDING = "check not built yet in this round; planned per DESIGN.md §6 (no claim made until the TLA+ module and its binding exist)"
NOT_APPLICABLE = {}


def main():
    checks = []
    for pid in ALL:
        c = CHECKS.get(pid)
        if not c:
            continue
        checks.append({
            "property_id": pid,
            "quick_cmd": f"bin/check {pid} --tier quick",
            "thorough_cmd": f"bin/check {pid} --tier thorough",
            "evidence_file": f"/verif/evidence/{pid}.json",
            "replay_cmd_template": f"bin/check {pid} --replay {{path}}",
            "engine": c["engine"],
            "level_claimed": {"category": c["category"], "text": c["text"], "design_ref": c["design_ref"]},
            "level_note": c["note"],
            "technique": c["technique"],
        })
    na = [{"property_id": p, "reason": NOT_APPLICABLE.get(p, PENDING)} for p in ALL if p not in CHECKS]
    m = {
        "version": 1,
        "setup_cmd": "bin/setup",
        "hooks": {
            "guard": "a2lfile_verif",
            "enable": "RUSTFLAGS --cfg a2lfile_verif (set in /verif/harness/.cargo/config.toml; the harness depends on /repo/a2lfile by path)",
            "baseline_off_cmd": "cd /repo && cargo test --workspace --no-fail-fast --offline",
            "source_commits": ["53e722e"],
            "add_only": True,
        },
        "engines": [
            {"name": "tlc+replay", "path": "/verif/spec, /verif/harness, /verif/tools",
             "serves_properties": sorted(CHECKS.keys()),
             "kind_free_text": "explicit TLA+ specifications checked with TLC; behaviours exported by TLC are replayed through the real library by a Rust harness, and executions recorded from the real library are validated against the specification by TLC (trace validation)"},
        ],
        "checks": checks,
        "not_applicable": na,
        "notes": "Known genuine defects are listed in /verif/KNOWN_FINDINGS.json (open = recorded, fixed:<commit> = repaired in /repo by a fix: commit). See DESIGN.md.",
    }
    with open(os.path.join(VERIF, "MANIFEST.json"), "w") as f:
        json.dump(m, f, indent=1)
    print(f"MANIFEST.json: {len(checks)} checks, {len(na)} not_applicable")


if __name__ == "__main__":
    main()
