"""Shared machinery of the /verif checks: harness build, TLC runner, evidence, findings, replays.

Exit code contract of every check (bin/check):
  0  property held on everything explored (known findings are printed as KNOWN-FINDING lines)
  1  at least one violation that KNOWN_FINDINGS.json does not list as open; each printed as
     `VIOLATION property=<id> replay=<path>`
  2  tool error (TLC failure, harness does not build, stale generated files, timeout of a tool)
"""
import atexit
import fcntl
import json
import os
import re
import shutil
import subprocess
import sys
import tempfile
import time

VERIF = os.path.dirname(os.path.dirname(os.path.abspath(__file__)))
REPO = os.environ.get("VERIF_REPO", "/repo")
SPEC = os.path.join(VERIF, "spec")
HARNESS = os.path.join(VERIF, "harness")
SCRATCH_ROOT = os.environ.get("VERIF_SCRATCH", "/var/tmp")

_scratch = None


def tool_error(msg):
    print(f"TOOL-ERROR: {msg}", flush=True)
    sys.exit(2)


def scratch():
    """per-process scratch directory outside /repo and /verif, removed at exit"""
    global _scratch
    if _scratch is None:
        os.makedirs(SCRATCH_ROOT, exist_ok=True)
        _scratch = tempfile.mkdtemp(prefix="a2lverif_", dir=SCRATCH_ROOT)
        atexit.register(lambda: shutil.rmtree(_scratch, ignore_errors=True))
    return _scratch


def seed():
    try:
        return int(os.environ.get("VERIF_SEED", "1"))
    except ValueError:
        return 1


# --------------------------------------------------------------------------------------------
# harness build
# --------------------------------------------------------------------------------------------
def build_harness(release=False):
    """(re)build the Rust harness against /repo's working tree; returns the binary path"""
    lock = open(os.path.join(HARNESS, ".build.lock"), "w")
    fcntl.flock(lock, fcntl.LOCK_EX)
    try:
        cmd = ["cargo", "build", "--offline", "--quiet"]
        if release:
            cmd.append("--release")
        env = dict(os.environ)
        env["CARGO_NET_OFFLINE"] = "true"
        t0 = time.time()
        p = subprocess.run(cmd, cwd=HARNESS, env=env, stdout=subprocess.PIPE, stderr=subprocess.STDOUT, text=True)
        if p.returncode != 0:
            errs = [l for l in p.stdout.splitlines() if l.startswith("error")][:10]
            print(p.stdout[-4000:])
            tool_error(f"harness does not build against {REPO}: {errs}")
        binp = os.path.join(HARNESS, "target", "release" if release else "debug", "a2lverif")
        if not os.path.exists(binp):
            tool_error("harness binary missing after build")
        return binp
    finally:
        fcntl.flock(lock, fcntl.LOCK_UN)
        lock.close()


def run_harness(binp, args, timeout=600, stdin=None, env=None, cwd=None):
    """run a harness subcommand; returns (returncode, list of parsed JSON lines, raw stderr).
    A crash/timeout of the harness process is returned as data (rc != 0), not raised."""
    e = dict(os.environ)
    if env:
        e.update(env)
    try:
        p = subprocess.run([binp] + [str(a) for a in args], stdout=subprocess.PIPE, stderr=subprocess.PIPE,
                           input=stdin, timeout=timeout, env=e, cwd=cwd)
    except subprocess.TimeoutExpired as ex:
        return -9, [], f"timeout after {timeout}s"
    lines = []
    for l in p.stdout.decode("utf-8", "replace").splitlines():
        l = l.strip()
        if l.startswith("{"):
            try:
                lines.append(json.loads(l))
            except json.JSONDecodeError:
                pass
    return p.returncode, lines, p.stderr.decode("utf-8", "replace")


def run_harness_watched(binp, args, stall=20, timeout=3400, env=None):
    """run a harness subcommand that reports progress (util::progress); a case that makes no progress for
    `stall` seconds is a hang: the process is killed.  Returns (rc, parsed stdout lines, stderr, hung_case or None)."""
    prog = os.path.join(scratch(), f"progress_{os.getpid()}_{int(time.time() * 1000) % 100000}")
    if os.path.exists(prog):
        os.remove(prog)
    e = dict(os.environ)
    if env:
        e.update(env)
    e["A2LVERIF_PROGRESS"] = prog
    so = open(prog + ".stdout", "wb")
    se = open(prog + ".stderr", "wb")
    p = subprocess.Popen([binp] + [str(a) for a in args], stdout=so, stderr=se, env=e)
    t0 = time.time()
    last_val, last_change, hung = None, time.time(), None
    while True:
        try:
            p.wait(timeout=0.5)
            break
        except subprocess.TimeoutExpired:
            pass
        try:
            val = open(prog).read()
        except OSError:
            val = None
        now = time.time()
        if val != last_val:
            last_val, last_change = val, now
        elif val is not None and now - last_change > stall:
            try:
                hung = int(val)
            except ValueError:
                hung = -1
            p.kill()
            p.wait()
            break
        if now - t0 > timeout:
            p.kill()
            p.wait()
            hung = -1
            break
    so.close()
    se.close()
    lines = []
    for l in open(prog + ".stdout", "rb").read().decode("utf-8", "replace").splitlines():
        l = l.strip()
        if l.startswith("{"):
            try:
                lines.append(json.loads(l))
            except json.JSONDecodeError:
                pass
    err = open(prog + ".stderr", "rb").read().decode("utf-8", "replace")
    for f in (prog, prog + ".stdout", prog + ".stderr"):
        if os.path.exists(f):
            os.remove(f)
    return p.returncode, lines, err, hung


def run_fuzz_watched(binp, seed, n, directory, max_hangs=4):
    """decode-fuzz with the hang watchdog: returns (result lines without the summaries, hangs: [(index, bytes of the file)])"""
    lines, hangs, skip = [], [], 0
    while True:
        rc, ls, err, hung = run_harness_watched(binp, ["decode-fuzz", "--seed", seed, "--n", n, "--dir", directory, "--skip", skip], stall=20, timeout=3000)
        lines += [l for l in ls if "summary" not in l]
        if hung is None:
            if rc != 0:
                tool_error(f"decode-fuzz failed: {err[-300:]}")
            return lines, hangs
        try:
            with open(os.path.join(directory, "fuzz.a2l"), "rb") as f:
                data = list(f.read())
        except OSError:
            data = []
        hangs.append((hung, data))
        if hung < 0 or len(hangs) >= max_hangs:
            return lines, hangs
        skip = hung + 1


def run_cases_resilient(binp, subcmd, cases_path, out_path, ncases, extra=(), stall=20, max_hangs=5):
    """run a case file through a harness subcommand that writes one result line per case to out_path; hung cases are
    skipped and reported.  Returns (results: list of length ncases with {"hang": True} for hung / unfinished cases,
    list of hung case indices)."""
    results = [None] * ncases
    hangs = []
    skip = 0
    while skip < ncases:
        if os.path.exists(out_path):
            os.remove(out_path)
        rc, lines, err, hung = run_harness_watched(binp, [subcmd, "--cases", cases_path, "--out", out_path, "--skip", skip] + list(extra), stall=stall)
        got = []
        if os.path.exists(out_path):
            with open(out_path) as f:
                for l in f:
                    l = l.strip()
                    if l:
                        try:
                            got.append(json.loads(l))
                        except json.JSONDecodeError:
                            break
        for i, r in enumerate(got):
            if skip + i < ncases:
                results[skip + i] = r
        if hung is None:
            if rc != 0:
                tool_error(f"{subcmd} failed rc={rc}: {err[-500:]}")
            break
        h = skip + len(got) if hung < 0 or hung < skip + len(got) else hung
        hangs.append(h)
        results[h] = {"hang": True}
        skip = h + 1
        if len(hangs) >= max_hangs:
            break
    for i in range(ncases):
        if results[i] is None:
            results[i] = {"hang": True, "not_run": True}
    return results, hangs


# --------------------------------------------------------------------------------------------
# TLC
# --------------------------------------------------------------------------------------------
class TlcResult:
    def __init__(self):
        self.rc = None
        self.ok = False              # finished without any error
        self.violation = None        # name of a violated invariant / property, if any
        self.generated = 0
        self.distinct = 0
        self.depth = 0
        self.actions = {}            # action name -> (distinct, total)
        self.out_path = None
        self.errors = []
        self.wall = 0.0
        self.rejected_at = None      # trace validation: (index, event json)

    def raw_lines(self, prefix):
        """all output lines that start with the given prefix"""
        with open(self.out_path, "r", errors="replace") as f:
            for line in f:
                if line.startswith(prefix):
                    yield line.rstrip("\n")

    def prints(self, tag):
        """yield the JSON payloads of PrintT(<<tag, ToJson(..)>>) lines"""
        prefix = '<<"%s", ' % tag
        with open(self.out_path, "r", errors="replace") as f:
            for line in f:
                if line.startswith(prefix):
                    line = line.rstrip("\n")
                    body = line[len(prefix):-2]
                    yield json.loads(json.loads(body))


_ACT = re.compile(r"^<(\w+) line (\d+), col \d+ to line \d+, col \d+ of module (\w+)(?: \((\d+) \d+ \d+ \d+\))?>: (\d+):(\d+)")
_DEF = re.compile(r"^([A-Za-z_]\w*)(\([^)]*\))?\s*==")
_defcache = {}


def _def_at(module, line):
    """name of the top-level definition of SPEC/<module>.tla that contains the given line"""
    if module not in _defcache:
        defs = []
        try:
            with open(os.path.join(SPEC, module + ".tla")) as f:
                for i, l in enumerate(f, 1):
                    m = _DEF.match(l)
                    if m:
                        defs.append((i, m.group(1)))
        except OSError:
            pass
        _defcache[module] = defs
    name = None
    for i, n in _defcache[module]:
        if i <= line:
            name = n
        else:
            break
    return name



def tlc(module, cfg=None, workers=4, timeout=900, env=None, simulate=None, depth=None, coverage=True,
        heap="4g", dfs=False, expect_violation=False, extra=None):
    """run TLC on SPEC/<module>.tla with SPEC/<cfg>.cfg; output goes to a scratch file"""
    res = TlcResult()
    sd = scratch()
    md = tempfile.mkdtemp(prefix="md_", dir=sd)
    out_path = os.path.join(sd, f"tlc_{module}_{os.path.basename(md)}.out")
    res.out_path = out_path
    cfgp = os.path.join(SPEC, (cfg or module) + ".cfg")
    cmd = ["timeout", str(timeout), "tlc", "-workers", str(workers), "-metadir", md, "-cleanup",
           "-noGenerateSpecTE", "-config", cfgp]
    if coverage and not simulate:
        cmd += ["-coverage", "1"]
    if simulate:
        cmd += ["-simulate", f"num={simulate}"]
        if depth:
            cmd += ["-depth", str(depth)]
    if extra:
        cmd += extra
    cmd.append(os.path.join(SPEC, module + ".tla"))
    e = dict(os.environ)
    jtmp = os.path.join(scratch(), "jtmp")      # TLC's temporary directories go with the scratch directory of the check
    os.makedirs(jtmp, exist_ok=True)
    jopts = f"-Xmx{heap} -Xss1g -Djava.io.tmpdir={jtmp}"
    if dfs:
        jopts += " -Dtlc2.tool.queue.IStateQueue=StateDeque"
    e["JAVA_TOOL_OPTIONS"] = jopts
    if env:
        e.update(env)
    t0 = time.time()
    with open(out_path, "w") as out:
        p = subprocess.run(cmd, cwd=sd, env=e, stdout=out, stderr=subprocess.STDOUT)
    res.wall = time.time() - t0
    res.rc = p.returncode
    shutil.rmtree(md, ignore_errors=True)
    with open(out_path, "r", errors="replace") as f:
        for line in f:
            if line.startswith("<<"):
                if line.startswith('<<"TRACE-REJECTED-AT"'):
                    m = re.match(r'<<"TRACE-REJECTED-AT", (\d+), (".*")>>', line.strip())
                    if m:
                        try:
                            res.rejected_at = (int(m.group(1)), json.loads(json.loads(m.group(2))))
                        except Exception:
                            res.rejected_at = (int(m.group(1)), m.group(2))
                continue
            m = _ACT.match(line)
            if m:
                # TLC names an action after the innermost definition; when it reports a call site
                # "(line col line col)" the enclosing definition of that line is the action we mean
                name = m.group(1)
                if m.group(4):
                    name = _def_at(m.group(3), int(m.group(4))) or name
                d, t = res.actions.get(name, (0, 0))
                res.actions[name] = (d + int(m.group(5)), t + int(m.group(6)))
                continue
            m = re.match(r"^(\d+) states generated, (\d+) distinct states found", line)
            if m:
                res.generated, res.distinct = int(m.group(1)), int(m.group(2))
                continue
            m = re.match(r"^The depth of the complete state graph search is (\d+)", line)
            if m:
                res.depth = int(m.group(1))
                continue
            m = re.match(r"^Error: Invariant (\w+) is violated", line)
            if m:
                res.violation = m.group(1)
                continue
            m = re.match(r"^Error: Action property (\w+) is violated", line)
            if m:
                res.violation = m.group(1)
                continue
            if line.startswith("Error:") or "Exception" in line:
                res.errors.append(line.strip())
    finished = False
    with open(out_path, "r", errors="replace") as f:
        txt = f.read()
        finished = "Model checking completed. No error has been found." in txt or \
            (simulate is not None and "Finished in" in txt and not res.errors)
    res.ok = finished and p.returncode == 0
    if p.returncode == 124:
        tool_error(f"TLC timed out after {timeout}s on {module}")
    if not res.ok and not (expect_violation and res.violation):
        if res.violation is None and res.rejected_at is None:
            tail = txt[-3000:]
            print(tail)
            tool_error(f"TLC failed on {module} (rc={p.returncode}): {res.errors[:3]}")
    return res


def require_actions(res, names, what):
    """vacuity guard: every listed action must have been taken at least once"""
    missing = [n for n in names if res.actions.get(n, (0, 0))[1] == 0]
    if missing:
        tool_error(f"vacuity: actions never taken in {what}: {missing}")


def sany_all():
    mods = sorted(f for f in os.listdir(SPEC) if f.endswith(".tla"))
    bad = []
    for m in mods:
        p = subprocess.run(["tla-sany", m], cwd=SPEC, stdout=subprocess.PIPE, stderr=subprocess.STDOUT, text=True)
        if p.returncode != 0 or "Semantic errors" in p.stdout or "Parse Error" in p.stdout or "Fatal" in p.stdout:
            bad.append((m, p.stdout[-1500:]))
    return mods, bad


# --------------------------------------------------------------------------------------------
# findings, violations, evidence
# --------------------------------------------------------------------------------------------
def load_known():
    p = os.path.join(VERIF, "KNOWN_FINDINGS.json")
    if not os.path.exists(p):
        return []
    with open(p) as f:
        return json.load(f)["findings"]


class Reporter:
    """collects violations of one property; maps them to known findings by signature"""

    def __init__(self, pid):
        self.pid = pid
        self.known = {k["signature"]: k for k in load_known() if k["property"] == pid}
        self.known_hit = {}
        self.new = []
        self.dir = os.path.join(VERIF, "replays", pid)
        self._n = 0

    def violation(self, signature, what, replay):
        """signature: canonical abstract identity of the failure; replay: JSON-serialisable case"""
        k = self.known.get(signature)
        if k is not None and k.get("status") == "open":
            if signature not in self.known_hit:
                self.known_hit[signature] = 0
                print(f"KNOWN-FINDING: property={self.pid} {k['what']} [signature {signature}]", flush=True)
            self.known_hit[signature] += 1
            return
        self._n += 1
        self._per_sig = getattr(self, "_per_sig", {})
        self._per_sig[signature] = self._per_sig.get(signature, 0) + 1
        # keep the output readable: at most 2 replay files per signature and 60 in total;
        # the count of violations stays exact
        if self._per_sig[signature] > 2 or sum(1 for x in self.new if x) >= 60:
            self.new.append(None)
            return
        os.makedirs(self.dir, exist_ok=True)
        path = os.path.join(self.dir, f"{int(time.time())}_{os.getpid()}_{self._n}.json")
        with open(path, "w") as f:
            json.dump({"property": self.pid, "signature": signature, "what": what, "case": replay}, f, indent=1)
        self.new.append(path)
        print(f"VIOLATION property={self.pid} replay={path}", flush=True)
        print(f"  signature={signature} {what}"[:600], flush=True)

    @property
    def count_new(self):
        return len(self.new)

    def exit_code(self):
        return 1 if self.new else 0


def write_evidence(pid, tier, level, coverage, assumptions, wall_s, violations):
    os.makedirs(os.path.join(VERIF, "evidence"), exist_ok=True)
    ev = {
        "property_id": pid,
        "tier": tier,
        "seed": seed(),
        "level": level,
        "coverage": coverage,
        "assumptions": assumptions,
        "wall_s": round(wall_s, 2),
        "violations": violations,
    }
    path = os.path.join(VERIF, "evidence", f"{pid}.json")
    tmp = path + ".tmp"
    with open(tmp, "w") as f:
        json.dump(ev, f, indent=1)
    os.replace(tmp, path)
    return path


def write_ndjson(path, objs):
    with open(path, "w") as f:
        for o in objs:
            f.write(json.dumps(o, separators=(",", ":")))
            f.write("\n")
