"""Reference graph vocabulary shared by the Graph checks (C08-C11):
  - RefSites: one row per place where the A2L grammar holds a reference to a named element
    (hand classification, DESIGN.md Appendix A); `classify_gate` refuses to continue if an
    ident-typed field of the frozen grammar is not classified
  - render(module graph) -> A2L text
  - extract(debug tree of a real Module) -> module graph
A module graph is {"elems": [{"kind", "name", "c", "refs": {site: [target names]}}]}.
"""
import json
import os

VERIF = os.path.dirname(os.path.dirname(os.path.abspath(__file__)))

OBJECT_KINDS = ["AXIS_PTS", "BLOB", "CHARACTERISTIC", "INSTANCE", "MEASUREMENT"]
CTAB_KINDS = ["COMPU_TAB", "COMPU_VTAB", "COMPU_VTAB_RANGE"]
TYPEDEF_KINDS = ["TYPEDEF_AXIS", "TYPEDEF_BLOB", "TYPEDEF_CHARACTERISTIC", "TYPEDEF_MEASUREMENT", "TYPEDEF_STRUCTURE"]
NS_OF = {}
for k in OBJECT_KINDS:
    NS_OF[k] = "OBJECT"
for k in CTAB_KINDS:
    NS_OF[k] = "CTAB"
for k in TYPEDEF_KINDS:
    NS_OF[k] = "TYPEDEF"
for k in ["COMPU_METHOD", "UNIT", "RECORD_LAYOUT", "FRAME", "TRANSFORMER", "FUNCTION", "GROUP", "MEMORY_SEGMENT", "USER_RIGHTS",
          "MOD_COMMON", "VARIANT_CODING", "VAR_CRITERION"]:
    NS_OF[k] = k
KINDS_OF_NS = {}
for k, n in NS_OF.items():
    KINDS_OF_NS.setdefault(n, []).append(k)

# kinds whose elements are united by name on merge (never renamed)
UNION_KINDS = ["FUNCTION", "GROUP"]
# kinds that exist at most once / are taken all-or-nothing
SINGLE_KINDS = ["MOD_COMMON", "VARIANT_CODING"]
HELPER_KINDS = ["GROUP", "FUNCTION", "COMPU_METHOD", "COMPU_TAB", "COMPU_VTAB", "COMPU_VTAB_RANGE", "UNIT", "RECORD_LAYOUT"]

NEUTRAL = {"COMPU_METHOD": "NO_COMPU_METHOD", "OBJECT_IQ": "NO_INPUT_QUANTITY", "TRANSFORMER": "NO_INVERSE_TRANSFORMER"}

# site id, owner kind, rust path from the owner element to the field, target namespace, neutral name,
# list?, covered by check() at the pinned commit, THIS.-convention allowed
SITES = [
    # id                                         owner                    path                                                  target          neutral                   list   K
    ("AXIS_PTS.input_quantity",                   "AXIS_PTS",              ["input_quantity"],                                   "OBJECT",       "NO_INPUT_QUANTITY",      False, True),
    ("AXIS_PTS.deposit_record",                   "AXIS_PTS",              ["deposit_record"],                                   "RECORD_LAYOUT", None,                    False, True),
    ("AXIS_PTS.conversion",                       "AXIS_PTS",              ["conversion"],                                       "COMPU_METHOD", "NO_COMPU_METHOD",        False, True),
    ("AXIS_PTS/FUNCTION_LIST.name_list",          "AXIS_PTS",              ["function_list", "name_list"],                       "FUNCTION",     None,                     True,  True),
    ("AXIS_PTS/REF_MEMORY_SEGMENT.name",          "AXIS_PTS",              ["ref_memory_segment", "name"],                       "MEMORY_SEGMENT", None,                   False, True),
    ("CHARACTERISTIC.deposit",                    "CHARACTERISTIC",        ["deposit"],                                          "RECORD_LAYOUT", None,                    False, True),
    ("CHARACTERISTIC.conversion",                 "CHARACTERISTIC",        ["conversion"],                                       "COMPU_METHOD", "NO_COMPU_METHOD",        False, True),
    ("CHARACTERISTIC/AXIS_DESCR.input_quantity",  "CHARACTERISTIC",        ["axis_descr", "input_quantity"],                     "OBJECT",       "NO_INPUT_QUANTITY",      False, True),
    ("CHARACTERISTIC/AXIS_DESCR.conversion",      "CHARACTERISTIC",        ["axis_descr", "conversion"],                         "COMPU_METHOD", "NO_COMPU_METHOD",        False, True),
    ("CHARACTERISTIC/AXIS_DESCR/AXIS_PTS_REF.axis_points", "CHARACTERISTIC", ["axis_descr", "axis_pts_ref", "axis_points"],      "OBJECT",       None,                     False, True),
    ("CHARACTERISTIC/AXIS_DESCR/CURVE_AXIS_REF.curve_axis", "CHARACTERISTIC", ["axis_descr", "curve_axis_ref", "curve_axis"],    "OBJECT",       None,                     False, True),
    ("CHARACTERISTIC/COMPARISON_QUANTITY.name",   "CHARACTERISTIC",        ["comparison_quantity", "name"],                      "OBJECT",       None,                     False, True),
    ("CHARACTERISTIC/DEPENDENT_CHARACTERISTIC.characteristic_list", "CHARACTERISTIC", ["dependent_characteristic", "characteristic_list"], "OBJECT", None,               True,  True),
    ("CHARACTERISTIC/VIRTUAL_CHARACTERISTIC.characteristic_list", "CHARACTERISTIC", ["virtual_characteristic", "characteristic_list"], "OBJECT", None,                   True,  True),
    ("CHARACTERISTIC/MAP_LIST.name_list",         "CHARACTERISTIC",        ["map_list", "name_list"],                            "OBJECT",       None,                     True,  True),
    ("CHARACTERISTIC/FUNCTION_LIST.name_list",    "CHARACTERISTIC",        ["function_list", "name_list"],                       "FUNCTION",     None,                     True,  True),
    ("CHARACTERISTIC/REF_MEMORY_SEGMENT.name",    "CHARACTERISTIC",        ["ref_memory_segment", "name"],                       "MEMORY_SEGMENT", None,                   False, True),
    ("TYPEDEF_CHARACTERISTIC.record_layout",      "TYPEDEF_CHARACTERISTIC", ["record_layout"],                                   "RECORD_LAYOUT", None,                    False, True),
    ("TYPEDEF_CHARACTERISTIC.conversion",         "TYPEDEF_CHARACTERISTIC", ["conversion"],                                      "COMPU_METHOD", "NO_COMPU_METHOD",        False, True),
    ("TYPEDEF_CHARACTERISTIC/AXIS_DESCR.input_quantity", "TYPEDEF_CHARACTERISTIC", ["axis_descr", "input_quantity"],            "OBJECT",       "NO_INPUT_QUANTITY",      False, True),
    ("TYPEDEF_CHARACTERISTIC/AXIS_DESCR.conversion", "TYPEDEF_CHARACTERISTIC", ["axis_descr", "conversion"],                    "COMPU_METHOD", "NO_COMPU_METHOD",        False, True),
    ("TYPEDEF_CHARACTERISTIC/AXIS_DESCR/AXIS_PTS_REF.axis_points", "TYPEDEF_CHARACTERISTIC", ["axis_descr", "axis_pts_ref", "axis_points"], "OBJECT", None,              False, True),
    ("TYPEDEF_CHARACTERISTIC/AXIS_DESCR/CURVE_AXIS_REF.curve_axis", "TYPEDEF_CHARACTERISTIC", ["axis_descr", "curve_axis_ref", "curve_axis"], "OBJECT", None,            False, True),
    ("MEASUREMENT.conversion",                    "MEASUREMENT",           ["conversion"],                                       "COMPU_METHOD", "NO_COMPU_METHOD",        False, True),
    ("MEASUREMENT/FUNCTION_LIST.name_list",       "MEASUREMENT",           ["function_list", "name_list"],                       "FUNCTION",     None,                     True,  True),
    ("MEASUREMENT/REF_MEMORY_SEGMENT.name",       "MEASUREMENT",           ["ref_memory_segment", "name"],                       "MEMORY_SEGMENT", None,                   False, True),
    ("MEASUREMENT/VIRTUAL.measuring_channel_list", "MEASUREMENT",          ["var_virtual", "measuring_channel_list"],            "OBJECT",       None,                     True,  False),
    ("TYPEDEF_MEASUREMENT.conversion",            "TYPEDEF_MEASUREMENT",   ["conversion"],                                       "COMPU_METHOD", "NO_COMPU_METHOD",        False, True),
    ("TYPEDEF_AXIS.input_quantity",               "TYPEDEF_AXIS",          ["input_quantity"],                                   "OBJECT",       "NO_INPUT_QUANTITY",      False, True),
    ("TYPEDEF_AXIS.record_layout",                "TYPEDEF_AXIS",          ["record_layout"],                                    "RECORD_LAYOUT", None,                    False, True),
    ("TYPEDEF_AXIS.conversion",                   "TYPEDEF_AXIS",          ["conversion"],                                       "COMPU_METHOD", "NO_COMPU_METHOD",        False, True),
    ("INSTANCE.type_ref",                         "INSTANCE",              ["type_ref"],                                         "TYPEDEF",      None,                     False, True),
    ("INSTANCE/OVERWRITE/CONVERSION.name",        "INSTANCE",              ["overwrite", "conversion", "name"],                  "COMPU_METHOD", "NO_COMPU_METHOD",        False, False),
    ("INSTANCE/OVERWRITE/INPUT_QUANTITY.name",    "INSTANCE",              ["overwrite", "input_quantity", "name"],              "OBJECT",       "NO_INPUT_QUANTITY",      False, False),
    ("TYPEDEF_STRUCTURE/STRUCTURE_COMPONENT.component_type", "TYPEDEF_STRUCTURE", ["structure_component", "component_type"],    "TYPEDEF",      None,                     False, True),
    ("COMPU_METHOD/COMPU_TAB_REF.conversion_table", "COMPU_METHOD",        ["compu_tab_ref", "conversion_table"],                "CTAB",         None,                     False, True),
    ("COMPU_METHOD/STATUS_STRING_REF.conversion_table", "COMPU_METHOD",    ["status_string_ref", "conversion_table"],            "CTAB",         None,                     False, True),
    ("COMPU_METHOD/REF_UNIT.unit",                "COMPU_METHOD",          ["ref_unit", "unit"],                                 "UNIT",         None,                     False, True),
    ("UNIT/REF_UNIT.unit",                        "UNIT",                  ["ref_unit", "unit"],                                 "UNIT",         None,                     False, False),
    ("FUNCTION/IN_MEASUREMENT.identifier_list",   "FUNCTION",              ["in_measurement", "identifier_list"],                "OBJECT",       None,                     True,  True),
    ("FUNCTION/LOC_MEASUREMENT.identifier_list",  "FUNCTION",              ["loc_measurement", "identifier_list"],               "OBJECT",       None,                     True,  True),
    ("FUNCTION/OUT_MEASUREMENT.identifier_list",  "FUNCTION",              ["out_measurement", "identifier_list"],               "OBJECT",       None,                     True,  True),
    ("FUNCTION/DEF_CHARACTERISTIC.identifier_list", "FUNCTION",            ["def_characteristic", "identifier_list"],            "OBJECT",       None,                     True,  True),
    ("FUNCTION/REF_CHARACTERISTIC.identifier_list", "FUNCTION",            ["ref_characteristic", "identifier_list"],            "OBJECT",       None,                     True,  True),
    ("FUNCTION/SUB_FUNCTION.identifier_list",     "FUNCTION",              ["sub_function", "identifier_list"],                  "FUNCTION",     None,                     True,  True),
    ("GROUP/REF_CHARACTERISTIC.identifier_list",  "GROUP",                 ["ref_characteristic", "identifier_list"],            "OBJECT",       None,                     True,  True),
    ("GROUP/REF_MEASUREMENT.identifier_list",     "GROUP",                 ["ref_measurement", "identifier_list"],               "OBJECT",       None,                     True,  True),
    ("GROUP/FUNCTION_LIST.name_list",             "GROUP",                 ["function_list", "name_list"],                       "FUNCTION",     None,                     True,  True),
    ("GROUP/SUB_GROUP.identifier_list",           "GROUP",                 ["sub_group", "identifier_list"],                     "GROUP",        None,                     True,  True),
    ("FRAME/FRAME_MEASUREMENT.identifier_list",   "FRAME",                 ["frame_measurement", "identifier_list"],             "OBJECT",       None,                     True,  False),
    ("TRANSFORMER.inverse_transformer",           "TRANSFORMER",           ["inverse_transformer"],                              "TRANSFORMER",  "NO_INVERSE_TRANSFORMER", False, True),
    ("TRANSFORMER/TRANSFORMER_IN_OBJECTS.identifier_list", "TRANSFORMER",  ["transformer_in_objects", "identifier_list"],        "OBJECT",       None,                     True,  True),
    ("TRANSFORMER/TRANSFORMER_OUT_OBJECTS.identifier_list", "TRANSFORMER", ["transformer_out_objects", "identifier_list"],       "OBJECT",       None,                     True,  True),
    ("USER_RIGHTS/REF_GROUP.identifier_list",     "USER_RIGHTS",           ["ref_group", "identifier_list"],                     "GROUP",        None,                     True,  False),
    ("MOD_COMMON/S_REC_LAYOUT.name",              "MOD_COMMON",            ["s_rec_layout", "name"],                             "RECORD_LAYOUT", None,                    False, False),
    ("VARIANT_CODING/VAR_CRITERION/VAR_MEASUREMENT.name", "VARIANT_CODING", ["var_criterion", "var_measurement", "name"],        "OBJECT",       None,                     False, False),
    ("VARIANT_CODING/VAR_CRITERION/VAR_SELECTION_CHARACTERISTIC.name", "VARIANT_CODING", ["var_criterion", "var_selection_characteristic", "name"], "OBJECT", None,      False, False),
    ("VARIANT_CODING/VAR_CHARACTERISTIC.name",    "VARIANT_CODING",        ["var_characteristic", "name"],                       "OBJECT",       None,                     False, False),
    ("VARIANT_CODING/VAR_CHARACTERISTIC.criterion_name_list", "VARIANT_CODING", ["var_characteristic", "criterion_name_list"],  "VAR_CRITERION", None,                    True,  False),
    ("VARIANT_CODING/VAR_FORBIDDEN_COMB.criterion_name", "VARIANT_CODING", ["var_forbidden_comb", "combination", "criterion_name"], "VAR_CRITERION", None,               True,  False),
]
SITE = {s[0]: dict(id=s[0], owner=s[1], path=s[2], target=s[3], neutral=s[4], is_list=s[5], checked=s[6]) for s in SITES}

# ident-typed fields that are not references: (element tag, field)
NOT_A_REF = {
    ("AR_PROTOTYPE_OF", "name"): "external AUTOSAR name",
    ("DISPLAY_IDENTIFIER", "display_name"): "free display name",
    ("MODULE", "name"): "definition", ("PROJECT", "name"): "definition", ("PROJECT_NO", "project_number"): "free identifier",
    ("OVERWRITE", "name"): "component name local to the referenced typedef",
    ("STRUCTURE_COMPONENT", "name"): "definition of a component name",
    ("USER_RIGHTS", "user_level_id"): "definition",
    ("VAR_CRITERION", "value_list"): "definition of criterion values",
    ("VAR_FORBIDDEN_COMB", "combination.criterion_value"): "value local to a criterion",
    ("VAR_CRITERION", "name"): "definition (namespace local to VARIANT_CODING)",
}
DEFINITIONS = set(OBJECT_KINDS + CTAB_KINDS + TYPEDEF_KINDS + ["COMPU_METHOD", "UNIT", "RECORD_LAYOUT", "FRAME", "TRANSFORMER",
                                                               "FUNCTION", "GROUP", "MEMORY_SEGMENT"])


def classify_gate():
    """every ident-typed field of the frozen grammar, in every parent path below MODULE, must be
    either a definition, listed as not-a-reference, or a row of SITES"""
    import gen_grammar
    g = gen_grammar.load()
    el = g["elements"]
    fields = {}
    for tag, f, is_list in gen_grammar.ident_fields(g):
        fields.setdefault(tag, []).append(f)
    covered = set()
    for s in SITES:
        segs = s[0].split("/")
        last_tag, field = segs[-1].split(".", 1)
        covered.add(("/".join(segs[:-1] + [last_tag]), field))
    problems = []

    def walk(tag, path, depth):
        if depth > 6:
            return
        for f in fields.get(tag, []):
            p = "/".join(path + [tag])
            if f == "name" and tag in DEFINITIONS and len(path) <= 1:
                continue
            if (tag, f) in NOT_A_REF:
                continue
            # site ids name the path below MODULE (MOD_PAR/MEMORY_SEGMENT is a definition)
            if (p, f) in covered or (p, f.split(".")[-1]) in covered:
                continue
            problems.append(f"{p}.{f}")
        for c in el[tag]["children"]:
            if c["tag"] in el and c["tag"] not in ("IF_DATA",):
                walk(c["tag"], path + [tag], depth + 1)

    for c in el["MODULE"]["children"]:
        if c["tag"] in el:
            walk(c["tag"], [], 0)
    return sorted(set(problems))


# --------------------------------------------------------------------------------------------
# rendering
# --------------------------------------------------------------------------------------------
def _lst(tag, names):
    return f" /begin {tag} " + " ".join(names) + f" /end {tag}" if names else ""


def _axis_descr(prefix, refs, force_attr=None):
    iq = refs.get(f"{prefix}/AXIS_DESCR.input_quantity")
    cv = refs.get(f"{prefix}/AXIS_DESCR.conversion")
    ap = refs.get(f"{prefix}/AXIS_DESCR/AXIS_PTS_REF.axis_points")
    ca = refs.get(f"{prefix}/AXIS_DESCR/CURVE_AXIS_REF.curve_axis")
    if not (iq or cv or ap or ca):
        return ""
    out = ""
    # one AXIS_DESCR per populated reference kind keeps every site independent
    n = max(len(x) if x else 0 for x in (iq, cv, ap, ca))
    for i in range(n):
        def g(x, d):
            return x[i] if x and i < len(x) else d
        a_ap, a_ca = g(ap, None), g(ca, None)
        attr = force_attr or ("COM_AXIS" if a_ap else "CURVE_AXIS" if a_ca else "STD_AXIS")
        out += f" /begin AXIS_DESCR {attr} {g(iq, 'NO_INPUT_QUANTITY')} {g(cv, 'NO_COMPU_METHOD')} 2 0 100"
        if a_ap:
            out += f" AXIS_PTS_REF {a_ap}"
        if a_ca:
            out += f" CURVE_AXIS_REF {a_ca}"
        out += " /end AXIS_DESCR"
    return out


def _axes_from_opts(o):
    out = ""
    for _ in range(int(o.get("nax", 0))):
        attr = o.get("attr", "STD_AXIS")
        out += f" /begin AXIS_DESCR {attr} NO_INPUT_QUANTITY NO_COMPU_METHOD 2 0 100"
        if attr in ("COM_AXIS", "RES_AXIS"):
            out += " AXIS_PTS_REF ax0"
        if attr == "CURVE_AXIS":
            out += " CURVE_AXIS_REF cv0"
        if attr == "FIX_AXIS":
            out += " FIX_AXIS_PAR 0 1 2"
        out += " /end AXIS_DESCR"
    return out


def render_elem(e):
    k, n, c = e["kind"], e["name"], e.get("c", 0)
    r = e.get("refs", {})
    li = f"\"c{c}\""
    o = e.get("opts") or {}
    if k in ("CHARACTERISTIC", "TYPEDEF_CHARACTERISTIC") and "ctype" in o:
        head = f"/begin {k} {n} {li} {o['ctype']} " + ("0x0 " if k == "CHARACTERISTIC" else "") + "rl0 0 NO_COMPU_METHOD 0 100"
        return head + _axes_from_opts(o) + f" /end {k}"
    if k in ("GROUP", "FUNCTION") and o.get("emptylists"):
        if k == "GROUP":
            return f"/begin GROUP {n} {li} /begin REF_CHARACTERISTIC /end REF_CHARACTERISTIC /begin REF_MEASUREMENT /end REF_MEASUREMENT /begin SUB_GROUP /end SUB_GROUP /begin FUNCTION_LIST /end FUNCTION_LIST /end GROUP"
        return (f"/begin FUNCTION {n} {li} /begin DEF_CHARACTERISTIC /end DEF_CHARACTERISTIC /begin IN_MEASUREMENT /end IN_MEASUREMENT "
                "/begin SUB_FUNCTION /end SUB_FUNCTION /end FUNCTION")

    def one(site, default):
        v = r.get(site)
        return v[0] if v else default

    def opt_kw(tag, site):
        v = r.get(site)
        return f" {tag} {v[0]}" if v else ""
    if k == "AXIS_PTS":
        return (f"/begin AXIS_PTS {n} {li} 0x0 {one('AXIS_PTS.input_quantity', 'NO_INPUT_QUANTITY')} {one('AXIS_PTS.deposit_record', 'rl0')} 0 "
                f"{one('AXIS_PTS.conversion', 'NO_COMPU_METHOD')} 2 0 100" + _lst("FUNCTION_LIST", r.get("AXIS_PTS/FUNCTION_LIST.name_list"))
                + opt_kw("REF_MEMORY_SEGMENT", "AXIS_PTS/REF_MEMORY_SEGMENT.name") + " /end AXIS_PTS")
    if k == "BLOB":
        return f"/begin BLOB {n} {li} 0x0 4 /end BLOB"
    if k == "CHARACTERISTIC":
        p = "CHARACTERISTIC"
        ad = _axis_descr(p, r, (e.get("opts") or {}).get("axattr"))
        ctype = "VALUE"
        if ad:
            ctype = {1: "CURVE", 2: "MAP", 3: "CUBOID", 4: "CUBE_4", 5: "CUBE_5"}.get(ad.count("/begin AXIS_DESCR"), "CURVE")
        return (f"/begin CHARACTERISTIC {n} {li} {ctype} 0x0 {one(p + '.deposit', 'rl0')} 0 {one(p + '.conversion', 'NO_COMPU_METHOD')} 0 100"
                + ad + opt_kw("COMPARISON_QUANTITY", p + "/COMPARISON_QUANTITY.name")
                + _lst("DEPENDENT_CHARACTERISTIC \"X1\"", r.get(p + "/DEPENDENT_CHARACTERISTIC.characteristic_list")).replace("/end DEPENDENT_CHARACTERISTIC \"X1\"", "/end DEPENDENT_CHARACTERISTIC")
                + _lst("VIRTUAL_CHARACTERISTIC \"X1\"", r.get(p + "/VIRTUAL_CHARACTERISTIC.characteristic_list")).replace("/end VIRTUAL_CHARACTERISTIC \"X1\"", "/end VIRTUAL_CHARACTERISTIC")
                + _lst("MAP_LIST", r.get(p + "/MAP_LIST.name_list")) + _lst("FUNCTION_LIST", r.get(p + "/FUNCTION_LIST.name_list"))
                + opt_kw("REF_MEMORY_SEGMENT", p + "/REF_MEMORY_SEGMENT.name") + " /end CHARACTERISTIC")
    if k == "TYPEDEF_CHARACTERISTIC":
        p = "TYPEDEF_CHARACTERISTIC"
        ad = _axis_descr(p, r, (e.get("opts") or {}).get("axattr"))
        ctype = "VALUE"
        if ad:
            ctype = {1: "CURVE", 2: "MAP", 3: "CUBOID", 4: "CUBE_4", 5: "CUBE_5"}.get(ad.count("/begin AXIS_DESCR"), "CURVE")
        return (f"/begin TYPEDEF_CHARACTERISTIC {n} {li} {ctype} {one(p + '.record_layout', 'rl0')} 0 {one(p + '.conversion', 'NO_COMPU_METHOD')} 0 100"
                + ad + " /end TYPEDEF_CHARACTERISTIC")
    if k == "MEASUREMENT":
        p = "MEASUREMENT"
        return (f"/begin MEASUREMENT {n} {li} UBYTE {one(p + '.conversion', 'NO_COMPU_METHOD')} 1 1 0 255"
                + _lst("FUNCTION_LIST", r.get(p + "/FUNCTION_LIST.name_list")) + opt_kw("REF_MEMORY_SEGMENT", p + "/REF_MEMORY_SEGMENT.name")
                + _lst("VIRTUAL", r.get(p + "/VIRTUAL.measuring_channel_list")) + " /end MEASUREMENT")
    if k == "TYPEDEF_MEASUREMENT":
        return f"/begin TYPEDEF_MEASUREMENT {n} {li} UBYTE {one('TYPEDEF_MEASUREMENT.conversion', 'NO_COMPU_METHOD')} 1 1 0 255 /end TYPEDEF_MEASUREMENT"
    if k == "TYPEDEF_AXIS":
        p = "TYPEDEF_AXIS"
        return (f"/begin TYPEDEF_AXIS {n} {li} {one(p + '.input_quantity', 'NO_INPUT_QUANTITY')} {one(p + '.record_layout', 'rl0')} 0 "
                f"{one(p + '.conversion', 'NO_COMPU_METHOD')} 2 0 100 /end TYPEDEF_AXIS")
    if k == "TYPEDEF_BLOB":
        return f"/begin TYPEDEF_BLOB {n} {li} 4 /end TYPEDEF_BLOB"
    if k == "TYPEDEF_STRUCTURE":
        comps = r.get("TYPEDEF_STRUCTURE/STRUCTURE_COMPONENT.component_type") or []
        cnames = o.get("compnames") or [f"comp{i}" for i in range(len(comps))]
        body = "".join(f" /begin STRUCTURE_COMPONENT {cnames[i]} {t} {i * 4} /end STRUCTURE_COMPONENT" for i, t in enumerate(comps))
        return f"/begin TYPEDEF_STRUCTURE {n} {li} 64{body} /end TYPEDEF_STRUCTURE"
    if k == "INSTANCE":
        ow_c = r.get("INSTANCE/OVERWRITE/CONVERSION.name")
        ow_i = r.get("INSTANCE/OVERWRITE/INPUT_QUANTITY.name")
        ow = ""
        if ow_c or ow_i:
            ow = " /begin OVERWRITE X 1" + (f" CONVERSION {ow_c[0]}" if ow_c else "") + (f" INPUT_QUANTITY {ow_i[0]}" if ow_i else "") + " /end OVERWRITE"
        return f"/begin INSTANCE {n} {li} {one('INSTANCE.type_ref', 'td0')} 0x0{ow} /end INSTANCE"
    if k == "COMPU_METHOD":
        p = "COMPU_METHOD"
        tab = r.get(p + "/COMPU_TAB_REF.conversion_table")
        ctype = "TAB_VERB" if tab else "IDENTICAL"
        return (f"/begin COMPU_METHOD {n} {li} {ctype} \"%4.2\" \"\"" + opt_kw("COMPU_TAB_REF", p + "/COMPU_TAB_REF.conversion_table")
                + opt_kw("REF_UNIT", p + "/REF_UNIT.unit") + opt_kw("STATUS_STRING_REF", p + "/STATUS_STRING_REF.conversion_table") + " /end COMPU_METHOD")
    if k == "COMPU_TAB":
        return f"/begin COMPU_TAB {n} {li} TAB_INTP 1 1 2 /end COMPU_TAB"
    if k == "COMPU_VTAB":
        return f"/begin COMPU_VTAB {n} {li} TAB_VERB 1 1 \"one\" /end COMPU_VTAB"
    if k == "COMPU_VTAB_RANGE":
        return f"/begin COMPU_VTAB_RANGE {n} {li} 1 1 2 \"one\" /end COMPU_VTAB_RANGE"
    if k == "UNIT":
        return f"/begin UNIT {n} {li} \"u\" DERIVED" + opt_kw("REF_UNIT", "UNIT/REF_UNIT.unit") + " /end UNIT"
    if k == "RECORD_LAYOUT":
        return f"/begin RECORD_LAYOUT {n} FNC_VALUES {c + 1} UBYTE ROW_DIR DIRECT /end RECORD_LAYOUT"
    if k == "FUNCTION":
        p = "FUNCTION"
        return (f"/begin FUNCTION {n} {li}" + _lst("DEF_CHARACTERISTIC", r.get(p + "/DEF_CHARACTERISTIC.identifier_list"))
                + _lst("IN_MEASUREMENT", r.get(p + "/IN_MEASUREMENT.identifier_list")) + _lst("LOC_MEASUREMENT", r.get(p + "/LOC_MEASUREMENT.identifier_list"))
                + _lst("OUT_MEASUREMENT", r.get(p + "/OUT_MEASUREMENT.identifier_list")) + _lst("REF_CHARACTERISTIC", r.get(p + "/REF_CHARACTERISTIC.identifier_list"))
                + _lst("SUB_FUNCTION", r.get(p + "/SUB_FUNCTION.identifier_list")) + " /end FUNCTION")
    if k == "GROUP":
        p = "GROUP"
        return (f"/begin GROUP {n} {li}" + _lst("FUNCTION_LIST", r.get(p + "/FUNCTION_LIST.name_list"))
                + _lst("REF_CHARACTERISTIC", r.get(p + "/REF_CHARACTERISTIC.identifier_list")) + _lst("REF_MEASUREMENT", r.get(p + "/REF_MEASUREMENT.identifier_list"))
                + _lst("SUB_GROUP", r.get(p + "/SUB_GROUP.identifier_list")) + " /end GROUP")
    if k == "FRAME":
        fm = r.get("FRAME/FRAME_MEASUREMENT.identifier_list")
        return f"/begin FRAME {n} {li} 1 2" + (" FRAME_MEASUREMENT " + " ".join(fm) if fm else "") + " /end FRAME"
    if k == "TRANSFORMER":
        p = "TRANSFORMER"
        return (f"/begin TRANSFORMER {n} \"v{c}\" \"a.dll\" \"b.dll\" 1 ON_CHANGE {one(p + '.inverse_transformer', 'NO_INVERSE_TRANSFORMER')}"
                + _lst("TRANSFORMER_IN_OBJECTS", r.get(p + "/TRANSFORMER_IN_OBJECTS.identifier_list"))
                + _lst("TRANSFORMER_OUT_OBJECTS", r.get(p + "/TRANSFORMER_OUT_OBJECTS.identifier_list")) + " /end TRANSFORMER")
    if k == "USER_RIGHTS":
        names = r.get("USER_RIGHTS/REF_GROUP.identifier_list") or []
        if o.get("split_ref_group"):      # REF_GROUP is a repeatable block: one block per name
            return f"/begin USER_RIGHTS {n}" + "".join(_lst("REF_GROUP", [x]) for x in names) + " /end USER_RIGHTS"
        return f"/begin USER_RIGHTS {n}" + _lst("REF_GROUP", names) + " /end USER_RIGHTS"
    if k == "MOD_COMMON":
        return f"/begin MOD_COMMON {li}" + opt_kw("S_REC_LAYOUT", "MOD_COMMON/S_REC_LAYOUT.name") + " /end MOD_COMMON"
    if k == "VARIANT_CODING":
        p = "VARIANT_CODING"
        vm = r.get(p + "/VAR_CRITERION/VAR_MEASUREMENT.name")
        vs = r.get(p + "/VAR_CRITERION/VAR_SELECTION_CHARACTERISTIC.name")
        vc = r.get(p + "/VAR_CHARACTERISTIC.name")
        vcl = r.get(p + "/VAR_CHARACTERISTIC.criterion_name_list")
        vf = r.get(p + "/VAR_FORBIDDEN_COMB.criterion_name")
        crit_names = e.get("criteria", ["crit1"])
        out = f"/begin VARIANT_CODING VAR_SEPARATOR \"c{c}\""
        for i, cn in enumerate(crit_names):
            out += f" /begin VAR_CRITERION {cn} \"\" v1 v2"
            if vm and i < len(vm):
                out += f" VAR_MEASUREMENT {vm[i]}"
            if vs and i < len(vs):
                out += f" VAR_SELECTION_CHARACTERISTIC {vs[i]}"
            out += " /end VAR_CRITERION"
        if vc or vcl:
            out += f" /begin VAR_CHARACTERISTIC {(vc or ['vchar0'])[0]} " + " ".join(vcl or []) + " /end VAR_CHARACTERISTIC"
        if vf:
            out += " /begin VAR_FORBIDDEN_COMB " + " ".join(f"{x} v1" for x in vf) + " /end VAR_FORBIDDEN_COMB"
        return out + " /end VARIANT_CODING"
    raise ValueError(f"render: unknown kind {k}")


def render(g, version=True):
    """A2L text of a module graph; MEMORY_SEGMENTs live inside MOD_PAR"""
    lines = []
    if version:
        lines.append("ASAP2_VERSION 1 71")
    lines.append("/begin PROJECT p \"\"")
    lines.append("  /begin MODULE m \"\"")
    segs = [e for e in g["elems"] if e["kind"] == "MEMORY_SEGMENT"]
    if segs or g.get("mod_par"):
        lines.append("    /begin MOD_PAR \"\"")
        for e in segs:
            lines.append(f"      /begin MEMORY_SEGMENT {e['name']} \"c{e.get('c', 0)}\" DATA FLASH INTERN 0x0 0x100 -1 -1 -1 -1 -1 /end MEMORY_SEGMENT")
        lines.append("    /end MOD_PAR")
    for e in g["elems"]:
        if e["kind"] != "MEMORY_SEGMENT":
            lines.append("    " + render_elem(e))
    lines.append("  /end MODULE")
    lines.append("/end PROJECT")
    return "\n".join(lines) + "\n"


# --------------------------------------------------------------------------------------------
# extraction from the Debug tree of a real Module
# --------------------------------------------------------------------------------------------
FIELD_OF_KIND = {k: k.lower() for k in OBJECT_KINDS + CTAB_KINDS + TYPEDEF_KINDS + ["COMPU_METHOD", "UNIT", "RECORD_LAYOUT", "FRAME", "TRANSFORMER",
                                                                                      "FUNCTION", "GROUP", "USER_RIGHTS"]}


def _s(v):
    return v["_s"] if isinstance(v, dict) and "_s" in v else None


def _walk(v, path):
    """all string leaves reached from v along the field path (lists are flattened)"""
    if v is None:
        return []
    if isinstance(v, list):
        out = []
        for x in v:
            out += _walk(x, path)
        return out
    if not path:
        s = _s(v)
        return [s] if s is not None else []
    if isinstance(v, dict):
        return _walk(v.get(path[0]), path[1:])
    return []


def _content(kind, e):
    if kind == "RECORD_LAYOUT":
        fv = e.get("fnc_values")
        return (fv["position"] - 1) if fv else 0
    if kind == "TRANSFORMER":
        s = _s(e.get("version")) or "v0"
        return int(s[1:]) if s[1:].isdigit() else s
    if kind == "VARIANT_CODING":
        s = _s((e.get("var_separator") or {}).get("separator")) or "c0"
        return int(s[1:]) if s[1:].isdigit() else s
    if kind == "MOD_COMMON":
        s = _s(e.get("comment")) or "c0"
        return int(s[1:]) if s[1:].isdigit() else s
    if kind == "USER_RIGHTS":
        return 0
    s = _s(e.get("long_identifier")) or "c0"
    return int(s[1:]) if s.startswith("c") and s[1:].isdigit() else s


def extract(module_tree):
    """module graph of the Debug tree of a Module (result of debug_tree::parse_debug)"""
    elems = []

    def add(kind, e):
        name = _s(e.get("name")) if kind not in ("USER_RIGHTS", "MOD_COMMON", "VARIANT_CODING") else (_s(e.get("user_level_id")) if kind == "USER_RIGHTS" else "-")
        refs = {}
        for s in SITES:
            if s[1] != kind:
                continue
            names = _walk(e, s[2])
            if names:
                refs[s[0]] = names
        el = {"kind": kind, "name": name, "c": _content(kind, e), "refs": refs}
        if kind == "VARIANT_CODING":
            el["criteria"] = [_s(c.get("name")) for c in e.get("var_criterion") or []]
        elems.append(el)

    for kind, field in FIELD_OF_KIND.items():
        for e in module_tree.get(field) or []:
            add(kind, e)
    mp = module_tree.get("mod_par")
    if mp:
        for e in mp.get("memory_segment") or []:
            add("MEMORY_SEGMENT", e)
    if module_tree.get("mod_common"):
        add("MOD_COMMON", module_tree["mod_common"])
    if module_tree.get("variant_coding"):
        add("VARIANT_CODING", module_tree["variant_coding"])
    return {"elems": elems}


def components(module_tree):
    """[[TYPEDEF_STRUCTURE name, component name, component type]]"""
    out = []
    for ts in module_tree.get("typedef_structure") or []:
        for sc in ts.get("structure_component") or []:
            out.append([_s(ts.get("name")), _s(sc.get("name")), _s(sc.get("component_type"))])
    return out


def module_of(a2l_tree, k=0):
    return a2l_tree["project"]["module"][k]


def render2(g0, g1, first="m", header_between=False):
    """one file with two MODULEs (m, m2); name spaces are per module, so both may use the same names"""
    def body(g):
        ls = render(g).split("\n")
        b = next(i for i, l in enumerate(ls) if l.startswith("  /begin MODULE"))
        e = next(i for i, l in enumerate(ls) if l.startswith("  /end MODULE"))
        return ls, b, e
    l0, b0, e0 = body(g0)
    l1, b1, e1 = body(g1)
    second = ['  /begin MODULE m2 ""'] + l1[b1 + 1:e1 + 1]
    l0[b0] = f'  /begin MODULE {first} ""'
    mid = ['  /begin HEADER "a header behind the first module"', '  /end HEADER'] if header_between else []
    return "\n".join(l0[:e0 + 1] + mid + second + l0[e0 + 1:])


def module_index(a2l_tree, name):
    return next(k for k, m in enumerate(a2l_tree["project"]["module"]) if _s(m.get("name")) == name)


def flat(g):
    """flat form used in TLA+ trace events: elems [[ns, kind, name, c]], refs [[site, okind, oname, tname]]"""
    el = [[NS_OF[e["kind"]], e["kind"], e["name"], e["c"]] for e in g["elems"]]
    rf = []
    for e in g["elems"]:
        for site, names in sorted(e.get("refs", {}).items()):
            for t in names:
                rf.append([site, e["kind"], e["name"], t])
    return {"elems": el, "refs": rf}


if __name__ == "__main__":
    import sys
    sys.path.insert(0, os.path.dirname(os.path.abspath(__file__)))
    p = classify_gate()
    print("unclassified ident fields:", p)
