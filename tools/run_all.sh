#!/bin/bash
# run every check of the manifest in one tier and print one summary line per check (used for full sweeps)
tier=${1:-quick}
cd "$(dirname "$0")/.."
for p in C01 C02 C03 C04 C05 C06 C07 C08 C09 C10 C11 C12 C13 C14 C15 C16 C17 C18 C19 C20; do
  s=$(date +%s); out=$(bin/check $p --tier $tier 2>&1); rc=$?; e=$(date +%s)
  echo "$p tier=$tier rc=$rc $((e-s))s violations=$(echo "$out" | grep -c '^VIOLATION') known=$(echo "$out" | grep -c '^KNOWN-FINDING') drift=$(echo "$out" | grep -c '^SPEC-DRIFT')"
  echo "$out" | grep -E -A1 "^VIOLATION|^TOOL-ERROR" | head -8 | cut -c1-500
done
echo ALLDONE
