"""A2ML definitions (abstract declaration lists), their text, conforming IF_DATA instances, single-token
deviations, and the normal forms in which the library's type trees / value trees are compared with
A2ml.tla (C18, C19).

Declaration lists have the shape documented in spec/A2ml.tla (Resolve)."""
import json
import math
import struct

import a2ldoc

INT = {"char": (8, True), "int": (16, True), "long": (32, True), "int64": (64, True),
       "uchar": (8, False), "uint": (16, False), "ulong": (32, False), "uint64": (64, False)}
SCALARS = list(INT) + ["float", "double"]
DBG_SCALAR = {"Char": "char", "Int": "int", "Long": "long", "Int64": "int64", "UChar": "uchar", "UInt": "uint",
              "ULong": "ulong", "UInt64": "uint64", "Float": "float", "Double": "double"}


# ------------------------------------------------------------------------------------------------
# definitions
# ------------------------------------------------------------------------------------------------
class DefGen:
    """random well-formed, LL(1)-unambiguous A2ML definitions"""

    def __init__(self, rng, max_depth=4):
        self.rng = rng
        self.max_depth = max_depth
        self.n = 0
        self.env = []          # top-level named types so far: (kind, name)

    def ident(self, p):
        self.n += 1
        return f"{p}{self.n}"

    def scalar(self):
        return {"k": self.rng.choice(SCALARS)}

    def enum_def(self, named):
        items = []
        for _ in range(self.rng.randint(1, 4)):
            has = self.rng.random() < 0.5
            items.append({"tag": self.ident("E_"), "has": has, "val": self.rng.choice([0, 1, 5, 255, 70000, 0x10]) if has else 0})
        return {"k": "enum", "name": self.ident("en") if named else "", "ref": False, "items": items}

    def typeexpr(self, depth, allow_ref=True):
        r = self.rng
        if depth <= 0 or r.random() < 0.35:
            return self.scalar()
        refs = [e for e in self.env]
        if allow_ref and refs and r.random() < 0.3:
            k, name = r.choice(refs)
            return {"k": k, "name": name, "ref": True}
        k = r.choice(["enum", "struct", "struct", "ts", "ts", "tu"])
        named = r.random() < 0.3
        if k == "enum":
            return self.enum_def(named)
        if k == "struct":
            return {"k": "struct", "name": self.ident("st") if named else "", "ref": False,
                    "ms": [self.member(depth - 1) for _ in range(r.randint(1, 4))]}
        return {"k": k, "name": self.ident(k) if named else "", "ref": False,
                "tags": [self.tagged(depth - 1, k == "ts") for _ in range(r.randint(1, 4))]}

    def member(self, depth):
        r = self.rng
        if r.random() < 0.2:
            return {"t": {"k": "char"}, "dims": [r.choice([1, 4, 8, 20, 256])]}          # a string
        t = self.typeexpr(depth)
        dims = []
        if r.random() < 0.2:
            dims = [r.randint(1, 3) for _ in range(r.choice([1, 1, 2]))]
        return {"t": t, "dims": dims}

    def tagged(self, depth, allow_repeat):
        r = self.rng
        hasdef = r.random() < 0.85
        return {"tag": self.ident("T_"), "block": r.random() < 0.4, "repeat": allow_repeat and r.random() < 0.35,
                "hasdef": hasdef, "seq": hasdef and r.random() < 0.25,
                "m": self.member(depth) if hasdef else {"t": {"k": "char"}, "dims": []}}

    def definition(self):
        """a declaration list with a block "IF_DATA"; retried until it is LL(1)-unambiguous"""
        for _ in range(200):
            self.env = []
            decls = []
            for _ in range(self.rng.randint(0, 3)):
                k = self.rng.choice(["enum", "struct", "ts", "tu"])
                t = None
                while t is None or t["k"] != k or t.get("ref"):
                    t = self.typeexpr(max(1, self.max_depth - 1))
                if not t["name"]:
                    t["name"] = self.ident(k)
                # the name spaces are separate: now and then a name that another kind already uses
                other = [n for kk, n in self.env if kk != k and (k, n) not in self.env]
                if other and self.rng.random() < 0.35:
                    t["name"] = self.rng.choice(other)
                decls.append({"d": "type", "t": t})
                self.env.append((k, t["name"]))
            if self.rng.random() < 0.15:
                decls.append({"d": "type", "t": self.scalar()})                    # allowed, without effect
            if self.rng.random() < 0.2:
                decls.append({"d": "block", "tag": "OTHER_BLOCK", "seq": False, "m": self.member(1)})
            # by convention the content of IF_DATA is a taggedunion; any member is allowed
            if self.rng.random() < 0.6:
                top = {"t": {"k": "tu", "name": "", "ref": False,
                             "tags": [self.tagged(self.max_depth - 1, False) for _ in range(self.rng.randint(1, 3))]}, "dims": []}
            else:
                top = self.member(self.max_depth)
            decls.append({"d": "block", "tag": "IF_DATA", "seq": self.rng.random() < 0.15, "m": top})
            if self.rng.random() < 0.15:
                decls.append({"d": "type", "t": self.enum_def(True)})
            ok, t = resolve(decls)
            if ok and unambiguous(t):
                return decls
        raise RuntimeError("no unambiguous definition found")


def render_type(t):
    if t["k"] in SCALARS:
        return t["k"]
    kw = {"enum": "enum", "struct": "struct", "ts": "taggedstruct", "tu": "taggedunion"}[t["k"]]
    head = kw + (" " + t["name"] if t["name"] else "")
    if t["ref"]:
        return head
    if t["k"] == "enum":
        return head + " { " + ", ".join(f'"{i["tag"]}"' + (f' = {i["val"]}' if i["has"] else "") for i in t["items"]) + " }"
    if t["k"] == "struct":
        return head + " { " + " ".join(render_member(m) + ";" for m in t["ms"]) + " }"
    return head + " { " + " ".join(render_tagged(g) + ";" for g in t["tags"]) + " }"


def render_member(m):
    return render_type(m["t"]) + "".join(f"[{n}]" for n in m["dims"])


def render_tagged(g):
    body = f'"{g["tag"]}"'
    if g["hasdef"]:
        body += " (" + render_member(g["m"]) + ")*" if g["seq"] else " " + render_member(g["m"])
    if g["block"]:
        body = "block " + body
    if g["repeat"]:
        body = "(" + body + ")*"
    return body


def render(decls, indent="      "):
    out = []
    for d in decls:
        if d["d"] == "type":
            out.append(render_type(d["t"]) + ";")
        else:
            out.append(f'block "{d["tag"]}" ' + ("(" + render_member(d["m"]) + ")*" if d["seq"] else render_member(d["m"])) + ";")
    return "\n" + "".join(indent + l + "\n" for l in out) + indent[:-2]


# the generator's own reading of a declaration list (needed to build instances); the judge is Resolve in A2ml.tla
def resolve(decls):
    env, ifd = {}, None

    def rtype(e):
        if e["k"] in SCALARS:
            return {"k": e["k"]}
        if e["ref"]:
            return env[(e["k"], e["name"])]
        if e["k"] == "enum":
            return {"k": "enum", "items": e["items"]}
        if e["k"] == "struct":
            return {"k": "struct", "ms": [rmember(m) for m in e["ms"]]}
        tags = []
        for g in e["tags"]:
            tags = [x for x in tags if x["tag"] != g["tag"]]
            tags.append({"tag": g["tag"], "t": rtagged(g) if g["hasdef"] else {"k": "none"}, "block": g["block"], "repeat": g["repeat"]})
        return {"k": e["k"], "tags": tags}

    def rmember(m):
        t = rtype(m["t"])
        for n in m["dims"]:
            t = {"k": "array", "t": t, "n": n}
        return t

    def rtagged(d):
        t = rmember(d["m"])
        return {"k": "seq", "t": t} if d["seq"] else t
    try:
        for d in decls:
            if d["d"] == "block":
                t = rtagged(d)
                if d["tag"] == "IF_DATA":
                    ifd = t
            else:
                t = rtype(d["t"])
                if d["t"]["k"] not in SCALARS and d["t"]["name"]:
                    env[(d["t"]["k"], d["t"]["name"])] = t
    except KeyError:
        return False, None
    return ifd is not None, ifd


def is_string(t):
    return t["k"] == "array" and t["t"]["k"] == "char"


def first(t):
    """(set of token classes a value of t can start with, nullable)"""
    k = t["k"]
    if k == "none":
        return set(), True
    if k in SCALARS:
        return {"num"}, False
    if is_string(t):
        return {"str"}, False
    if k == "array":
        return first(t["t"])
    if k == "enum":
        return {("id", i["tag"]) for i in t["items"]}, False
    if k == "seq":
        return first(t["t"])[0], True
    if k in ("ts", "tu"):
        return {("begin" if g["block"] else "id", g["tag"]) for g in t["tags"]}, True
    out = set()
    for m in t["ms"]:
        f, n = first(m)
        out |= f
        if not n:
            return out, False
    return out, True


class Ambiguous(Exception):
    pass


def _walk(t, follow):
    k = t["k"]
    if k == "array" and not is_string(t):
        f, n = first(t["t"])
        _walk(t["t"], follow | f)
    elif k == "struct":
        for i, m in enumerate(t["ms"]):
            fol = set()
            rest_nullable = True
            for m2 in t["ms"][i + 1:]:
                f, n = first(m2)
                fol |= f
                if not n:
                    rest_nullable = False
                    break
            _walk(m, fol | (follow if rest_nullable else set()))
    elif k == "seq":
        f, n = first(t["t"])
        if n or f & follow:
            raise Ambiguous()
        _walk(t["t"], f | follow)
    elif k in ("ts", "tu"):
        f, _ = first(t)
        if f & follow:
            raise Ambiguous()
        for g in t["tags"]:
            _walk(g["t"], {"end"} if g["block"] else ((f | follow) if k == "ts" else follow))


def unambiguous(t):
    try:
        _walk(t, {"end"})
        return True
    except Ambiguous:
        return False


# ------------------------------------------------------------------------------------------------
# normal forms of what the library reports
# ------------------------------------------------------------------------------------------------
def norm_type(v):
    if v is None:
        return {"k": "none"}
    if isinstance(v, str):
        return {"k": DBG_SCALAR[v]}
    tn, a = v["_t"], v["_"]
    if tn == "Array":
        return {"k": "array", "t": norm_type(a[0]), "n": a[1]}
    if tn == "Sequence":
        return {"k": "seq", "t": norm_type(a[0])}
    if tn == "Struct":
        return {"k": "struct", "ms": [norm_type(x) for x in a[0]]}
    if tn == "Enum":
        return {"k": "enum", "items": [{"tag": kv[0]["_s"], "has": kv[1] is not None, "val": kv[1] if kv[1] is not None else 0} for kv in a[0]["_map"]]}
    if tn in ("TaggedStruct", "TaggedUnion"):
        return {"k": "ts" if tn == "TaggedStruct" else "tu",
                "tags": [{"tag": kv[1]["tag"]["_s"], "t": norm_type(kv[1]["item"]), "block": kv[1]["is_block"], "repeat": kv[1]["repeat"]} for kv in a[0]["_map"]]}
    raise ValueError(f"unknown type node {tn}")


def norm_value(v):
    """GenericIfData (Debug tree) -> the value shape of A2ml.tla with the stored values at the leaves"""
    if v is None:
        return {"k": "none"}
    tn = v["_t"]
    if tn == "Block":
        return {"k": "block", "items": [norm_value(x) for x in v["items"]]}
    a = v["_"]
    if tn == "Struct":
        return {"k": "struct", "items": [norm_value(x) for x in a[2]]}
    if tn in ("Array", "Sequence"):
        return {"k": "array" if tn == "Array" else "seq", "items": [norm_value(x) for x in a[0]]}
    if tn in ("TaggedStruct", "TaggedUnion"):
        items = [it for kv in a[0]["_map"] for it in kv[1]]
        items.sort(key=lambda it: it["uid"])
        return {"k": "ts" if tn == "TaggedStruct" else "tu",
                "items": [{"k": "item", "tag": it["tag"]["_s"], "block": it["is_block"], "v": norm_value(it["data"])} for it in items]}
    if tn == "EnumItem":
        return {"k": "enum", "v": a[1]["_s"]}
    if tn == "String":
        return {"k": "str", "v": a[1]["_s"]}
    if tn in ("Float", "Double"):
        return {"k": "num", "ty": DBG_SCALAR[tn], "val": a[1]}
    return {"k": "num", "ty": DBG_SCALAR[tn], "val": a[1][0], "hex": a[1][1]}


def _f32(x):
    return struct.unpack("f", struct.pack("f", x))[0]


def _dbg_float(v):
    if isinstance(v, dict) and "_n" in v:
        return float(v["_n"])
    return float(v)


def value_diff(spec, obs, path="$", described=True):
    """first difference between the value tree of the specification (token texts at the leaves) and the
    normalised value tree of the library, or None"""
    if spec["k"] != obs["k"]:
        return f"{path}: kind {spec['k']} vs {obs['k']}"
    k = spec["k"]
    if k in ("block", "struct", "array", "seq", "ts", "tu"):
        if len(spec["items"]) != len(obs["items"]):
            return f"{path}: {len(spec['items'])} items vs {len(obs['items'])}"
        for i, (a, b) in enumerate(zip(spec["items"], obs["items"])):
            d = value_diff(a, b, f"{path}.{k}[{i}]", described)
            if d:
                return d
        return None
    if k == "item":
        if spec["tag"] != obs["tag"] or spec["block"] != obs["block"]:
            return f"{path}: item {spec['tag']}/{spec['block']} vs {obs['tag']}/{obs['block']}"
        return value_diff(spec["v"], obs["v"], f"{path}.{spec['tag']}", described)
    if k == "enum":
        return None if spec["v"] == obs["v"] else f"{path}: enum item {spec['v']} vs {obs['v']}"
    if k == "str":
        want = a2ldoc.unescape(spec["v"]) if spec["v"].startswith('"') else spec["v"]
        return None if want == obs["v"] else f"{path}: string {want!r} vs {obs['v']!r}"
    if k == "num":
        if spec["ty"] != obs["ty"]:
            if described:
                return f"{path}: number stored as {obs['ty']}, the definition says {spec['ty']}"
            # content that no definition describes: the kind in which a number is kept is the library's choice
            # (the model's cascade long / int64 / uint64 / double is a prediction, not a demand); the value is not
            spec = dict(spec, ty=obs["ty"])
            if spec["ty"] not in INT and spec["ty"] not in ("float", "double"):
                return f"{path}: number stored as {obs['ty']}"
        txt = spec["v"]["txt"]
        if spec["ty"] in ("float", "double"):
            want = float(int(txt, 16)) if txt[:2] in ("0x", "0X") else float(txt)
            got = _dbg_float(obs["val"])
            if spec["ty"] == "float":
                want, got = _f32(want), _f32(got)
            return None if want == got else f"{path}: {txt} stored as {got}"
        iv = a2ldoc.int_value(txt)
        if iv is None:
            return f"{path}: {txt} is not an integer literal"
        v, is_hex = iv
        bits, signed = INT[spec["ty"]]
        if is_hex and signed and v >= 2 ** (bits - 1):
            v -= 2 ** bits                         # a hex literal is a bit pattern
        if v != obs["val"] or is_hex != obs["hex"]:
            return f"{path}: {txt} stored as {obs['val']} (hex={obs['hex']})"
        return None
    return None


# ------------------------------------------------------------------------------------------------
# instances
# ------------------------------------------------------------------------------------------------
STR_PIECES = ["a", "B", "7", " ", "_", "-", "\\\\", '\\"', '""', "\\n", "\\t", "ä", "€", "/*", "//", "/begin", "'"]


def _string(rng, n):
    if n <= 32 and rng.random() < 0.25:
        # exactly as long as the array allows
        k = rng.choice([0, 1, 2])
        body = "\u00e4" * min(k, n // 2)
        return '"' + body + "x" * (n - 2 * min(k, n // 2)) + '"'
    out, size = [], 0
    for _ in range(rng.randint(0, 6)):
        p = rng.choice(STR_PIECES)
        sz = len(a2ldoc.unescape('"' + p + '"').encode())
        if size + sz > n:
            break
        out.append(p)
        size += sz
    return '"' + "".join(out) + '"'


def _int(rng, ty):
    bits, signed = INT[ty]
    lo, hi = (-(2 ** (bits - 1)), 2 ** (bits - 1) - 1) if signed else (0, 2 ** bits - 1)
    v = rng.choice([lo, hi, 0, 1, rng.randint(lo, hi), rng.randint(max(lo, -100), min(hi, 100))])
    mode = rng.random()
    if mode < 0.3:
        return hex(v if v >= 0 else v + 2 ** bits)                 # bit pattern
    if mode < 0.35 and v >= 0:
        return "0X" + format(v, "X")
    return str(v)


def _float(rng, ty):
    digits = 6 if ty == "float" else 15
    mant = rng.randint(0, 10 ** rng.randint(1, digits) - 1)
    exp = rng.randint(-6, 6) if ty == "float" else rng.randint(-30, 30)
    style = rng.random()
    sign = "-" if rng.random() < 0.3 else ""
    if style < 0.4:
        return f"{sign}{mant}.{rng.randint(0, 9)}" if len(str(mant)) < digits else f"{sign}{mant}.0"
    if style < 0.7:
        return f"{sign}{mant}e{exp}" if len(str(mant)) <= digits else f"{sign}{mant}"
    if style < 0.85:
        return f"{sign}{mant}"
    return f"{sign}0.{mant}" if mant else "0.0"


def instance(t, rng, flip=None):
    """tokens of a value that conforms to t.  flip = [countdown, done]: the countdown-th tagged item is written in
    the other form (a keyword item as /begin../end block or a block as keyword) - a deviation of the block form"""
    k = t["k"]
    if k == "none":
        return []
    if k in INT:
        return [_int(rng, k)]
    if k in ("float", "double"):
        return [_float(rng, k)]
    if is_string(t):
        return [_string(rng, t["n"])]
    if k == "array":
        return [x for _ in range(t["n"]) for x in instance(t["t"], rng, flip)]
    if k == "enum":
        return [rng.choice(t["items"])["tag"]]
    if k == "struct":
        return [x for m in t["ms"] for x in instance(m, rng, flip)]
    if k == "seq":
        return [x for _ in range(rng.choice([0, 1, 2, 3])) for x in instance(t["t"], rng, flip)]
    tags = list(t["tags"])
    rng.shuffle(tags)
    chosen = []
    if k == "tu":
        chosen = tags[:1] if rng.random() < 0.9 else []
    else:
        for g in tags:
            if rng.random() < 0.7:
                chosen += [g] * (rng.choice([1, 2, 3]) if g["repeat"] else 1)
        rng.shuffle(chosen)
    out = []
    for g in chosen:
        block = g["block"]
        if flip is not None and not flip[1]:
            flip[0] -= 1
            if flip[0] <= 0:
                block, flip[1] = not block, True
        body = instance(g["t"], rng, flip)
        out += (["/begin", g["tag"]] + body + ["/end", g["tag"]]) if block else ([g["tag"]] + body)
    return out


def instance_wrong_blockform(t, rng):
    """(tokens, flipped): an instance in which one tagged item has the wrong block form"""
    flip = [rng.randint(1, 3), False]
    toks = instance(t, rng, flip)
    return toks, flip[1]


def deviate(tokens, rng):
    """one single-token deviation of a conforming token list; returns (tokens, what, balanced)"""
    toks = list(tokens)
    kinds = ["delete", "retype", "extra", "dup", "range", "enumx", "endtag", "unbalanced", "longstr", "comment"]
    what = rng.choice(kinds)
    n = len(toks)
    if what == "extra" or n == 0:
        toks.append(rng.choice(["99", '"extra"', "EXTRA_IDENT"]))
        return toks, "extra", True
    i = rng.randrange(n)
    cls = lambda x: "str" if x.startswith('"') else "kw" if x in ("/begin", "/end") else "num" if (x[0].isdigit() or x[0] in "-+.") else "id"
    # a change to /begin, /end or the tag behind them breaks the block structure (a document of its own)
    structural = cls(toks[i]) == "kw" or (i > 0 and toks[i - 1] in ("/begin", "/end"))
    if what == "delete":
        del toks[i]
        return toks, "delete", not structural
    if what == "retype":
        c = cls(toks[i])
        if c == "kw":
            return deviate(tokens, rng)
        toks[i] = {"str": "12", "num": '"x"', "id": "34"}[c]
        return toks, "retype", not structural
    if what == "dup":
        if cls(toks[i]) == "kw":
            return deviate(tokens, rng)
        toks.insert(i, toks[i])
        return toks, "dup", not structural
    if what == "comment":
        # comments are layout: the content still conforms (also behind the last item)
        i = rng.randrange(n + 1)
        if i > 0 and toks[i - 1] in ("/begin", "/end"):
            return deviate(tokens, rng)
        toks.insert(i, rng.choice(["/* c */", "// c\n"]))
        return toks, "comment", True
    if what == "range":
        idx = [j for j, x in enumerate(toks) if cls(x) == "num"]
        if not idx:
            return deviate(tokens, rng)
        v = rng.choice(["99999999999999999999999", "-1", "256", "65536", "4294967296", "0x1FFFFFFFFFFFFFFFF", "1e400", "1.5", "-129"])
        toks[rng.choice(idx)] = v
        # a literal that is no number of any kind is a hard error wherever it stands (a document of its own)
        return toks, "range", v not in ("0x1FFFFFFFFFFFFFFFF", "1e400")
    if what == "enumx":
        idx = [j for j, x in enumerate(toks) if cls(x) == "id" and (j == 0 or toks[j - 1] not in ("/begin", "/end"))]
        if not idx:
            return deviate(tokens, rng)
        toks[rng.choice(idx)] = "NOT_DEFINED_HERE"
        return toks, "enumx", True
    if what == "longstr":
        idx = [j for j, x in enumerate(toks) if cls(x) == "str"]
        if not idx:
            return deviate(tokens, rng)
        toks[rng.choice(idx)] = '"' + "x" * 300 + '"'
        return toks, "longstr", True
    idx = [j for j, x in enumerate(toks) if x == "/end"]
    if not idx:
        return deviate(tokens, rng)
    j = rng.choice(idx)
    if what == "endtag":
        toks[j + 1] = "WRONG_END"
        return toks, "endtag", False
    del toks[j:j + 2]
    return toks, "unbalanced", False


# ------------------------------------------------------------------------------------------------
# documents: IF_DATA blocks at the eleven sites of the grammar
# ------------------------------------------------------------------------------------------------
SITES = ["MODULE", "MEMORY_LAYOUT", "MEMORY_SEGMENT", "AXIS_PTS", "BLOB", "CHARACTERISTIC", "FRAME", "FUNCTION", "GROUP",
         "INSTANCE", "MEASUREMENT"]
_HEAD = {
    "MEMORY_LAYOUT": "/begin MEMORY_LAYOUT PRG_DATA 0 16 0 0 0 0 0",
    "MEMORY_SEGMENT": '/begin MEMORY_SEGMENT seg "" DATA FLASH INTERN 0 16 0 0 0 0 0',
    "AXIS_PTS": '/begin AXIS_PTS ax "" 0 NO_INPUT_QUANTITY rl 0 NO_COMPU_METHOD 2 0 1',
    "BLOB": '/begin BLOB bl "" 0 16',
    "CHARACTERISTIC": '/begin CHARACTERISTIC ch "" VALUE 0 rl 0 NO_COMPU_METHOD 0 1',
    "FRAME": '/begin FRAME fr "" 1 2',
    "FUNCTION": '/begin FUNCTION fn ""',
    "GROUP": '/begin GROUP gr ""',
    "INSTANCE": '/begin INSTANCE ins "" td 0',
    "MEASUREMENT": '/begin MEASUREMENT me "" UBYTE NO_COMPU_METHOD 0 0 0 255',
}


PER_LINE = [6]


def block_text(tokens, indent):
    """an IF_DATA block, a few tokens per line (PER_LINE[0]; the tag stays on the line of its /begin and /end)"""
    lines, cur = [], []
    for i, t in enumerate(tokens):
        cur.append(t)
        if t in ("/begin", "/end"):
            continue
        if len(cur) >= PER_LINE[0] or t.endswith("\n"):
            lines.append(" ".join(cur).rstrip("\n"))
            cur = []
    if cur:
        lines.append(" ".join(cur))
    body = "".join(f"{indent}  {l}\n" for l in lines)
    return f"{indent}/begin IF_DATA\n{body}{indent}/end IF_DATA\n"


def document(a2ml_text, blocks):
    """blocks: list of (site, tokens).  Returns the document text."""
    by = {s: [] for s in SITES}
    for s, toks in blocks:
        by[s].append(toks)
    out = ["ASAP2_VERSION 1 71\n", '/begin PROJECT p ""\n', '  /begin MODULE m ""\n']
    if a2ml_text is not None:
        out.append(f"    /begin A2ML{a2ml_text}/end A2ML\n")
    for toks in by["MODULE"]:
        out.append(block_text(toks, "    "))
    out.append('    /begin MOD_PAR ""\n')
    for s in ("MEMORY_LAYOUT", "MEMORY_SEGMENT"):
        out.append(f"      {_HEAD[s]}\n")
        for toks in by[s]:
            out.append(block_text(toks, "        "))
        out.append(f"      /end {s}\n")
    out.append("    /end MOD_PAR\n")
    for s in SITES[3:]:
        out.append(f"    {_HEAD[s]}\n")
        for toks in by[s]:
            out.append(block_text(toks, "      "))
        out.append(f"    /end {s}\n")
    out += ["  /end MODULE\n", "/end PROJECT\n"]
    return "".join(out)


def ifdata_slices(tokens):
    """token index ranges [start, end) of the content of every IF_DATA block (behind the tag, up to and
    including `/end IF_DATA`); an unbalanced block extends to the end of the document"""
    out = []
    i, n = 0, len(tokens)
    while i + 1 < n:
        if tokens[i][0] == "begin" and tokens[i + 1][0] == "id" and tokens[i + 1][1] == "IF_DATA":
            j, bal = i + 2, 0
            end = None
            while j < n:
                if tokens[j][0] == "begin":
                    bal += 1
                elif tokens[j][0] == "end":
                    if bal == 0:
                        end = j + 2
                        break
                    bal -= 1
                j += 1
            if end is None or end > n or tokens[end - 1][1] != "IF_DATA":
                out.append((i + 2, n))
                return out
            out.append((i + 2, end))
            i = end
        else:
            i += 1
    return out


def tok_attrs(t, v):
    a = dict(a2ldoc.tok_attrs(t, v))
    if t == "id":
        a["len"] = len(v.encode())
    elif t == "str":
        a["len"] = len(a2ldoc.unescape(v).encode())
    elif t == "num":
        fl = a["float"]
        if fl and v[:2] not in ("0x", "0X"):
            try:
                x = struct.unpack("f", struct.pack("f", float(v)))[0]
                fl = math.isfinite(x)
            except (OverflowError, ValueError):
                fl = False
        a["f32"] = fl
    return a


def tokens_event(tokens):
    return [{"t": t, "v": v, "line": l, "a": tok_attrs(t, v)} for t, v, l in tokens]
