"""Edits through the public API (harness edit-op) judged by Trace_Edit (Edit.tla):
C05 edit locality - only the lines of the edited object change; C01 - a model built or edited through
the API is written and loaded again to an equal model and the text is a fixpoint."""
import json
import os
import random
import re

import vlib

TEMPLATES = {
    "AXIS_PTS": '/begin AXIS_PTS {n} "" 0x0 NO_INPUT_QUANTITY rl 0 NO_COMPU_METHOD 2 0 100 /end AXIS_PTS',
    "BLOB": '/begin BLOB {n} "" 0x0 4 /end BLOB',
    "CHARACTERISTIC": '/begin CHARACTERISTIC {n} "" VALUE 0x0 rl 0 NO_COMPU_METHOD 0 100 /end CHARACTERISTIC',
    "COMPU_METHOD": '/begin COMPU_METHOD {n} "" IDENTICAL "%4.2" "" /end COMPU_METHOD',
    "COMPU_TAB": '/begin COMPU_TAB {n} "" TAB_INTP 0 /end COMPU_TAB',
    "COMPU_VTAB": '/begin COMPU_VTAB {n} "" TAB_VERB 0 /end COMPU_VTAB',
    "COMPU_VTAB_RANGE": '/begin COMPU_VTAB_RANGE {n} "" 0 /end COMPU_VTAB_RANGE',
    "FRAME": '/begin FRAME {n} "" 1 2 /end FRAME',
    "FUNCTION": '/begin FUNCTION {n} "" /end FUNCTION',
    "GROUP": '/begin GROUP {n} "" /end GROUP',
    "INSTANCE": '/begin INSTANCE {n} "" td 0x0 /end INSTANCE',
    "MEASUREMENT": '/begin MEASUREMENT {n} "" UBYTE NO_COMPU_METHOD 1 1 0 255 /end MEASUREMENT',
    "RECORD_LAYOUT": '/begin RECORD_LAYOUT {n} /end RECORD_LAYOUT',
    "TRANSFORMER": '/begin TRANSFORMER {n} "1" "a" "b" 1 ON_CHANGE NO_INVERSE_TRANSFORMER /end TRANSFORMER',
    "TYPEDEF_AXIS": '/begin TYPEDEF_AXIS {n} "" NO_INPUT_QUANTITY rl 0 NO_COMPU_METHOD 2 0 100 /end TYPEDEF_AXIS',
    "TYPEDEF_BLOB": '/begin TYPEDEF_BLOB {n} "" 4 /end TYPEDEF_BLOB',
    "TYPEDEF_CHARACTERISTIC": '/begin TYPEDEF_CHARACTERISTIC {n} "" VALUE rl 0 NO_COMPU_METHOD 0 100 /end TYPEDEF_CHARACTERISTIC',
    "TYPEDEF_MEASUREMENT": '/begin TYPEDEF_MEASUREMENT {n} "" UBYTE NO_COMPU_METHOD 1 1 0 255 /end TYPEDEF_MEASUREMENT',
    "TYPEDEF_STRUCTURE": '/begin TYPEDEF_STRUCTURE {n} "" 4 /end TYPEDEF_STRUCTURE',
    "UNIT": '/begin UNIT {n} "" "u" DERIVED /end UNIT',
}
KINDS = sorted(TEMPLATES)
NO_LONGID = {"RECORD_LAYOUT", "TRANSFORMER"}


def element_lines(kind, name, style, rng):
    """the text lines of one element under a layout style"""
    t = TEMPLATES[kind].format(n=name)
    toks = re.findall(r'"[^"]*"|\S+', t)
    body = toks[2:-2]
    if style == "oneline":
        return [t]
    if style == "endline":
        return [" ".join(toks[:-2]), " ".join(toks[-2:])]
    # "spread": parameters over several lines
    cut = max(1, len(body) // 2)
    return [" ".join(toks[:2] + body[:cut]), "  " + " ".join(body[cut:]) if body[cut:] else "  ", " ".join(toks[-2:])] if body[cut:] else \
        [" ".join(toks[:2] + body[:cut]), " ".join(toks[-2:])]


def base_document(rng, nmeas, per_kind, style, blank, comments):
    """(text, elements [(kind, name)] in file order)"""
    elems = []
    for k in KINDS:
        for i in range(per_kind):
            elems.append((k, f"{k.lower()}_{i}"))
    for i in range(nmeas):
        elems.append(("MEASUREMENT", f"meas_{i:02d}"))
    rng.shuffle(elems)
    lines = ["ASAP2_VERSION 1 71", '/begin PROJECT p ""', '  /begin MODULE m ""']
    for j, (k, n) in enumerate(elems):
        if blank and rng.random() < 0.4:
            lines.append("")
        if comments and rng.random() < 0.2:
            lines.append(f"    /* about {n} */")
        for l in element_lines(k, n, style if style != "mixed" else rng.choice(["oneline", "endline", "spread"]), rng):
            lines.append("    " + l)
    lines += ["  /end MODULE", "/end PROJECT"]
    return "\n".join(lines) + "\n", elems


def object_range(text_lines, kind, name):
    """<<first, last>> (1-based) of the lines of `/begin KIND name ... /end KIND` together with the blank lines in
    front of it (they are the object's own start offset); (1, 0) if the object is not in the text"""
    start = None
    for i, l in enumerate(text_lines):
        t = l.split()
        if start is None and len(t) >= 2 and t[0] == "/begin" and t[1] == kind:
            # the name is the next token (objects created through the API have it on a line of its own)
            nxt = t[2] if len(t) >= 3 else next((x.split()[0] for x in text_lines[i + 1:] if x.split()), None)
            if nxt == name:
                start = i
        if start is not None and len(t) >= 2 and t[-2] == "/end" and t[-1] == kind:
            first = start
            while first > 0 and text_lines[first - 1].strip() == "":
                first -= 1
            return [first + 1, i + 1]
    return [1, 0]


def build_cases(tier, rng):
    cases, meta = [], []
    styles = ["oneline", "endline", "spread", "mixed"]
    nbase = 4 if tier == "quick" else 24
    for b in range(nbase):
        style = styles[b % 4]
        text, elems = base_document(rng, nmeas=rng.choice([0, 6, 30]), per_kind=rng.choice([1, 2]), style=style,
                                    blank=b % 2 == 1, comments=b % 3 == 2)
        edits = []
        for k in KINDS:
            mine = [n for kk, n in elems if kk == k]
            edits.append({"op": "push", "kind": k, "name": f"new_{k.lower()}"})
            edits.append({"op": "remove", "kind": k, "name": rng.choice(mine)})
            edits.append({"op": "remove_ordered", "kind": k, "name": rng.choice(mine)})
            if k not in NO_LONGID:
                edits.append({"op": "set_longid", "kind": k, "name": rng.choice(mine), "value": "edited through the API"})
        groups = [n for kk, n in elems if kk == "GROUP"]
        meas = [n for kk, n in elems if kk == "MEASUREMENT"]
        if groups and meas:
            for _ in range(2):
                edits.append({"op": "append_member", "kind": "GROUP", "name": rng.choice(groups), "value": rng.choice(meas)})
        for k in ("MEASUREMENT", "CHARACTERISTIC"):
            mine = [n for kk, n in elems if kk == k]
            edits.append({"op": "set_bitmask", "kind": k, "name": rng.choice(mine), "value": 255})
            for op in ("set_ecu_address", "add_annotation", "set_format"):
                edits.append({"op": op, "kind": k, "name": rng.choice(mine)})
        cases.append({"id": len(cases), "text": text, "cumulative": False, "edits": edits})
        meta.append({"style": style, "cumulative": False})
        # a growing history on the same model: several new objects of the same kinds, removals in between
        hist = []
        kinds = [rng.choice(KINDS) for _ in range(3)] + ["CHARACTERISTIC", "MEASUREMENT"]
        for i in range(24 if tier == "quick" else 60):
            k = rng.choice(kinds)
            hist.append({"op": "push", "kind": k, "name": f"hist_{i:02d}_{k.lower()}"})
            if i % 7 == 6:
                k2 = rng.choice(KINDS)
                mine = [n for kk, n in elems if kk == k2]
                if mine:
                    victim = mine[0]
                    elems.remove((k2, victim))
                    hist.append({"op": "remove_ordered", "kind": k2, "name": victim})
        cases.append({"id": len(cases), "text": text, "cumulative": True, "edits": hist})
        meta.append({"style": style, "cumulative": True})
    return cases, meta


def run(pid, tier, rep, binp):
    """returns (events judged, rejected, per-op counts, TlcResult)"""
    rng = random.Random(vlib.seed() * 5 + 55)
    cases, meta = build_cases(tier, rng)
    inp = os.path.join(vlib.scratch(), f"edit_{pid}.ndjson")
    outp = os.path.join(vlib.scratch(), f"edit_{pid}.out")
    vlib.write_ndjson(inp, cases)
    rc, _, err = vlib.run_harness(binp, ["edit-op", "--cases", inp, "--out", outp], timeout=3000)
    if rc != 0:
        vlib.tool_error(f"edit-op failed rc={rc}: {err[-500:]}")
    res = [json.loads(l) for l in open(outp) if l.strip()]
    events, emeta, ops = [], [], {}
    ids = {}
    for case, m, r in zip(cases, meta, res):
        if "results" not in r:
            vlib.tool_error(f"base document does not load: {r.get('error') or r.get('panic')}")
        if r.get("diags"):
            vlib.tool_error("base document loads with diagnostics")
        for e in r["results"]:
            ed = e["edit"]
            replay = {"kind": "edit", "text": case["text"], "cumulative": case["cumulative"], "edits": case["edits"] if case["cumulative"] else [ed], "edit": ed}
            if "panic" in e:
                rep.violation(f"edit:panic:{ed['op']}", f"{ed['op']} {ed['kind']} {ed['name']} panicked: {e['panic']}", replay)
                continue
            if "error" in e:
                vlib.tool_error(f"edit could not be applied: {e['error']}")
            before = e["before"].split("\n")
            after = e["after"].split("\n")
            own0 = object_range(before, ed["kind"], ed["name"])
            own1 = object_range(after, ed["kind"], ed["name"])
            code = lambda l: ids.setdefault(l, len(ids) + 1)
            new_last = True
            if ed["op"] == "push":
                # behind every object that was loaded from the file (new objects stand together at the end of the module)
                # (objects created through the API can have their name on the line behind /begin KIND)
                tail = " ".join(after[own1[1]:]).split()
                names = [tail[i + 2] for i in range(len(tail) - 2) if tail[i] == "/begin" and tail[i + 1] in TEMPLATES]
                new_last = all(n.startswith(("new_", "hist_")) for n in names)
            events.append({"op": ed["op"], "before": [code(l) for l in before], "after": [code(l) for l in after], "own0": own0, "own1": own1,
                           "reloadEq": bool(e.get("reload") == "ok" and e.get("reload_eq")) or ed["op"] == "remove",
                           "textFix": bool(e.get("reload") == "ok" and e.get("text_fix")), "newLast": new_last})
            emeta.append((ed, m, replay, e))
            ops[ed["op"]] = ops.get(ed["op"], 0) + 1
    p = os.path.join(vlib.scratch(), f"edit_events_{pid}.ndjson")
    vlib.write_ndjson(p, events)
    tr = vlib.tlc("Trace_Edit", cfg=f"Trace_Edit_{pid}", workers=1, dfs=True, coverage=False, env={"TRACE": p}, timeout=1800, heap="6g", expect_violation=True)
    if not tr.ok:
        vlib.tool_error(f"Trace_Edit did not consume all events: {tr.errors[:3]}")
    rejected, cur = {}, []
    for line in tr.raw_lines("<<"):
        mm = re.match(r'<<"FAILED", "([^"]+)">>', line)
        if mm:
            cur.append(mm.group(1))
            continue
        mm = re.match(r'<<"REJECT", (\d+)>>', line)
        if mm:
            rejected[int(mm.group(1)) - 1] = cur or ["?"]
            cur = []
    for k, names in sorted(rejected.items()):
        ed, m, replay, e = emeta[k]
        detail = ""
        if "EditLocal" in names:
            b, a = e["before"].split("\n"), e["after"].split("\n")
            o0, o1 = events[k]["own0"], events[k]["own1"]
            rb = b[:o0[0] - 1] + b[o0[1]:]
            ra = a[:o1[0] - 1] + a[o1[1]:]
            d = next((i for i, (x, y) in enumerate(zip(rb, ra)) if x != y), min(len(rb), len(ra)))
            detail = f"; first foreign line that changed: {rb[d][:80] if d < len(rb) else '<end>'!r} -> {ra[d][:80] if d < len(ra) else '<end>'!r}"
        rep.violation(f"edit:{'+'.join(names)}:{ed['op']}:{ed['kind'] if 'EditLocal' in names else 'any'}",
                      f"{ed['op']} {ed['kind']} {ed['name']} ({'history' if m['cumulative'] else 'single edit'}, layout {m['style']}): {names}{detail}; reload {e.get('reload')} {e.get('reload_error', '')}", replay)
    return events, rejected, ops, tr


def selftest(pid):
    ev = {"op": "set", "before": [1, 2, 3, 4], "after": [1, 9, 3, 5], "own0": [2, 2], "own1": [2, 2], "reloadEq": False, "textFix": True, "newLast": True}
    p = os.path.join(vlib.scratch(), f"edit_selftest_{pid}.ndjson")
    vlib.write_ndjson(p, [ev])
    tr = vlib.tlc("Trace_Edit", cfg=f"Trace_Edit_{pid}", workers=1, dfs=True, coverage=False, env={"TRACE": p}, timeout=600, expect_violation=True)
    return any('"REJECT"' in l for l in tr.raw_lines("<<"))


def replay_case(pid, case, rep, binp):
    inp = os.path.join(vlib.scratch(), "edit_replay.ndjson")
    outp = os.path.join(vlib.scratch(), "edit_replay.out")
    vlib.write_ndjson(inp, [{"id": 0, "text": case["text"], "cumulative": case["cumulative"], "edits": case["edits"]}])
    vlib.run_harness(binp, ["edit-op", "--cases", inp, "--out", outp])
    r = json.loads(open(outp).readline())
    for e in r.get("results", []):
        ed = e["edit"]
        if "panic" in e:
            rep.violation("edit:panic", e["panic"], case)
            continue
        before, after = e["before"].split("\n"), e["after"].split("\n")
        o0, o1 = object_range(before, ed["kind"], ed["name"]), object_range(after, ed["kind"], ed["name"])
        rb = before[:o0[0] - 1] + before[o0[1]:]
        ra = after[:o1[0] - 1] + after[o1[1]:]
        print(ed, "locality", rb == ra, "reload", e.get("reload"), e.get("reload_eq"), "text_fix", e.get("text_fix"))
        if pid == "C05" and rb != ra:
            rep.violation("edit:EditLocal", "foreign lines changed", case)
        if pid == "C01" and ed["op"] != "remove" and not (e.get("reload") == "ok" and e.get("reload_eq") and e.get("text_fix")):
            rep.violation("edit:ReloadEqual", "the edited model does not survive write and load", case)
