#!/usr/bin/env python3
"""Generate the fixed set of a2ml_specification! invocations compiled into the harness (C19):
/verif/harness/src/typed_specs.rs and /verif/grammar/typed_specs.json (the declaration lists the
invocations were rendered from).  Two hand-written specifications that use every A2ML construct plus
seeded definitions of the C18 generator.  `--check` verifies that the committed files are current."""
import json
import os
import random
import sys

sys.path.insert(0, os.path.dirname(os.path.abspath(__file__)))
import a2mlgen as ag  # noqa: E402

VERIF = os.path.dirname(os.path.dirname(os.path.abspath(__file__)))
RS = os.path.join(VERIF, "harness", "src", "typed_specs.rs")
JS = os.path.join(VERIF, "grammar", "typed_specs.json")
N_RANDOM = 6


def S(k):
    return {"k": k}


def M(t, *dims):
    return {"t": t, "dims": list(dims)}


def TG(tag, m=None, block=False, repeat=False, seq=False):
    return {"tag": tag, "block": block, "repeat": repeat, "hasdef": m is not None, "seq": seq,
            "m": m if m is not None else M(S("char"))}


def ST(name, *ms, ref=False):
    return {"k": "struct", "name": name, "ref": ref, "ms": list(ms)} if not ref else {"k": "struct", "name": name, "ref": True}


def EN(name, *items, ref=False):
    if ref:
        return {"k": "enum", "name": name, "ref": True}
    return {"k": "enum", "name": name, "ref": False, "items": [{"tag": t, "has": v is not None, "val": v or 0} for t, v in items]}


def TS(name, *tags, kind="ts", ref=False):
    if ref:
        return {"k": kind, "name": name, "ref": True}
    return {"k": kind, "name": name, "ref": False, "tags": list(tags)}


def hand_written():
    # every scalar type, strings, arrays (also of structs, two dimensions), enums with and without values,
    # named types referenced later, sequences, blocks, repeated tags, tags without content, nesting
    full = [
        {"d": "type", "t": EN("Mode", ("MODE_A", 1), ("MODE_B", None), ("MODE_C", 0x10))},
        {"d": "type", "t": ST("Pair", M(S("uint")), M(S("char"), 16))},
        # two named enums of the same shape, used by equally tagged items in two places (the generated types must stay apart)
        {"d": "type", "t": EN("ModeA", ("A_ONE", 1), ("A_TWO", 2))},
        {"d": "type", "t": EN("ModeB", ("B_ONE", 1), ("B_TWO", 2))},
        {"d": "type", "t": TS("Options", TG("OPT_A", M(S("int"))), TG("OPT_B", M(ST("Pair", ref=True)), repeat=True),
                              TG("OPT_C", M(S("uchar")), block=True, seq=True), TG("OPT_NONE"))},
        {"d": "block", "tag": "IF_DATA", "seq": False, "m": M(TS("", kind="tu", *[
            TG("SCALARS", M(ST("", M(S("char")), M(S("int")), M(S("long")), M(S("int64")), M(S("uchar")), M(S("uint")), M(S("ulong")),
                               M(S("uint64")), M(S("float")), M(S("double"))))),
            TG("STRINGS", M(ST("", M(S("char"), 8), M(S("char"), 256)))),
            TG("ARRAYS", M(ST("", M(S("uint"), 3), M(S("double"), 2), M(S("long"), 2, 3), M(S("float"), 1)))),
            TG("ENUMS", M(ST("", M(EN("Mode", ref=True)), M(EN("", ("X_ONE", None), ("X_TWO", 2)))))),
            TG("NESTED", M(ST("", M(ST("Pair", ref=True)), M(TS("Options", ref=True)))), block=True),
            TG("LIST", M(ST("ListItem", M(S("ulong")), M(S("char"), 20))), block=True, seq=True),
            TG("UNION", M(TS("", TG("U_A", M(S("uint"))), TG("U_B", M(S("char"), 10)), TG("U_BLK", M(S("float")), block=True), kind="tu"))),
            TG("NUMBERS", M(S("int64")), seq=True),
            TG("EMPTY"),
            TG("CHAN_A", M(TS("", TG("MODE", M(EN("ModeA", ref=True)))))),
            TG("CHAN_B", M(TS("", TG("MODE", M(EN("ModeB", ref=True)))))),
        ]))},
    ]
    small = [
        {"d": "block", "tag": "IF_DATA", "seq": False, "m": M(ST("", M(S("uint")), M(S("char"), 32), M(TS("",
            TG("SEGMENT", M(ST("", M(S("ulong")), M(S("ulong")), M(TS("", TG("CHECKSUM", M(EN("", ("CRC16", None), ("CRC32", None)))), TG("PAGE", M(S("uchar")), repeat=True))))), block=True, repeat=True),
            TG("VERSION", M(S("uint"), 2)),
        ))))},
    ]
    # doc comments on every kind of item (they go into the generated code and, as // comments, into the text constant) and
    # three different tagged items of the same tag (the derived type names Cfg, Cfg2, Cfg3 must not collide)
    documented_text = """
        enum Level {
            "LOW" = 1, /// the low level
            "MID", /// between
            "HIGH" = 3 /// the high level
        };
        block "IF_DATA" taggedunion {
            "CFG" struct {
                uint; /// a number
                enum Level; /// a level
                char[8]; /// a name
            }; /// first
            block "LIST" (struct Entry {
                ulong; /// address
                enum Level;
            })*; /// a list
            block "BLK" taggedstruct {
                "CFG" struct { float; double; }; /// same tag, other content
                ("REP" uchar)*; /// repeated
            }; /// a block
            "THIRD" taggedstruct {
                "CFG" struct { char[4]; int64; }; /// and a third CFG
            };
            "CHANNEL_A" struct { uint; taggedstruct { "MODE" enum ModeA { "SLOW", "FAST" } mode; }; };
            "CHANNEL_B" struct { uint; taggedstruct { "MODE" enum ModeB { "COLD", "WARM", "HOT" } mode; }; };
        };
"""
    level = EN("Level", ("LOW", 1), ("MID", None), ("HIGH", 3))
    documented = [
        {"d": "type", "t": level},
        {"d": "block", "tag": "IF_DATA", "seq": False, "m": M(TS("", kind="tu", *[
            TG("CFG", M(ST("", M(S("uint")), M(EN("Level", ref=True)), M(S("char"), 8)))),
            TG("LIST", M(ST("Entry", M(S("ulong")), M(EN("Level", ref=True)))), block=True, seq=True),
            TG("BLK", M(TS("", TG("CFG", M(ST("", M(S("float")), M(S("double"))))), TG("REP", M(S("uchar")), repeat=True))), block=True),
            TG("THIRD", M(TS("", TG("CFG", M(ST("", M(S("char"), 4), M(S("int64")))))))),
            # equally tagged and equally named members that refer to different named enums (the generated types stay apart)
            TG("CHANNEL_A", M(ST("", M(S("uint")), M(TS("", TG("MODE", M(EN("ModeA", ("SLOW", None), ("FAST", None))))))))),
            TG("CHANNEL_B", M(ST("", M(S("uint")), M(TS("", TG("MODE", M(EN("ModeB", ("COLD", None), ("WARM", None), ("HOT", None))))))))),
        ]))},
    ]
    return [("Full", full, None), ("Small", small, None), ("Documented", documented, documented_text)]


def macro_supported(decls):
    """restrictions of the macro that are reported at compile time (documented panics of the macro, or
    generated code that does not compile): arrays of anything but numbers and characters, an anonymous
    struct as the item of a sequence"""
    ok = [True]

    def visit_member(m, in_seq=False):
        t = m["t"]
        if m["dims"] and t["k"] not in ag.SCALARS:
            ok[0] = False
        if in_seq and t["k"] == "struct" and not t.get("ref") and not t["name"]:
            ok[0] = False
        if in_seq and t["k"] in ("ts", "tu"):
            ok[0] = False
        visit_type(t)

    def visit_type(t):
        if t["k"] in ag.SCALARS or t.get("ref"):
            return
        if t["k"] == "struct":
            for m in t["ms"]:
                visit_member(m)
        elif t["k"] in ("ts", "tu"):
            for g in t["tags"]:
                if g["hasdef"]:
                    visit_member(g["m"], g["seq"])
    for d in decls:
        if d["d"] == "type":
            visit_type(d["t"])
        else:
            visit_member(d["m"], d["seq"])
    return ok[0]


def build():
    specs = hand_written()
    nhand = len(specs)
    rng = random.Random(1919)
    gen = ag.DefGen(rng)
    while len(specs) < nhand + N_RANDOM:
        gen.max_depth = rng.choice([2, 3, 3, 4])
        decls = gen.definition()
        if not macro_supported(decls):
            continue
        specs.append((f"Gen{len(specs) - nhand + 1}", decls, None))
    for name, decls, _ in specs:
        ok, t = ag.resolve(decls)
        if not ok or not ag.unambiguous(t):
            raise SystemExit(f"specification {name} is not well-formed / unambiguous")
    rs = ["// @generated by tools/gen_typed.py - do not edit", "#![allow(dead_code, unused_imports, unused_variables, non_camel_case_types, non_snake_case, clippy::all)]", ""]
    for name, decls, text in specs:
        mod = name.lower()
        rs.append(f"pub mod {mod} {{")
        rs.append("    use a2lfile::a2ml_specification;")
        rs.append("    a2ml_specification! {")
        rs.append(f"        <{name}>")
        rs.append(text if text is not None else ag.render(decls, indent="        ").rstrip(" "))
        rs.append("    }")
        rs.append(f"    pub type Top = {name};")
        rs.append(f"    pub const TEXT: &str = {name.upper()}_TEXT;")
        rs.append("}")
        rs.append("")
    rs.append("#[macro_export]")
    rs.append("macro_rules! for_each_typed_spec {")
    rs.append("    ($mac:ident) => {")
    rs.append("        $mac! { " + ", ".join(n.lower() for n, _, _ in specs) + " }")
    rs.append("    };")
    rs.append("}")
    rs.append("")
    return "\n".join(rs), json.dumps({n.lower(): d for n, d, _ in specs}, indent=1, sort_keys=True) + "\n"


def main():
    rs, js = build()
    if "--check" in sys.argv:
        if open(RS).read() != rs or open(JS).read() != js:
            print("typed_specs.rs / typed_specs.json are not current: run tools/gen_typed.py")
            sys.exit(1)
        print("typed specs are current")
        return
    with open(RS, "w") as f:
        f.write(rs)
    with open(JS, "w") as f:
        f.write(js)
    print(f"wrote {RS} and {JS}")


if __name__ == "__main__":
    main()
