"""Concretise the case descriptors of MC_ParserCases.tla into documents and judge loads with
Parser.tla (Trace_Parser): shared by C04, C06, C07, C03 and C20."""
import json
import os
import re

import a2ldoc
import docgen
import vlib

EL = a2ldoc.EL


def concretise(c):
    """descriptor -> document text (None if the descriptor cannot be realised)"""
    k = c["k"]
    if k == "file":
        base = docgen.document("MODULE", 171)
        w = c["what"]
        if w == "no_version":
            base = [l for l in base if "ASAP2_VERSION" not in l]
        elif w == "bad_version":
            base = [["ASAP2_VERSION", "1", "99"] if "ASAP2_VERSION" in l else l for l in base]
        elif w == "version_garbled":
            base = [["ASAP2_VERSION", "1"] if "ASAP2_VERSION" in l else l for l in base]
        elif w == "trailing":
            base = base + [["trailing_identifier", "5"]]
        elif w == "empty_project_missing":
            base = [["ASAP2_VERSION", "1", "71"]]
        elif w == "two_projects":
            proj = [l for l in base if "ASAP2_VERSION" not in l]
            base = base + proj
        elif w.startswith("a2ml_"):
            # a MODULE with an A2ML block whose text is no usable definition (or whose /end names another block)
            text = {"a2ml_syntax": '\n      block "IF_DATA" struct { int }\n', "a2ml_no_ifdata_block": '\n      struct s { int; };\n',
                    "a2ml_undeclared_type": '\n      block "IF_DATA" struct nosuchtype;\n', "a2ml_end_tag": '\n      block "IF_DATA" struct { int; };\n'}[w]
            lines = docgen.document("A2ML", 171)
            base = []
            for l in lines:
                if "A2ML" in l and "/begin" in l:
                    i = l.index("A2ML")
                    l = l[:i + 1] + [text] + l[i + 2:]
                    if w == "a2ml_end_tag":
                        l = l[:-1] + ["A2ML_X"]
                base.append(l)
        return docgen.text_of(base)
    if k == "multi":
        return multi_document(c["faults"])
    if k == "value":
        return value_document(c)
    if k == "skip":
        return skip_documents(c)[1]
    e = c["e"]
    el = EL[e]
    ppath = docgen.PATHS[e][:-1]
    ver = c.get("ver") or docgen.best_version(e)

    def at_target(tag, path):
        return tag == e and path == ppath

    if k == "pos":
        return docgen.text_of(docgen.document(e, ver))

    if k in ("delparam", "retype", "enum_unknown", "enum_item"):
        i = c["i"] - 1

        def hook(tag, path, part, default):
            if at_target(tag, path) and part == ("param", i):
                if k == "delparam":
                    return []
                if k == "retype":
                    return [docgen.other_class(el["params"][i]["type"])] * max(1, len(default))
                if k == "enum_unknown":
                    return ["NOT_AN_ENUM_ITEM"]
                return [c["item"]]
            return default
        return docgen.text_of(docgen.document(e, ver, hook))

    if k in ("seqlen", "seqbad", "seqhalf"):
        i = c["i"] - 1
        p = el["params"][i]

        def hook(tag, path, part, default):
            if at_target(tag, path) and part == ("param", i):
                w = len(p["seq"])
                if k == "seqlen":
                    ctr = docgen.Ctr()
                    ctr.n = 500
                    out = []
                    for _ in range(c["n"]):
                        out += [docgen.sample(q["type"], ctr, ver) for q in p["seq"]]
                    return out
                if k == "seqhalf":
                    return list(default[:w]) + list(default[w:2 * w - 1])
                # one complete item, then an item whose last field has the wrong class / is missing
                bad = list(default[:w]) + list(default[w:2 * w - 1]) + ([docgen.other_class(p["seq"][-1]["type"])] if w > 1 else [docgen.other_class(p["seq"][0]["type"])])
                return bad
            return default
        return docgen.text_of(docgen.document(e, ver, hook))

    if k in ("kid_absent", "kid_twice", "kid_wrongform", "kid_version"):
        ctag = c["c"]

        def hook(tag, path, part, default):
            if at_target(tag, path):
                if part == ("kidcount", ctag):
                    return {"kid_absent": 0, "kid_twice": 2, "kid_wrongform": 1, "kid_version": 1}[k]
                if part == ("kid", ctag) and k == "kid_wrongform":
                    lines = [list(l) for l in default]
                    if EL[ctag]["form"] == "block":
                        # drop /begin and /end
                        lines[0] = [t for t in lines[0] if t != "/begin"]
                        lines = lines[:-1] if lines[-1][:1] == ["/end"] else lines
                        if ctag in ("IF_DATA", "A2ML"):
                            lines = [[t for t in lines[0] if t != "/begin"][:-2]]
                    else:
                        lines[0] = ["/begin"] + lines[0]
                        lines.append(["/end", ctag])
                    return lines
            return default
        return docgen.text_of(docgen.document(e, ver, hook))

    if k in ("end_tag", "no_end", "extra_token", "unknown_kid"):
        def hook(tag, path, part, default):
            if at_target(tag, path) and part == ("body", None):
                if k == "extra_token":
                    return default + [["  ", "4711"]]
                if k == "unknown_kid":
                    if c["form"] == "block":
                        return default + [["  ", "/begin", "UNKNOWN_BLOCK_X", "1", '"two"', "three", "/end", "UNKNOWN_BLOCK_X"]]
                    return default + [["  ", "UNKNOWN_KEYWORD_X", "1", '"two"']]
            return default
        lines = docgen.document(e, ver, hook)
        if k in ("end_tag", "no_end"):
            # the /end line of the target is the first "/end <e>" line after its /begin
            depth = None
            for idx, l in enumerate(lines):
                toks = [t for t in l if t != "  "]
                if toks[:2] == ["/begin", e] and depth is None:
                    depth = len(l) - len(toks)
                elif depth is not None and toks == ["/end", e] and len(l) - len(toks) == depth:
                    if k == "end_tag":
                        lines[idx] = l[:-1] + ["WRONG_END_TAG"]
                    else:
                        lines[idx] = l[:-2]
                    break
        return docgen.text_of(lines)
    raise ValueError(f"unknown case kind {k}")


VALUE_HOSTS = {"int": ("ECU_ADDRESS_EXTENSION", 0), "uint": ("ALIGNMENT_BYTE", 0), "long": ("ECU_CALIBRATION_OFFSET", 0),
               "ulong": ("ADDR_EPK", 0), "uint64": ("BIT_MASK", 0), "float": ("AXIS_PTS", 5), "string": ("ANNOTATION_LABEL", 0),
               "ident": ("AR_PROTOTYPE_OF", 0)}


def literal(ptype, cls):
    """concrete text of a value class"""
    if ptype in a2ldoc.INT_BITS:
        bits, signed = a2ldoc.INT_BITS[ptype]
        lo, hi = (-(2 ** (bits - 1)), 2 ** (bits - 1) - 1) if signed else (0, 2 ** bits - 1)
        return {"min-1": str(lo - 1), "min": str(lo), "-1": "-1", "0": "0", "max": str(hi), "max+1": str(hi + 1), "hex0": "0x0",
                "hexmax": hex(2 ** bits - 1), "hexmax+1": hex(2 ** bits), "hexu64max": "0xFFFFFFFFFFFFFFFF", "hexover": "0x10000000000000000",
                "HEXPREFIX": "0X1f", "plus": "+5"}[cls]
    if ptype == "float":
        return {"0": "0", "-0.0": "-0.0", "0.1": "0.1", "1e10": "1e10", "1e-4": "1e-4", "123456000000": "123456000000", "5e-324": "5e-324",
                "1e999": "1e999", "-1e999": "-1e999", "hex": "0x10", "dot1": ".5", "1dot": "1.", "exp+": "1.5E+3", "16777217": "16777217",
                "0.30000000000000004": "0.30000000000000004",
                # doubles that are exactly representable as f32 but need 17 digits as f64 (values computed in f32 by other tools)
                "f32exact": "0.10000000149011612", "f32exact2": "1.100000023841858", "f32exact_neg": "-2.5999999046325684"}[cls]
    if ptype == "string":
        return {"empty": '""', "ascii": '"plain text"', "esc_quote": r'"a \"quoted\" word"', "dbl_quote": '"a ""doubled"" quote"',
                "esc_apos": r'"it\'s"', "esc_backslash": r'"back\\slash"', "esc_n": r'"line\nbreak"', "esc_r": r'"carriage\rreturn"',
                "esc_t": r'"tab\tstop"', "backslash_last": r'"ends with backslash\\"', "nonbmp": '"smile \U0001F600 face"',
                "latin": '"caf\u00e9 \u20ac"', "slashes": '"a // b /* c */ /begin"', "apos_raw": '"it\'s raw"', "unknown_escape": r'"a\qb"',
                # escapes together with characters outside ASCII; Windows paths (an escaped backslash in front of n, r, t)
                "esc_latin": '"caf\u00e9 \\"quoted\\" \\\\ \u20ac"', "esc_nonbmp": '"\\"\U0001F600\\" \u00e4"',
                "path": r'"C:\\temp\\new_file.hex"', "esc_seq_after_backslash": r'"\\rpm \\n \\t"'}[cls]
    return {"a": "a", "dotted": "a.b.c", "underscore": "_x1", "len1024": "a" * 1024, "len1025": "a" * 1025, "digitfirst": "9abc",
            "brackets": "arr[3].x"}[cls]


def value_document(c):
    e, i = VALUE_HOSTS[c["type"]]
    lit = literal(c["type"], c["cls"])

    def hook(tag, path, part, default):
        if tag == e and path == docgen.PATHS[e][:-1] and part == ("param", i):
            return [lit]
        return default
    return docgen.text_of(docgen.document(e, docgen.best_version(e), hook))


MEAS = '/begin MEASUREMENT {name} {longid} {dt} NO_COMPU_METHOD 1 1.0 0 255'


def multi_document(faults):
    """a document with several recoverable problems of different classes, one per element / line"""
    f = set(faults)
    toonew = bool(f & {"toonew_block", "toonew_enum"})
    ver = ("1", "60") if toonew else ("1", "71")
    lines = []
    if "badversion" in f and not toonew:
        lines.append("ASAP2_VERSION 1 99")
    else:
        lines.append(f"ASAP2_VERSION {ver[0]} {ver[1]}")
    lines.append('/begin PROJECT p ""')
    if "norepeated" in f:
        lines.append("/end PROJECT")
        if "trailing" in f:
            lines.append("trailing_token 1")
        return "\n".join(lines) + "\n"
    lines.append('  /begin MODULE m ""')
    # an A2ML block whose /end stands on a line of its own in front of everything that is diagnosed
    lines += ["    /begin A2ML", "      " + DOCGEN_A2ML_TEXT, "    /end A2ML"]

    def meas(name, longid='""', dt="UBYTE", extra=(), end="MEASUREMENT"):
        out = ["    " + MEAS.format(name=name, longid=longid, dt=dt)]
        out += ["      " + x for x in extra]
        out.append(f"    /end {end}")
        return out
    lines += meas("m_ok")
    if "unknown" in f:
        lines += meas("m_unknown", extra=["UNKNOWN_KEYWORD_X 1 2"])
        # ... with the token that follows the unknown tag on a later line (the diagnostic names the line of the tag)
        lines += meas("m_unknown_alone", extra=["UNKNOWN_KEYWORD_Y", "ECU_ADDRESS 0x30"])
        lines += meas("m_unknown_block", extra=["/begin UNKNOWN_BLOCK_Z", "  1 2", "/end UNKNOWN_BLOCK_Z"])
    if "toomany" in f:
        lines += meas("m_toomany", extra=["BIT_MASK 0x1", "BIT_MASK 0x2"])
    if "strforid" in f:
        lines += meas("m_strforid", longid="an_identifier_instead_of_a_string")
    if "badident" in f:
        lines += meas("1digit_first")
    if "badident_later" in f:
        # the invalid identifier stands on a later line than the tag of its element (the diagnostic names the token's line)
        lines += meas("m_badident_later", extra=["ECU_ADDRESS 0x10", "REF_MEMORY_SEGMENT 9segment"])
        # ... also for a parameter of the block itself (its context is the line of /begin)
        lines += ["    /begin MEASUREMENT", '      9name_on_a_later_line', '      "" UBYTE NO_COMPU_METHOD', "      1 1.0 0 255", "    /end MEASUREMENT"]
    if "longstr_later" in f:
        lines += meas("m_idstr_later", extra=["ECU_ADDRESS 0x20", "DISPLAY_IDENTIFIER d1", "PHYS_UNIT unquoted_unit"])
    if "toonew_block" in f:
        lines.append('    /begin BLOB b1 "" 0x0 4')
        lines.append("    /end BLOB")
    if "toonew_enum" in f:
        lines += meas("m_toonew_enum", dt="FLOAT16_IEEE")
        # ... and with the enum item on a later line than the tag of its element
        lines += ["    /begin MEASUREMENT m_toonew_enum_later", '      ""', "      FLOAT16_IEEE NO_COMPU_METHOD", "      1 1.0 0 255", "    /end MEASUREMENT"]
    if "wrongend" in f:
        lines += meas("m_wrongend", end="WRONG_TAG")
    if "deprecated" in f and not toonew:
        lines += meas("m_deprecated", extra=["ARRAY_SIZE 3"])
        # ... twice in a row: every use is diagnosed
        lines += meas("m_deprecated_again", extra=["ARRAY_SIZE 4"])
    lines.append("  /end MODULE")
    lines.append("/end PROJECT")
    if "trailing" in f:
        lines.append("trailing_token 1")
    return "\n".join(lines) + "\n"


PAYLOADS = {
    "kw0": [["UNKNOWN_X"]],
    "kw_num": [["UNKNOWN_X", "1", "0x2", "3.5"]],
    "kw_str_ident": [["UNKNOWN_X", '"a string"', "an_identifier"]],
    "kw3": [["UNKNOWN_X", "1"], ["  ", '"continued"', "third"]],
    "blk_empty": [["/begin", "UNKNOWN_X", "/end", "UNKNOWN_X"]],
    "blk_scalars": [["/begin", "UNKNOWN_X", "1", '"s"', "ident", "/end", "UNKNOWN_X"]],
    "blk_nested1": [["/begin", "UNKNOWN_X", "1"], ["  ", "/begin", "INNER_Y", "2", "/end", "INNER_Y"], ["/end", "UNKNOWN_X"]],
    "blk_nested2": [["/begin", "UNKNOWN_X"], ["  ", "/begin", "INNER_Y"], ["  ", "  ", "/begin", "INNER_Z", "3", "/end", "INNER_Z"],
                    ["  ", "/end", "INNER_Y"], ["/end", "UNKNOWN_X"]],
    "blk_known_inside": [["/begin", "UNKNOWN_X"], ["  ", "/begin", "ANNOTATION", "/end", "ANNOTATION"], ["  ", "IF_DATA", "FORMAT", '"%3"'], ["/end", "UNKNOWN_X"]],
    "blk_comment": [["/begin", "UNKNOWN_X", "/* a block comment */", "1"], ["  ", "// a line comment"], ["/end", "UNKNOWN_X"]],
    "kw_comment": [["UNKNOWN_X", "1", "/* a block comment */", "2"]],
    "blk_unbalanced_inner_kw": [["/begin", "UNKNOWN_X", "KEYWORD_INSIDE", "5", "UNKNOWN_X_NOT_END", "/end", "UNKNOWN_X"]],
    # an unknown keyword whose arguments contain nested blocks (the known element behind it must survive)
    # (the text UNKNOWN_X is part of these tags: the checks look for it in the warning)
    "blk_digit_tag": [["/begin", "3D_UNKNOWN_X", "1", "/end", "3D_UNKNOWN_X"]],
    "blk_long_tag": [["/begin", "UNKNOWN_X" + "_L" * 600, "1", "/end", "UNKNOWN_X" + "_L" * 600]],
    # an unknown block that holds a block of its own tag (the inner /end UNKNOWN_X does not end the outer block)
    "blk_same_tag_inside": [["/begin", "UNKNOWN_X", "1"], ["  ", "/begin", "UNKNOWN_X", "2", "/end", "UNKNOWN_X"], ["  ", "3"], ["/end", "UNKNOWN_X"]],
    "kw_with_block": [["UNKNOWN_X", "1", "/begin", "INNER_Y", "x", "/end", "INNER_Y"]],
    "kw_with_two_blocks": [["UNKNOWN_X", "/begin", "INNER_Y", "/end", "INNER_Y", "2", "/begin", "INNER_Z", "/begin", "INNER_W", "/end", "INNER_W", "/end", "INNER_Z"]],
}


def skip_documents(c):
    """(base text, text with the unknown payload, applicable) for a C07 case; the payload sits between the
    sub-elements of the target block: nkids sub-elements, inserted before sub-element number `at`"""
    e = c["e"]
    el = EL[e]
    ver = docgen.best_version(e)
    # candidate sub-elements: not ending in an open identifier list (a bare keyword payload behind such a
    # list is excluded by the property), valid in the version, not the special ones
    cands = []
    for kd in el["children"]:
        ce = EL.get(kd["tag"])
        if ce is None or not docgen.in_version(kd, ver) or kd["tag"] in ("A2ML",):
            continue
        last = ce["params"][-1] if ce["params"] else None
        open_list = bool(last and "seq" in last)
        if ce["form"] == "keyword" and open_list:
            continue
        cands.append(kd)
    required = [kd for kd in el["children"] if kd["required"]]
    if c.get("next", "-") != "-":
        nk = next(kd for kd in el["children"] if kd["tag"] == c["next"])
        if not docgen.in_version(nk, ver) or nk["tag"] == "A2ML":
            return None, None, False
        cands = [nk]
        required = [kd for kd in required if kd["tag"] != nk["tag"]]
        # the payload goes directly in front of the chosen sub-element
    chosen = []
    want = max(c["nkids"], len(required))
    for kd in required + cands:
        if len(chosen) >= want:
            break
        if kd["tag"] not in [x["tag"] for x in chosen]:
            chosen.append(kd)
    if len(chosen) < c["nkids"]:
        return None, None, False
    # exclusion of the property: no bare keyword payload directly behind an open-ended identifier list
    # (here: the parameter list of the enclosing block itself ends in one)
    lastp = el["params"][-1] if el["params"] else None
    if c["at"] == 0 and c["payload"].startswith("kw") and lastp and "seq" in lastp and lastp["seq"][0]["type"] == "ident":
        return None, None, False
    tags = [kd["tag"] for kd in chosen]

    def make(with_payload):
        def hook(tag, path, part, default):
            if tag == e and path == docgen.PATHS[e][:-1]:
                if part[0] == "kidcount":
                    return 1 if part[1] in tags else 0
                if part == ("body", None):
                    head, kids = default[:1], default[1:]
                    # group the rendered lines per sub-element
                    groups, cur = [], []
                    for l in kids:
                        toks = [t for t in l if t != "  "]
                        if len(l) - len(toks) == 1 and cur and (toks[:1] == ["/begin"] or toks[0] in tags):
                            groups.append(cur)
                            cur = []
                        cur.append(l)
                    if cur:
                        groups.append(cur)
                    if with_payload:
                        at = min(c["at"], len(groups))
                        if c.get("next", "-") != "-":
                            at = next((gi for gi, g in enumerate(groups) if c["next"] in [t for t in g[0] if t != "  "][:2]), at)
                        groups = groups[:at] + [[["  "] + l for l in PAYLOADS[c["payload"]]]] + groups[at:]
                    return head + [l for g in groups for l in g]
            return default
        return docgen.text_of(docgen.document(e, ver, hook, target_mode="min"))
    return make(False), make(True), True


def run_loads(binp, docs, tag, want=("tokens", "tree"), a2ml=None, timeout=3000):
    """docs: list of (text, strict); returns the list of load-op results"""
    inp = os.path.join(vlib.scratch(), f"loadop_{tag}.ndjson")
    outp = os.path.join(vlib.scratch(), f"loadop_{tag}.out")
    vlib.write_ndjson(inp, [{"id": i, "text": t, "strict": s, "want": list(want), **({"a2ml": a2ml} if a2ml else {})} for i, (t, s) in enumerate(docs)])
    # a load that hangs is data: the case comes back as {"hang": True, "panic": "..."} (checks treat it like a panic)
    results, hangs = vlib.run_cases_resilient(binp, "load-op", inp, outp, len(docs))
    for r in results:
        if r.get("hang"):
            r["panic"] = "load did not return (hang, no progress for 20 s)" if not r.get("not_run") else "not run: too many hangs before this case"
    return results


DOCGEN_A2ML_TEXT = docgen.special("A2ML")[2].strip()
DOCGEN_A2ML_DECLS = [{"d": "block", "tag": "IF_DATA", "seq": False,
                      "m": {"t": {"k": "struct", "name": "", "ref": False, "ms": [{"t": {"k": "int"}, "dims": []}]}, "dims": []}}]

LAYOUT_KEYS = ("line", "uid", "start_offset", "end_offset", "incfile")


def strip_layout(t):
    """Debug trees of IF_DATA content carry layout data (line, uid, offsets); not part of the model's equality"""
    if isinstance(t, dict):
        return {k: strip_layout(v) for k, v in t.items() if k not in LAYOUT_KEYS}
    if isinstance(t, list):
        return [strip_layout(x) for x in t]
    return t


def run_loads_fragment(binp, texts, tag, timeout=3000):
    inp = os.path.join(vlib.scratch(), f"loadop_{tag}.ndjson")
    outp = os.path.join(vlib.scratch(), f"loadop_{tag}.out")
    vlib.write_ndjson(inp, [{"id": i, "text": t, "fragment": True} for i, t in enumerate(texts)])
    rc, lines, err = vlib.run_harness(binp, ["load-op", "--cases", inp, "--out", outp], timeout=timeout)
    if rc != 0:
        vlib.tool_error(f"load-op (fragment) failed rc={rc}: {err[-600:]}")
    with open(outp) as f:
        return [json.loads(l) for l in f if l.strip()]


def outcome_of(r):
    if r.get("ok"):
        return {"ok": True, "diags": [[d[0], d[1]] for d in r["diags"]], "tree": "none"}
    return {"ok": False, "e": [r["e"][0], r["e"][1]], "diags": [], "tree": "none"}


def _lex_class(tok):
    if tok.startswith('"'):
        return "str"
    if tok in ("/begin", "/end"):
        return tok
    if tok[0].isdigit() or tok[0] in "-+.":
        return "num"
    return "id"


def _ambiguous(c):
    """delparam: can the token that follows the deleted parameter stand in for it lexically?"""
    e = c["e"]
    i = c["i"] - 1
    p = EL[e]["params"][i]
    seen = {}

    def hook(tag, path, part, default):
        if tag == e and path == docgen.PATHS[e][:-1] and part == ("param", i):
            seen["tok"] = default
            return ["@@DELETED@@"]
        return default
    lines = docgen.document(e, docgen.best_version(e), hook)
    flat = [t for l in lines for t in l if t != "  "]
    if "@@DELETED@@" not in flat:
        return True
    pos = flat.index("@@DELETED@@")
    nxt = flat[pos + 1] if pos + 1 < len(flat) else None
    if nxt is None:
        return False
    cls = _lex_class(nxt)
    t = p["type"]
    if t == "ident":
        return cls == "id"
    if t == "string":
        return cls in ("str", "id")
    if t in a2ldoc.INT_BITS or t in ("float", "double"):
        return cls == "num"
    return cls == "id"


def enrich(c):
    """descriptor + the grammar facts the corresponding-class table of Trace_Parser needs"""
    c = dict(c)
    k = c["k"]
    if k == "pos":
        c["atbest"] = c["ver"] == docgen.best_version(c["e"])
    elif k == "delparam":
        c["amb"] = _ambiguous(c)
    elif k == "extra_token":
        ps = EL[c["e"]]["params"]
        last = ps[-1] if ps else None
        c["amb"] = bool(last and "seq" in last and (last["seq"][0]["type"] in a2ldoc.INT_BITS or last["seq"][0]["type"] in ("float", "double")) and not EL[c["e"]]["children"])
    elif k == "kid_twice":
        ce = EL[c["c"]]
        last = ce["params"][-1] if ce["params"] else None
        c["amb"] = bool(ce["form"] == "keyword" and last and "seq" in last and len(last["seq"]) == 1 and last["seq"][0]["type"] == "ident")
    elif k == "enum_item":
        p = EL[c["e"]]["params"][c["i"] - 1]
        it = next(i for i in a2ldoc.ENUMS[p["type"]] if i["item"] == c["item"])
        c["since"] = docgen.vnum(it.get("since")) or 0
        c["until"] = docgen.vnum(it.get("until")) or 0
    elif k == "kid_version":
        kd = next(x for x in EL[c["e"]]["children"] if x["tag"] == c["c"])
        c["since"] = docgen.vnum(kd.get("since")) or 0
        c["until"] = docgen.vnum(kd.get("until")) or 0
    return c


def load_event(r, strict, case=None, built_from=None):
    """built_from: the case the document was built from when it shall not be part of the event (no Corresponding
    check) but facts about the document are known from it (is the text of its A2ML block a usable definition?)"""
    if "tokens" not in r or "panic" in r or "ok" not in r:
        return None
    ev = {"toks": a2ldoc.tokens_event(r["tokens"]), "strict": strict, "out": outcome_of(r)}
    # the definitions in force: the A2ML block the document generator writes (other A2ML texts: see a2mlok below)
    has_ifdata = any(t["t"] == "id" and t["v"] == "IF_DATA" for t in ev["toks"])
    defs = []
    for i, t in enumerate(ev["toks"]):
        if t["t"] == "str" and i >= 2 and ev["toks"][i - 1]["v"] == "A2ML" and ev["toks"][i - 2]["t"] == "begin":
            if t["v"].strip() == DOCGEN_A2ML_TEXT:
                defs = [{"decls": DOCGEN_A2ML_DECLS, "infile": True}]
            elif not (case or built_from or {}).get("what", "").startswith("a2ml_"):
                return None          # an A2ML text this driver knows nothing about (usable or not?): not judged here (C18, C03 hostile)
    ev["defs"] = defs
    src = case if case is not None else built_from
    broken = src is not None and src.get("k") == "file" and src.get("what") in ("a2ml_syntax", "a2ml_no_ifdata_block", "a2ml_undeclared_type")
    for i, t in enumerate(ev["toks"]):
        if t["t"] == "str" and i >= 2 and ev["toks"][i - 1]["v"] == "A2ML" and ev["toks"][i - 2]["t"] == "begin":
            t["a"] = dict(t["a"], a2mlok=not broken)
    if case is not None:
        ev["case"] = enrich(case)
    return ev


def token_lines_agree(text, r):
    """the lines the tokenizer hook reports against the lines of the independent tokenizer of the driver (layoutlib):
    None = agree, "skip" = the two tokenizations are not comparable token by token, else the first disagreement"""
    import layoutlib
    if "tokens" not in r:
        return "skip"
    mine = layoutlib.simple_tokens(text.replace("\r\n", "\n")) if "\r" not in text.replace("\r\n", "") else None
    if mine is None or len(mine) != len(r["tokens"]) or any(a[0] != b[0] for a, b in zip(mine, r["tokens"])):
        return "skip"
    for i, (a, b) in enumerate(zip(mine, r["tokens"])):
        line = b[2]
        if b[0] == "str" and i >= 2 and r["tokens"][i - 1][1] == "A2ML" and r["tokens"][i - 2][0] == "begin":
            v = b[1]
            line += v[:len(v) - len(v.lstrip())].count("\n")      # the raw A2ML text starts behind the tag
        if line != a[2]:
            return f"token {b[1][:40]!r} stands on line {a[2]}, the tokenizer reports line {b[2]}"
    return None


def pair_event(rs, rn, no_ifdata=True):
    """C06: the strict and the lenient outcome of the same document"""
    if any("panic" in r or "ok" not in r for r in (rs, rn)):
        return None
    model_eq = bool(rs.get("ok") and rn.get("ok") and strip_layout(rs.get("tree")) == strip_layout(rn.get("tree")))
    return {"pair": True, "s": outcome_of(rs), "n": outcome_of(rn), "modelEq": model_eq, "noIfData": no_ifdata}


def judge_events(events, tag):
    """Trace_Parser over the events (None entries are skipped, indices are kept);
    returns (rejected: {index: [names]}, spec trees: {index: tree}, TlcResult, number judged)"""
    idx = [i for i, e in enumerate(events) if e is not None]
    p = os.path.join(vlib.scratch(), f"parser_events_{tag}.ndjson")
    vlib.write_ndjson(p, [events[i] for i in idx])
    tr = vlib.tlc("Trace_Parser", workers=1, dfs=True, coverage=False, env={"TRACE": p}, timeout=3400, heap="10g", expect_violation=True)
    if not tr.ok:
        vlib.tool_error(f"Trace_Parser did not consume all events: {tr.errors[:3]}")
    rejected, trees, cur = {}, {}, []
    for line in tr.raw_lines("<<"):
        m = re.match(r'<<"FAILED", "([^"]+)">>', line)
        if m:
            cur.append(m.group(1))
            continue
        m = re.match(r'<<"REJECT", (\d+)>>', line)
        if m:
            rejected[idx[int(m.group(1)) - 1]] = cur or ["?"]
            cur = []
            continue
        m = re.match(r'<<"TREE", (\d+), (".*")>>$', line)
        if m:
            trees[idx[int(m.group(1)) - 1]] = json.loads(json.loads(m.group(2)))
    return rejected, trees, tr, len(idx)


def judge(results, stricts, tag):
    return judge_events([load_event(r, s) for r, s in zip(results, stricts)], tag)
