"""Concretise the case descriptors of MC_ParserCases.tla into documents and judge loads with
Parser.tla (Trace_Parser): shared by C04, C06, C07, C03 and C20."""
import json
import os
import re

import a2ldoc
import docgen
import vlib

EL = a2ldoc.EL


def concretise(c):
    """descriptor -> document text (None if the descriptor cannot be realised)"""
    k = c["k"]
    if k == "file":
        base = docgen.document("MODULE", 171)
        w = c["what"]
        if w == "no_version":
            base = [l for l in base if "ASAP2_VERSION" not in l]
        elif w == "bad_version":
            base = [["ASAP2_VERSION", "1", "99"] if "ASAP2_VERSION" in l else l for l in base]
        elif w == "version_garbled":
            base = [["ASAP2_VERSION", "1"] if "ASAP2_VERSION" in l else l for l in base]
        elif w == "trailing":
            base = base + [["trailing_identifier", "5"]]
        elif w == "empty_project_missing":
            base = [["ASAP2_VERSION", "1", "71"]]
        elif w == "two_projects":
            proj = [l for l in base if "ASAP2_VERSION" not in l]
            base = base + proj
        return docgen.text_of(base)
    e = c["e"]
    el = EL[e]
    ppath = docgen.PATHS[e][:-1]
    ver = c.get("ver") or docgen.best_version(e)

    def at_target(tag, path):
        return tag == e and path == ppath

    if k == "pos":
        return docgen.text_of(docgen.document(e, ver))

    if k in ("delparam", "retype", "enum_unknown", "enum_item"):
        i = c["i"] - 1

        def hook(tag, path, part, default):
            if at_target(tag, path) and part == ("param", i):
                if k == "delparam":
                    return []
                if k == "retype":
                    return [docgen.other_class(el["params"][i]["type"])] * max(1, len(default))
                if k == "enum_unknown":
                    return ["NOT_AN_ENUM_ITEM"]
                return [c["item"]]
            return default
        return docgen.text_of(docgen.document(e, ver, hook))

    if k in ("seqlen", "seqbad"):
        i = c["i"] - 1
        p = el["params"][i]

        def hook(tag, path, part, default):
            if at_target(tag, path) and part == ("param", i):
                w = len(p["seq"])
                if k == "seqlen":
                    ctr = docgen.Ctr()
                    ctr.n = 500
                    out = []
                    for _ in range(c["n"]):
                        out += [docgen.sample(q["type"], ctr, ver) for q in p["seq"]]
                    return out
                # one complete item, then an item whose last field has the wrong class / is missing
                bad = list(default[:w]) + list(default[w:2 * w - 1]) + ([docgen.other_class(p["seq"][-1]["type"])] if w > 1 else [docgen.other_class(p["seq"][0]["type"])])
                return bad
            return default
        return docgen.text_of(docgen.document(e, ver, hook))

    if k in ("kid_absent", "kid_twice", "kid_wrongform", "kid_version"):
        ctag = c["c"]

        def hook(tag, path, part, default):
            if at_target(tag, path):
                if part == ("kidcount", ctag):
                    return {"kid_absent": 0, "kid_twice": 2, "kid_wrongform": 1, "kid_version": 1}[k]
                if part == ("kid", ctag) and k == "kid_wrongform":
                    lines = [list(l) for l in default]
                    if EL[ctag]["form"] == "block":
                        # drop /begin and /end
                        lines[0] = [t for t in lines[0] if t != "/begin"]
                        lines = lines[:-1] if lines[-1][:1] == ["/end"] else lines
                        if ctag in ("IF_DATA", "A2ML"):
                            lines = [[t for t in lines[0] if t != "/begin"][:-2]]
                    else:
                        lines[0] = ["/begin"] + lines[0]
                        lines.append(["/end", ctag])
                    return lines
            return default
        return docgen.text_of(docgen.document(e, ver, hook))

    if k in ("end_tag", "no_end", "extra_token", "unknown_kid"):
        def hook(tag, path, part, default):
            if at_target(tag, path) and part == ("body", None):
                if k == "extra_token":
                    return default + [["  ", "4711"]]
                if k == "unknown_kid":
                    if c["form"] == "block":
                        return default + [["  ", "/begin", "UNKNOWN_BLOCK_X", "1", '"two"', "three", "/end", "UNKNOWN_BLOCK_X"]]
                    return default + [["  ", "UNKNOWN_KEYWORD_X", "1", '"two"']]
            return default
        lines = docgen.document(e, ver, hook)
        if k in ("end_tag", "no_end"):
            # the /end line of the target is the first "/end <e>" line after its /begin
            depth = None
            for idx, l in enumerate(lines):
                toks = [t for t in l if t != "  "]
                if toks[:2] == ["/begin", e] and depth is None:
                    depth = len(l) - len(toks)
                elif depth is not None and toks == ["/end", e] and len(l) - len(toks) == depth:
                    if k == "end_tag":
                        lines[idx] = l[:-1] + ["WRONG_END_TAG"]
                    else:
                        lines[idx] = l[:-2]
                    break
        return docgen.text_of(lines)
    raise ValueError(f"unknown case kind {k}")


def run_loads(binp, docs, tag, want=("tokens", "tree"), a2ml=None, timeout=3000):
    """docs: list of (text, strict); returns the list of load-op results"""
    inp = os.path.join(vlib.scratch(), f"loadop_{tag}.ndjson")
    outp = os.path.join(vlib.scratch(), f"loadop_{tag}.out")
    vlib.write_ndjson(inp, [{"id": i, "text": t, "strict": s, "want": list(want), **({"a2ml": a2ml} if a2ml else {})} for i, (t, s) in enumerate(docs)])
    rc, lines, err = vlib.run_harness(binp, ["load-op", "--cases", inp, "--out", outp], timeout=timeout)
    if rc != 0:
        vlib.tool_error(f"load-op failed rc={rc}: {err[-600:]}")
    with open(outp) as f:
        return [json.loads(l) for l in f if l.strip()]


def outcome_of(r):
    if r.get("ok"):
        return {"ok": True, "diags": [[d[0], d[1]] for d in r["diags"]], "tree": "none"}
    return {"ok": False, "e": [r["e"][0], r["e"][1]], "diags": [], "tree": "none"}


def _lex_class(tok):
    if tok.startswith('"'):
        return "str"
    if tok in ("/begin", "/end"):
        return tok
    if tok[0].isdigit() or tok[0] in "-+.":
        return "num"
    return "id"


def _ambiguous(c):
    """delparam: can the token that follows the deleted parameter stand in for it lexically?"""
    e = c["e"]
    i = c["i"] - 1
    p = EL[e]["params"][i]
    seen = {}

    def hook(tag, path, part, default):
        if tag == e and path == docgen.PATHS[e][:-1] and part == ("param", i):
            seen["tok"] = default
            return ["@@DELETED@@"]
        return default
    lines = docgen.document(e, docgen.best_version(e), hook)
    flat = [t for l in lines for t in l if t != "  "]
    if "@@DELETED@@" not in flat:
        return True
    pos = flat.index("@@DELETED@@")
    nxt = flat[pos + 1] if pos + 1 < len(flat) else None
    if nxt is None:
        return False
    cls = _lex_class(nxt)
    t = p["type"]
    if t == "ident":
        return cls == "id"
    if t == "string":
        return cls in ("str", "id")
    if t in a2ldoc.INT_BITS or t in ("float", "double"):
        return cls == "num"
    return cls == "id"


def enrich(c):
    """descriptor + the grammar facts the corresponding-class table of Trace_Parser needs"""
    c = dict(c)
    k = c["k"]
    if k == "pos":
        c["atbest"] = c["ver"] == docgen.best_version(c["e"])
    elif k == "delparam":
        c["amb"] = _ambiguous(c)
    elif k == "extra_token":
        ps = EL[c["e"]]["params"]
        last = ps[-1] if ps else None
        c["amb"] = bool(last and "seq" in last and (last["seq"][0]["type"] in a2ldoc.INT_BITS or last["seq"][0]["type"] in ("float", "double")) and not EL[c["e"]]["children"])
    elif k == "kid_twice":
        ce = EL[c["c"]]
        last = ce["params"][-1] if ce["params"] else None
        c["amb"] = bool(ce["form"] == "keyword" and last and "seq" in last and len(last["seq"]) == 1 and last["seq"][0]["type"] == "ident")
    elif k == "enum_item":
        p = EL[c["e"]]["params"][c["i"] - 1]
        it = next(i for i in a2ldoc.ENUMS[p["type"]] if i["item"] == c["item"])
        c["since"] = docgen.vnum(it.get("since")) or 0
        c["until"] = docgen.vnum(it.get("until")) or 0
    elif k == "kid_version":
        kd = next(x for x in EL[c["e"]]["children"] if x["tag"] == c["c"])
        c["since"] = docgen.vnum(kd.get("since")) or 0
        c["until"] = docgen.vnum(kd.get("until")) or 0
    return c


def load_event(r, strict, case=None):
    if "tokens" not in r or "panic" in r or "ok" not in r:
        return None
    ev = {"toks": a2ldoc.tokens_event(r["tokens"]), "strict": strict, "out": outcome_of(r)}
    if case is not None:
        ev["case"] = enrich(case)
    return ev


def pair_event(rs, rn, no_ifdata=True):
    """C06: the strict and the lenient outcome of the same document"""
    if any("panic" in r or "ok" not in r for r in (rs, rn)):
        return None
    model_eq = bool(rs.get("ok") and rn.get("ok") and rs.get("tree") == rn.get("tree"))
    return {"pair": True, "s": outcome_of(rs), "n": outcome_of(rn), "modelEq": model_eq, "noIfData": no_ifdata}


def judge_events(events, tag):
    """Trace_Parser over the events (None entries are skipped, indices are kept);
    returns (rejected: {index: [names]}, spec trees: {index: tree}, TlcResult, number judged)"""
    idx = [i for i, e in enumerate(events) if e is not None]
    p = os.path.join(vlib.scratch(), f"parser_events_{tag}.ndjson")
    vlib.write_ndjson(p, [events[i] for i in idx])
    tr = vlib.tlc("Trace_Parser", workers=1, dfs=True, coverage=False, env={"TRACE": p}, timeout=3400, heap="10g", expect_violation=True)
    if not tr.ok:
        vlib.tool_error(f"Trace_Parser did not consume all events: {tr.errors[:3]}")
    rejected, trees, cur = {}, {}, []
    for line in tr.raw_lines("<<"):
        m = re.match(r'<<"FAILED", "([^"]+)">>', line)
        if m:
            cur.append(m.group(1))
            continue
        m = re.match(r'<<"REJECT", (\d+)>>', line)
        if m:
            rejected[idx[int(m.group(1)) - 1]] = cur or ["?"]
            cur = []
            continue
        m = re.match(r'<<"TREE", (\d+), (".*")>>$', line)
        if m:
            trees[idx[int(m.group(1)) - 1]] = json.loads(json.loads(m.group(2)))
    return rejected, trees, tr, len(idx)


def judge(results, stricts, tag):
    return judge_events([load_event(r, s) for r, s in zip(results, stricts)], tag)
