"""C06 - strict and non-strict loading agree except on recoverable problems.

The severity of every diagnostic site is part of Parser.tla (Log = error_or_log, Warn =
log_warning, Err = hard error), so the four relations of the property follow from it; they are
additionally evaluated directly on every pair of observed outcomes (relations before
predictions):
  R1 strict ok => lenient ok            R2 lenient ok without warnings => strict ok, equal model
  R3 (no IF_DATA) strict fails <=> lenient fails or reports something other than a deprecation;
     equal models when both succeed     R4 every diagnostic carries the line of the token at which
     Parser.tla detects it (the 'Diagnostics' comparison of Trace_Parser, class and line)
Corpus: the C04 case space (positives + every deviation) plus documents with two and three
injected recoverable problems of different classes on known lines (every pair and triple of 11
fault classes, enumerated by MC_ParserCases).
"""
import json
import time

import parsercases as pc
import vlib
from checks import c04

PID = "C06"


def run(tier, selftest):
    t0 = time.time()
    rep = vlib.Reporter(PID)
    binp = vlib.build_harness()
    res = vlib.tlc("MC_ParserCases", workers=8, coverage=False, timeout=900)
    cases = list(res.prints("CASE"))
    multi = [c for c in cases if c["k"] == "multi"]
    if len(multi) < 200:
        vlib.tool_error(f"vacuity: only {len(multi)} multi-fault cases")
    sel = c04.select(cases, tier, vlib.seed() + 6) + multi
    docs, meta = [], []
    for c in sel:
        t = pc.concretise(c)
        for s in (True, False):
            docs.append((t, s))
            meta.append(c)
    # IF_DATA that conforms to its definition except for a problem the reader tolerates with a warning (a string longer than
    # its char[n], an identifier in place of a string): judged by the pair relations (R2: silent lenient load => strict load
    # with an equal model)
    aml = 'block "IF_DATA" taggedunion { "NAME" struct { char[4]; uint; }; "LIST" (char[3])*; };'
    for i, content in enumerate(('NAME "abcdefgh" 5', "NAME abcd 5", 'LIST "ab" "toolong" "c"', 'NAME "abc" 5')):
        t = (f'ASAP2_VERSION 1 71\n/begin PROJECT p ""\n  /begin MODULE m ""\n    /begin A2ML\n      {aml}\n    /end A2ML\n'
             f'    /begin IF_DATA {content}\n    /end IF_DATA\n  /end MODULE\n/end PROJECT\n')
        for sflag in (True, False):
            docs.append((t, sflag))
            meta.append({"k": "ifdata_tolerated", "i": i, "content": content})
    results = pc.run_loads(binp, docs, PID)
    events = [pc.load_event(r, s, None, built_from=c) for r, (t, s), c in zip(results, docs, meta)]
    npairs = 0
    for i in range(0, len(results), 2):
        events.append(pc.pair_event(results[i], results[i + 1], no_ifdata="IF_DATA" not in docs[i][0]))
        npairs += 1
    rejected, trees, tr, njudged = pc.judge_events(events, PID)
    cor = dict(docs=docs, meta=meta, results=results, rejected=rejected)
    # C06 judges the relations and the diagnostic lines; outcome/tree disagreements are C04's business
    c04.report(PID, rep, cor, only={"R1", "R2", "R3", "R3eq", "Diagnostics", "ErrorClass", "Outcome"})
    # R4 rests on the lines of the tokens: the lines the tokenizer reports are compared with an independent count
    nlines = nskip = 0
    for (t, sflag), r, c in zip(docs, results, meta):
        why = pc.token_lines_agree(t, r)
        if why == "skip":
            nskip += 1
            continue
        nlines += 1
        if why:
            rep.violation(f"strictness:TokenLine:{c['k']}", f"{why} (case {c})", {"kind": "doc", "case": c, "text": t, "strict": sflag})
    if nlines < 0.8 * len(docs):
        vlib.tool_error(f"vacuity: token lines compared for {nlines} of {len(docs)} documents only")
    sites = set()
    for r in results:
        for d in r.get("diags", []):
            sites.add(d[0])
        if r.get("e"):
            sites.add(r["e"][0])
    binding = None
    if selftest or tier == "thorough":
        ev = json.loads(json.dumps(next(e for e in events if e and e.get("pair") and e["s"]["ok"] and e["n"]["ok"])))
        ev["n"]["ok"] = False
        ev["n"]["e"] = ["UnexpectedTokenType", 1]
        ev2 = json.loads(json.dumps(next(e for e in events if e and e.get("pair") and not e["s"]["ok"] and e["n"]["ok"])))
        ev2["n"]["diags"] = []
        rj, _, _, _ = pc.judge_events([ev, ev2], "selftest")
        binding = {"R1_violation_rejected": 0 in rj, "R2_violation_rejected": 1 in rj}
        if not all(binding.values()):
            vlib.tool_error(f"binding selftest failed: {binding}")
    cov = {
        "states": res.distinct,
        "transitions": res.generated,
        "traces_validated_against_impl": njudged,
        "exhaustive": tier == "thorough",
        "evaluations": len(docs),
        "documents_with_token_lines_compared": nlines,
        "distinct_nontrivial": sum(1 for i in range(0, len(results), 2) if results[i].get("ok") != results[i + 1].get("ok")),
        "rule": "every selected C04 case and all 220 multi-fault documents are loaded in both modes; each load is validated against Parser.tla (class + line of every diagnostic) and each pair against R1-R3; non-trivial = the two modes differ in success",
        "samples": [multi[0], {"text": pc.concretise(multi[7])}],
        "pairs_judged": npairs,
        "multi_fault_documents": len(multi),
        "diag_sites_reached": sorted(sites),
        "events_rejected": len(rejected),
    }
    if binding:
        cov["binding_mutations_rejected"] = binding
    vlib.write_evidence(PID, tier, "model_checking", cov, [
        "R3 is only judged for documents without IF_DATA (as the property says)",
        "model equality between the two modes is equality of the Debug trees",
        "R4: injected faults sit on single-line elements, so the expected line does not depend on which token of the element is blamed",
    ], time.time() - t0, rep.count_new)
    return rep.exit_code()


def replay(path):
    c04.PID = PID
    return c04.replay(path)
