"""C09 - see mergecheck.py"""
from checks import mergecheck

PID = "C09"


def run(tier, selftest):
    return mergecheck.run(PID, tier, selftest)


def replay(path):
    return mergecheck.replay(PID, path)
