"""C01 - see layoutcheck.py (and DESIGN.md 6)"""
from checks import layoutcheck

PID = "C01"
ASSUMPTIONS = [
    "documents are the maximal documents of every grammar element (canonical element order, /begin and /end on the line of their tag, no raw line breaks in strings, A2ML /end on its own line)",
    "token equivalence (number notation with the hex flag kept, string escapes, whitespace inside A2ML) is decided by the driver with an independent tokenizer",
    "comments are generated only between the sub-elements of blocks and at the file level (between ASAP2_VERSION and PROJECT)",
]


def run(tier, selftest):
    return layoutcheck.run(PID, tier, selftest, ASSUMPTIONS)


def replay(path):
    return layoutcheck.replay(PID, path)
