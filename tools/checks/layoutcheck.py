"""C01 / C02 / C05 on load -> write -> reload cycles of laid-out documents.

B1  Layout.tla models the line bookkeeping of tokenizer, parser and writer (one stored line per
    token, offsets as differences, comment heights); MC_Layout checks on every abstract document
    of up to 4 items (tokens, line comments, block comments of height 1-3, strings) with gaps 0-2
    that lines are preserved and that writing is a fixpoint, and that the pinned scheme
    (CommentHeightAware = FALSE) violates this (expected violation, D3).
B2  MC_LayoutCases enumerates layout patterns (families one-line / token-per-line / blank lines /
    CRLF / as-is; two gap changes at relative positions; a line or block comment of height 1-3 in
    a block-level gap); the driver applies them to the maximal document of every element of the
    grammar, the real library loads, writes and cycles it three times, and Trace_Layout judges
    the relations on the observed token lines (independent tokenizer for input and output):
    C02 same significant tokens in the same order with equivalent values, C05 same line for every
    token and byte-identical reproduction of the writer's own format, C01 every cycle loads, the
    model stays equal, the text is a fixpoint, no new diagnostics.
"""
import json
import os
import random
import time

import docgen
import layoutlib
import parsercases as pc
import vlib

ELEMENTS = sorted(t for t in docgen.PATHS if t != "A2L_FILE")


def gen(tier, seed, pid):
    res = vlib.tlc("MC_LayoutCases", workers=8, coverage=False, timeout=900)
    pats = list(res.prints("CASE"))
    if len(pats) < 10000:
        vlib.tool_error(f"only {len(pats)} layout patterns")
    rng = random.Random(seed * 97 + sum(map(ord, pid)))
    per_elem = 120 if tier == "thorough" else 3
    cases = []
    for e in ELEMENTS:
        for p in rng.sample(pats, per_elem):
            cases.append((e, p))
    return res, pats, cases


def value_pair_docs(tier, seed):
    """positive documents of MC_ParserCases (every element with all its sub-elements) and, per parameter token, a twin that
    differs in that token only: another value (different) or another notation of the value (same)"""
    import re
    res = vlib.tlc("MC_ParserCases", workers=8, coverage=False, timeout=900)
    pos = [c for c in res.prints("CASE") if c["k"] == "pos" and c.get("ver") == 171]
    rng = random.Random(seed * 97 + 5)
    tokre = re.compile(r'"(?:[^"\\]|\\.|"")*"|/\*.*?\*/|//[^\n]*|[^\s"]+', re.S)
    out = []
    for c in pos:
        text = pc.concretise(c)
        body = text.index("/begin PROJECT")
        for m in tokre.finditer(text, body):
            t = m.group(0)
            twins = []
            if re.fullmatch(r"id_\d+", t):
                twins.append((t + "x", False))
            elif re.fullmatch(r'"s\d+"', t):
                twins.append((t[:-1] + 'x"', False))
                twins.append((t[:-1] + '\\""', False))      # an escaped quote at the end is part of the value
            elif re.fullmatch(r"0x[0-9a-fA-F]+", t):
                twins.append((hex(int(t, 16) + 1), False))
                twins.append((str(int(t, 16)), True))
                twins.append(("0X" + t[2:].upper(), True))
            elif re.fullmatch(r"\d+", t):
                twins.append((str(int(t) + 1), False))
            elif re.fullmatch(r"\d+\.\d+", t):
                twins.append((str(float(t) + 1.0), False))
                twins.append((t + "0", True))
                twins.append((("%.3e" % float(t)), float("%.3e" % float(t)) == float(t)))
            if tier != "thorough" and twins:      # quick: one twin of another value for every token, a sample of the other twins
                twins = [twins[0]] + [x for x in twins[1:] if rng.random() < 0.3]
            for tw, same in twins:
                out.append({"e": c["e"], "text": text, "text2": text[:m.start()] + tw + text[m.end():], "tok": t, "twin": tw, "same": same})
    return out


def value_pairs(binp, rep, pid, tier):
    pairs = value_pair_docs(tier, vlib.seed())
    inp = os.path.join(vlib.scratch(), f"pairs_{pid}.ndjson")
    outp = os.path.join(vlib.scratch(), f"pairs_{pid}.out")
    vlib.write_ndjson(inp, [{"id": i, "text": p["text"], "text2": p["text2"], "strict": True, "want": []} for i, p in enumerate(pairs)])
    rc, lines, err = vlib.run_harness(binp, ["load-op", "--cases", inp, "--out", outp], timeout=3000)
    if rc != 0:
        vlib.tool_error(f"load-op (pairs) failed: {err[-300:]}")
    with open(outp) as f:
        results = [json.loads(l) for l in f if l.strip()]
    events, idx, unloadable = [], [], 0
    for i, (p, r) in enumerate(zip(pairs, results)):
        pr = r.get("pair")
        if not r.get("ok") or pr is None:
            vlib.tool_error(f"positive document does not load: {r.get('e')}")
        if not pr.get("loads"):
            if "panic" in pr:
                rep.violation(f"pair:panic:{p['e']}", f"loading panicked: {pr['panic']}", {"kind": "doc", "text": p["text2"], "strict": True})
            unloadable += 1           # the changed value does not fit its field
            continue
        events.append({"pair": True, "sameValue": p["same"], "eq": bool(pr["eq"]), "eqRev": bool(pr["eq_rev"])})
        idx.append(i)
    if len(events) < 0.8 * len(pairs) or not any(e["sameValue"] for e in events) or not any(not e["sameValue"] for e in events):
        vlib.tool_error(f"vacuity: {len(events)} of {len(pairs)} twin documents load")
    pth = os.path.join(vlib.scratch(), f"pair_events_{pid}.ndjson")
    vlib.write_ndjson(pth, events)
    tr = vlib.tlc("Trace_Layout", cfg=f"Trace_Layout_{pid}", workers=1, dfs=True, coverage=False, env={"TRACE": pth}, timeout=1800, expect_violation=True)
    if not tr.ok:
        vlib.tool_error(f"Trace_Layout did not consume all pair events: {tr.errors[:3]}")
    cur = []
    for line in tr.raw_lines("<<"):
        import re
        m = re.match(r'<<"FAILED", "([^"]+)">>', line)
        if m:
            cur.append(m.group(1))
            continue
        m = re.match(r'<<"REJECT", (\d+)>>', line)
        if m:
            p = pairs[idx[int(m.group(1)) - 1]]
            rep.violation(f"pair:{'+'.join(cur)}:{p['e']}", f"documents that differ in the token {p['tok']} / {p['twin']} ({'same' if p['same'] else 'another'} value) of {p['e']}: == says {events[int(m.group(1)) - 1]['eq']}",
                          {"kind": "pair", "pair": p})
            cur = []
    return {"twin_documents": len(pairs), "judged": len(events), "same_value_twins": sum(1 for e in events if e["sameValue"]), "value_does_not_fit": unloadable}


def run(pid, tier, selftest, assumptions):
    t0 = time.time()
    rep = vlib.Reporter(pid)
    binp = vlib.build_harness()
    d1 = vlib.tlc("MC_Layout", workers=12, coverage=False, timeout=900)
    if d1.violation:
        rep.violation(f"layout-spec:{d1.violation}", "TLC: the offset scheme of Layout.tla does not preserve lines / is not a fixpoint", {"kind": "tlc"})
    d3 = vlib.tlc("MC_Layout", cfg="MC_Layout_D3", workers=4, coverage=False, timeout=900, expect_violation=True)
    if d3.violation not in ("LinesOK", "NoDrift"):
        vlib.tool_error("expected-violation configuration MC_Layout_D3 did not fail")
    res, pats, cases = gen(tier, vlib.seed(), pid)
    docs, meta = [], []
    for e, p in cases:
        text, file_level = layoutlib.apply_pattern(e, p)
        docs.append((text, True))
        meta.append({"e": e, "pat": p, "file_level_comment": file_level})
    if pid in ("C01", "C02"):
        # IF_DATA content that no definition describes must pass through with its tokens intact (details: C18)
        import a2mlgen
        payloads = {
            "mixed": ["VENDOR", "1", "0x1FFFFFFFF", "4294967297", "0.1", "-7", "1e30", '"s"', "idnt", "/begin", "B", "2", "/begin", "C", "/end", "C", "/end", "B"],
            "repeated_blocks": ["/begin", "SEGMENT", "1", "/end", "SEGMENT", "/begin", "SEGMENT", "2", "/end", "SEGMENT", "/begin", "SEGMENT", "3", "/end", "SEGMENT"],
            "tagged_repeated": ["ETK", "/begin", "SEG", "1", "/end", "SEG", "/begin", "SEG", "2", "/end", "SEG", "/begin", "OTHER", "/end", "OTHER", "/begin", "SEG", "3", "/end", "SEG"],
            "wide": ["X", "18446744073709551615", "-9223372036854775808", "0xFFFFFFFFFFFFFFFF", "123456789.125", "0.30000000000000004"],
            "plain": ["1", "2", '"x"'],
            "tag_only": ["TAG_ONLY"],
            "empty": [],
        }
        for name, toks in payloads.items():
            for site in a2mlgen.SITES:
                docs.append((a2mlgen.document(None, [(site, toks)]), False))
                meta.append({"e": "ifdata:" + site, "pat": {"fam": "ifdata", "cmt": name}, "file_level_comment": False})
    # IF_DATA that the file's A2ML describes, with one to three tokens per line (every token, also inside IF_DATA,
    # is written on the line it had)
    import a2mlgen
    grng = random.Random(vlib.seed() * 31 + 5)
    dgen = a2mlgen.DefGen(grng)
    sc = lambda k: {"t": {"k": k}, "dims": []}
    fixed = [[{"d": "block", "tag": "IF_DATA", "seq": False, "m": {"t": {"k": "tu", "name": "", "ref": False, "tags": [
        {"tag": "MIXED", "block": False, "repeat": False, "hasdef": True, "seq": False,
         "m": {"t": {"k": "struct", "name": "", "ref": False, "ms": [sc("uint"), sc("float"), sc("double"), sc("long"), sc("float"), {"t": {"k": "char"}, "dims": [16]}, sc("double")]}, "dims": []}},
        {"tag": "FLOATS", "block": True, "repeat": False, "hasdef": True, "seq": True, "m": sc("float")}]}, "dims": []}}]]
    for di in range(8 if tier == "quick" else 60):
        dgen.max_depth = grng.choice([2, 3, 4])
        decls = fixed[di] if di < len(fixed) else dgen.definition()
        ty = a2mlgen.resolve(decls)[1]
        for per_line in (1, 2, 3):
            a2mlgen.PER_LINE[0] = per_line
            blocks = [(a2mlgen.SITES[(di + i) % 11], a2mlgen.instance(ty, grng)) for i in range(4)]
            docs.append((a2mlgen.document(a2mlgen.render(decls), blocks), False))
            meta.append({"e": "ifdata-described", "pat": {"fam": "ifdata-described", "cmt": f"{per_line} per line"}, "file_level_comment": False})
    a2mlgen.PER_LINE[0] = 6
    # float members with literals outside the range of f32 (finite as f64): they do not fit the member, the block goes through
    # uninterpreted and its tokens stay as they are
    big = [("MODULE", ["/begin", "FLOATS", "1e39", "-7.5e40", "3.5e38", "1.5", "/end", "FLOATS"]),
           ("MEASUREMENT", ["MIXED", "60", "3.5e38", "8598980006.9", "-5", "1e39", '"abc"', "1e300"])]
    docs.append((a2mlgen.document(a2mlgen.render(fixed[0]), big), False))
    meta.append({"e": "ifdata-described", "pat": {"fam": "ifdata-described", "cmt": "float beyond f32"}, "file_level_comment": False})
    # negative zero in float and double members (written as 0, which is the same value)
    negz = [("MODULE", ["/begin", "FLOATS", "-0.0", "0.0", "-0", "/end", "FLOATS"]),
            ("MEASUREMENT", ["MIXED", "60", "-0.0", "-0.0", "-5", "0", '"abc"', "-0"])]
    docs.append((a2mlgen.document(a2mlgen.render(fixed[0]), negz), False))
    meta.append({"e": "ifdata-described", "pat": {"fam": "ifdata-described", "cmt": "negative zero"}, "file_level_comment": False})
    # uninterpreted IF_DATA (no A2ML): integers up to u64::MAX and below i64::MIN stay what they are
    bigint = 'ASAP2_VERSION 1 71\n/begin PROJECT p ""\n  /begin MODULE m ""\n    /begin IF_DATA RAW 18446744073709550591 9223372036854775808 18446744073709551615 -9223372036854775808 0xFFFFFFFFFFFFFFFF\n    /end IF_DATA\n  /end MODULE\n/end PROJECT\n'
    docs.append((bigint, False))
    meta.append({"e": "ifdata", "pat": {"fam": "ifdata-payload", "cmt": "integers up to u64::MAX"}, "file_level_comment": False})
    if pid in ("C01", "C02", "C05"):
        # the raw A2ML text with every kind of head behind /begin A2ML (tab, blank, line break) and with comments that hold
        # /end, /begin or an unbalanced comment opener
        decl = 'block "IF_DATA" taggedunion { "X" struct { uint; }; };'
        for name, body in (("head-tab", "\t" + decl + "\n    "), ("head-blank", " " + decl + "\n    "), ("head-two-tabs-line", "\t\t\n      " + decl + "\n    "),
                           ("line-comment-end", "\n      // closed by /end of the union\n      " + decl + "\n    "),
                           ("line-comment-opener", "\n      " + decl + " // an unbalanced /* in a line comment\n    "),
                           ("block-comment-end", "\n      /* /end A2ML inside a comment */\n      " + decl + "\n    "),
                           ("line-comment-begin-last", "\n      " + decl + "\n      // /begin X /end X\n    ")):
            for crlf in (False, True):
                t = a2mlgen.document(body, [("MODULE", ["X", "7"]), ("MEASUREMENT", ["X", "0x10"])])
                docs.append((t.replace("\n", "\r\n") if crlf else t, False))
                meta.append({"e": "a2ml-head", "pat": {"fam": "a2ml-head", "cmt": name + ("/crlf" if crlf else "")}, "file_level_comment": False})
    if pid in ("C01", "C02", "C05"):
        # the raw A2ML text with every kind of tail in front of /end A2ML (blank lines, blanks, no line break, CRLF)
        body = '\n      block "IF_DATA" taggedunion { "X" struct { uint; }; };'
        for name, tail in (("newline", "\n"), ("blank-lines", "\n\n\n"), ("blank-lines-indent", "\n\n      "), ("same-line", " "),
                           ("two-newlines", "\n\n"), ("tabs", "\n\t\t")):
            if pid == "C05" and name == "same-line":
                continue            # C05 is about A2ML blocks whose /end stands on a line of its own
            for crlf in (False, True):
                t = a2mlgen.document(body + tail, [("MODULE", ["X", "7"]), ("MEASUREMENT", ["X", "0x10"])])
                docs.append((t.replace("\n", "\r\n") if crlf else t, False))
                meta.append({"e": "a2ml-tail", "pat": {"fam": "a2ml-tail", "cmt": name + ("/crlf" if crlf else "")}, "file_level_comment": False})
    # value classes per parameter type (C01, C02): the literal catalogue of MC_ParserCases
    nvalue = 0
    vrej = {}
    if pid in ("C01", "C02"):
        pres = vlib.tlc("MC_ParserCases", workers=8, coverage=False, timeout=900)
        vcases = [c for c in pres.prints("CASE") if c["k"] == "value"]
        if len(vcases) < 100:
            vlib.tool_error(f"only {len(vcases)} value cases")
        vdocs, vmeta = [], []
        for c in vcases:
            t = pc.concretise(c)
            for st in (True, False):
                vdocs.append((t, st))
                vmeta.append(c)
        vres = pc.run_loads(binp, vdocs, pid + "v", want=("tokens", "tree", "write", "cycle"))
        vev = [pc.load_event(r, st, None) for r, (t, st) in zip(vres, vdocs)]
        vrej, vtrees, _, _ = pc.judge_events(vev, pid + "v")
        nvalue = len(vdocs)
        if pid == "C02":
            import a2ldoc
            for k, names in sorted(vrej.items()):
                r = vres[k]
                rep.violation(f"value:{'+'.join(names)}:{vmeta[k]['type']}:{vmeta[k]['cls']}",
                              f"{'strict' if vdocs[k][1] else 'lenient'} load of literal {pc.literal(vmeta[k]['type'], vmeta[k]['cls'])[:40]} for a {vmeta[k]['type']} field disagrees with Parser.tla on {names} (a literal that does not fit must be diagnosed; one that fits must be accepted); observed ok={r.get('ok')} {r.get('e', [''])[0]}",
                              {"kind": "doc", "meta": {"e": "value", "pat": vmeta[k], "file_level_comment": False}, "text": vdocs[k][0]})
            for k, t in vtrees.items():
                if k in vrej:
                    continue
                d = a2ldoc.compare_tree(t, vres[k]["tree"])
                if d:
                    rep.violation(f"value:Stored:{vmeta[k]['type']}:{vmeta[k]['cls']}", f"the stored value differs from the literal: {d[:2]}",
                                  {"kind": "doc", "meta": {"e": "value", "pat": vmeta[k], "file_level_comment": False}, "text": vdocs[k][0]})
        # the documents that load go through the write / cycle relations like the laid-out ones
        for (t, st), r, c in zip(vdocs, vres, vmeta):
            if not st and r.get("ok") and "written" in r:
                docs.append((t, False))
                meta.append({"e": "value:" + c["type"], "pat": {"fam": "value", "cmt": c["cls"]}, "file_level_comment": False, "_result": r})
    if pid in ("C01", "C02"):
        # sequences of every length (0, 1, 3 items), and for the tables with a declared number of items also a declared number
        # that is smaller than the number of items present (the declared number is a value like any other, nothing is cut off)
        import re
        for c in [c for c in pres.prints("CASE") if c["k"] == "seqlen"]:
            t = pc.concretise(c)
            variants = [("declared-as-generated", t)]
            if c["n"] == 3 and c["e"] in ("COMPU_TAB", "COMPU_VTAB", "COMPU_VTAB_RANGE"):
                for cnt in ("0", "1"):
                    nth = 3 if c["e"] == "COMPU_VTAB_RANGE" else 4        # name, long identifier, (conversion type,) declared number
                    m0 = re.search(r"/begin " + c["e"] + r"((?:\s+(?:\"[^\"]*\"|\S+)){" + str(nth - 1) + r"}\s+)(\S+)", t)
                    if m0:
                        variants.append((f"declared-{cnt}-of-3", t[:m0.start(2)] + cnt + t[m0.end(2):]))
            for name, tv in variants:
                docs.append((tv, False))
                meta.append({"e": "seqlen:" + c["e"], "pat": {"fam": "seqlen", "cmt": f"{c['n']} items/{name}"}, "file_level_comment": False})
    results = pc.run_loads(binp, [d for d, m in zip(docs, meta) if "_result" not in m], pid, want=("write", "cycle", "file") if pid == "C01" else ("write", "cycle"))
    fresh = iter(results)
    results = [m.pop("_result") if "_result" in m else next(fresh) for m in meta]
    events, idx = [], []
    nbad = 0
    for i, r in enumerate(results):
        if "panic" in r or "write_panic" in r:
            rep.violation(f"layout:panic:{meta[i]['pat']['fam']}", f"panic: {r.get('panic') or r.get('write_panic')}", {"kind": "doc", "meta": meta[i], "text": docs[i][0]})
            continue
        # the documents are valid by construction (and load cleanly on the pinned tree): a refusal or a diagnostic means
        # that the library reads something else than what the document says
        if not r.get("ok"):
            nbad += 1
            rep.violation(f"layout:ValidDocumentRefused:{meta[i]['pat']['fam']}", f"a valid document is refused ({meta[i]['e']}, {meta[i]['pat']}): {r.get('e')}", {"kind": "doc", "meta": meta[i], "text": docs[i][0]})
            continue
        if r.get("diags") and meta[i]["pat"]["fam"] != "value":
            nbad += 1
            rep.violation(f"layout:ValidDocumentDiagnosed:{meta[i]['pat']['fam']}:{r['diags'][0][0]}", f"a valid document loads with diagnostics ({meta[i]['e']}, {meta[i]['pat']}): {r['diags'][:2]}", {"kind": "doc", "meta": meta[i], "text": docs[i][0]})
            continue
        events.append(layoutlib.doc_event(docs[i][0], r))
        idx.append(i)
    p = os.path.join(vlib.scratch(), f"layout_events_{pid}.ndjson")
    vlib.write_ndjson(p, events)
    tr = vlib.tlc("Trace_Layout", cfg=f"Trace_Layout_{pid}", workers=1, dfs=True, coverage=False, env={"TRACE": p}, timeout=3000, heap="8g", expect_violation=True)
    if not tr.ok:
        vlib.tool_error(f"Trace_Layout did not consume all events: {tr.errors[:3]}")
    import re
    cur, rejected = [], {}
    for line in tr.raw_lines("<<"):
        m = re.match(r'<<"FAILED", "([^"]+)">>', line)
        if m:
            cur.append(m.group(1))
            continue
        m = re.match(r'<<"REJECT", (\d+)>>', line)
        if m:
            rejected[idx[int(m.group(1)) - 1]] = cur or ["?"]
            cur = []
    for k, names in sorted(rejected.items()):
        m = meta[k]
        if m["file_level_comment"] and set(names) <= {"SameNumberOfTokens", "LinePreserved"}:
            sig = "layout:file-level-comment"
        else:
            sig = f"layout:{'+'.join(names)}:{m['pat']['fam']}:{m['pat']['cmt']}"
        rep.violation(sig, f"{names} violated for {m['e']} under pattern {m['pat']}", {"kind": "doc", "meta": m, "text": docs[k][0]})
    binding = None
    if selftest or tier == "thorough":
        ev = json.loads(json.dumps(next(e for e in events if len(e["out"]) > 6)))
        ev["out"][5][1] += 1
        ev2 = json.loads(json.dumps(events[0]))
        ev2["cycles"][1]["text_eq"] = False
        ev3 = json.loads(json.dumps(events[0]))
        ev3["out"] = ev3["out"][:-1]
        p2 = os.path.join(vlib.scratch(), "layout_selftest.ndjson")
        vlib.write_ndjson(p2, [ev, ev2, ev3])
        outs = {}
        for j in ("C01", "C02", "C05"):
            t2 = vlib.tlc("Trace_Layout", cfg=f"Trace_Layout_{j}", workers=1, dfs=True, coverage=False, env={"TRACE": p2}, timeout=600, expect_violation=True)
            outs[j] = [int(x.split(",")[1].strip(" >")) for x in t2.raw_lines('<<"REJECT"')]
        binding = {"moved_token_rejected_by_C05": 1 in outs["C05"], "text_drift_rejected_by_C01": 2 in outs["C01"], "lost_token_rejected_by_C02": 3 in outs["C02"]}
        if not all(binding.values()):
            vlib.tool_error(f"binding selftest failed: {binding} {outs}")
    # edits through the API (C05: edit locality; C01: models built / edited through the API): Edit.tla
    edit_cov = None
    if pid in ("C01", "C05"):
        import editcheck
        me = vlib.tlc("MC_Edit", cfg="MC_Edit_Thorough" if tier == "thorough" else "MC_Edit", workers=8, coverage=False, timeout=1800)
        if me.violation:
            rep.violation(f"edit-spec:{me.violation}", "TLC: the writer order of Edit.tla does not give edit locality / reload equality", {"kind": "tlc-edit"})
        mu = vlib.tlc("MC_Edit", cfg="MC_Edit_Unstable", workers=4, coverage=False, timeout=900, expect_violation=True)
        if mu.violation != "ReloadEqual":
            vlib.tool_error("expected-violation configuration MC_Edit_Unstable did not fail")
        eev, erej, eops, etr = editcheck.run(pid, tier, rep, binp)
        if len(eev) < 300:
            vlib.tool_error(f"vacuity: only {len(eev)} edits")
        edit_cov = {"abstract_states": me.distinct, "edits_judged": len(eev), "edits_by_op": eops, "edits_rejected": len(erej),
                    "expected_violation_config": {"cfg": "MC_Edit_Unstable", "violated": mu.violation}}
        if selftest or tier == "thorough":
            if not editcheck.selftest(pid):
                vlib.tool_error("binding selftest of Trace_Edit failed")
            edit_cov["binding_mutation_rejected"] = True
    pair_cov = value_pairs(binp, rep, pid, tier) if pid == "C01" else None
    fams = {}
    for m in meta:
        fams[m["pat"]["fam"] + "/" + m["pat"]["cmt"]] = fams.get(m["pat"]["fam"] + "/" + m["pat"]["cmt"], 0) + 1
    cov = {
        "states": d1.distinct + res.distinct,
        "transitions": d1.generated + res.generated,
        "traces_validated_against_impl": len(events),
        "exhaustive": False,
        "evaluations": len(docs),
        "distinct_nontrivial": sum(1 for m in meta if m["pat"]["fam"] != "asis" or m["pat"]["cmt"] != "none"),
        "rule": "every element of the grammar (205) x seeded layout patterns from MC_LayoutCases (49500 patterns: family x two gap changes x comment kind and position); each document is loaded strictly, written and cycled three times; non-trivial = not the as-is layout without comment",
        "samples": [{"meta": meta[0], "text": docs[0][0][:400]}],
        "abstract_documents_checked": d1.distinct,
        "patterns_available": len(pats),
        "layouts_run": fams,
        "value_class_loads": nvalue,
        "value_class_rejections": len(vrej),
        "expected_violation_config": {"cfg": "MC_Layout_D3", "violated": d3.violation},
        "events_rejected": len(rejected),
    }
    if binding:
        cov["binding_mutations_rejected"] = binding
    if pair_cov:
        cov["equality_on_twin_documents"] = pair_cov
    if edit_cov:
        cov["api_edits"] = edit_cov
        cov["traces_validated_against_impl"] += edit_cov["edits_judged"]
    vlib.write_evidence(pid, tier, "model_checking", cov, assumptions, time.time() - t0, rep.count_new)
    return rep.exit_code()


def replay(pid, path):
    with open(path) as f:
        r = json.load(f)
    rep = vlib.Reporter(pid)
    binp = vlib.build_harness()
    case = r["case"]
    if case.get("kind") == "pair":
        pr = case["pair"]
        inp = os.path.join(vlib.scratch(), "pair_replay.ndjson")
        outp = os.path.join(vlib.scratch(), "pair_replay.out")
        vlib.write_ndjson(inp, [{"id": 0, "text": pr["text"], "text2": pr["text2"], "strict": True, "want": []}])
        vlib.run_harness(binp, ["load-op", "--cases", inp, "--out", outp])
        with open(outp) as f:
            r = json.loads(f.readline())
        x = r.get("pair", {})
        if x.get("loads") and (bool(x["eq"]) != pr["same"] or x["eq"] != x["eq_rev"]):
            rep.violation("pair:EqualityIsByValue", f"== says {x['eq']} for documents that differ in {pr['tok']} / {pr['twin']}", case)
    elif case.get("kind") == "edit":
        import editcheck
        editcheck.replay_case(pid, case, rep, binp)
    elif case.get("kind") == "tlc-edit":
        me = vlib.tlc("MC_Edit", cfg="MC_Edit", workers=8, coverage=False, timeout=1800, expect_violation=True)
        if me.violation:
            rep.violation(f"edit-spec:{me.violation}", "TLC property violated", case)
    elif case.get("kind") == "tlc":
        d1 = vlib.tlc("MC_Layout", workers=12, coverage=False, timeout=900, expect_violation=True)
        if d1.violation:
            rep.violation(f"layout-spec:{d1.violation}", "TLC property violated", case)
    else:
        results = pc.run_loads(binp, [(case["text"], True)], "replay", want=("write", "cycle"))
        x = results[0]
        if "panic" in x or "write_panic" in x:
            rep.violation("layout:panic", str(x.get("panic") or x.get("write_panic")), case)
        elif x.get("ok"):
            ev = layoutlib.doc_event(case["text"], x)
            p = os.path.join(vlib.scratch(), "layout_replay.ndjson")
            vlib.write_ndjson(p, [ev])
            tr = vlib.tlc("Trace_Layout", cfg=f"Trace_Layout_{pid}", workers=1, dfs=True, coverage=False, env={"TRACE": p}, timeout=600, expect_violation=True)
            if list(tr.raw_lines('<<"REJECT"')):
                rep.violation("layout:relation", "relation violated", case)
    print("replay:", "violation reproduced" if rep.new else "no violation")
    return rep.exit_code()
