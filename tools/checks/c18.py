"""C18 - IF_DATA is interpreted exactly as the applicable A2ML definition says.

A grammar-based generator (tools/a2mlgen.py) produces well-formed, LL(1)-unambiguous A2ML definitions
(named and anonymous types, references to earlier types, all ten scalar types, arrays incl. char[n],
enums with and without values, repeated members, blocks, sequences; depth <= 4) as abstract declaration
lists.  For each definition:

 1. type tree: the text rendered from the declaration list is parsed by the library (hook
    verif::parse_a2ml); the tree it built must equal Resolve(decls) of A2ml.tla (scoping of named types,
    one name space per kind, repeat / block flags, array nesting, members without type).  Definitions
    with a reference to an undeclared name must be refused.
 2. IF_DATA: conforming instances and single-token deviations are placed at the eleven IF_DATA sites of
    the grammar; the documents are loaded with the definition in the file's A2ML block, as built-in
    specification, or both (two different definitions), strict and lenient.  Every block is an event of
    Trace_A2ml: the tokens of the block (from the real tokenizer), the definitions in force and the
    observed outcome.  A2ml.tla (type-directed parser, cursor restore, fallback) must produce the same
    validity flag, diagnostics, error class and line; its value tree is compared leaf by leaf with the
    stored values (integer value and notation, f32 / f64 value, unescaped string, enum item, nesting).
    A conforming instance must be valid whatever the model says (ConformingIsValid).
 3. write / reload: the written text has the same significant tokens as the input with exactly equal
    numeric values; three load -> write cycles are stable.
 4. ifdata_cleanup(): the blocks left are exactly the valid ones, at every site (CleanupVerdict), and
    the text written afterwards is the input minus the tokens of the removed blocks.
"""
import json
import os
import random
import re
import time

import a2ldoc
import a2mlgen as ag
import layoutlib
import vlib

PID = "C18"


def judge_events(events, tag, chunk=60000):
    """Trace_A2ml over the events, in chunks (one TLC run each); returns (rejected {index: [names]}, trees {index: tree},
    the TlcResult of the last chunk with the counters of all chunks added up)"""
    rejected, trees = {}, {}
    tr_all, distinct, generated = None, 0, 0
    for base in range(0, max(1, len(events)), chunk):
        part = events[base:base + chunk]
        p = os.path.join(vlib.scratch(), f"a2ml_events_{tag}_{base}.ndjson")
        vlib.write_ndjson(p, part)
        tr = vlib.tlc("Trace_A2ml", workers=1, dfs=True, coverage=False, env={"TRACE": p}, timeout=3400, heap="12g", expect_violation=True)
        if not tr.ok:
            vlib.tool_error(f"Trace_A2ml did not consume all events: {tr.errors[:3]}")
        cur = []
        for line in tr.raw_lines("<<"):
            m = re.match(r'<<"FAILED", "([^"]+)">>', line)
            if m:
                cur.append(m.group(1))
                continue
            m = re.match(r'<<"REJECT", (\d+)>>', line)
            if m:
                rejected[base + int(m.group(1)) - 1] = cur or ["?"]
                cur = []
                continue
            m = re.match(r'<<"TREE", (\d+), (".*")>>$', line)
            if m:
                trees[base + int(m.group(1)) - 1] = json.loads(json.loads(m.group(2)))
        distinct += tr.distinct or 0
        generated += tr.generated or 0
        tr_all = tr
        os.remove(p)
    tr_all.distinct, tr_all.generated = distinct, generated
    return rejected, trees, tr_all


def sig_tokens(text):
    return [t for t in layoutlib.simple_tokens(text.replace("\r\n", "\n")) if t[0] != "cmt"]


FLOATS_IN_FORCE = [False]


def exact_equiv(a, b):
    """token equivalence with exactly equal numeric values (and the same notation of integers unless a float
    member may have taken the literal: a hex literal in a float member is written as a decimal number)"""
    if a[0] != b[0]:
        return False
    if a[0] == "num":
        ia, ib = a2ldoc.int_value(a[1]), a2ldoc.int_value(b[1])
        if ia is not None and ib is not None and ia[0] == ib[0]:
            return ia[1] == ib[1] or FLOATS_IN_FORCE[0]
        if not FLOATS_IN_FORCE[0] and ia is not None and ib is not None:
            return False
        try:
            fa = float(int(a[1], 16)) if a[1][:2] in ("0x", "0X") else float(a[1])
            fb = float(int(b[1], 16)) if b[1][:2] in ("0x", "0X") else float(b[1])
        except ValueError:
            return False
        # (a float member holds an f32: any text that denotes the same f32 and is not longer is the same value)
        return fa == fb or FLOATS_IN_FORCE[0] and ag._f32(fa) == ag._f32(fb) and len(b[1].rstrip("0")) <= len(a[1]) + 1
    return layoutlib.equivalent(a, b)


def first_token_diff(tin, tout, lenient_lines=()):
    """lenient_lines: lines with an UnexpectedTokenType diagnostic (an identifier was tolerated in place of a
    string; it is written as the string it was taken for)"""
    for i, (a, b) in enumerate(zip(tin, tout)):
        if a[0] == "id" and b[0] == "str" and b[1] == '"' + a[1] + '"' and a[2] in lenient_lines:
            continue
        if not exact_equiv(a, b):
            return f"token {i}: {a[1][:40]!r} (line {a[2]}) written as {b[1][:40]!r}"
    if len(tin) != len(tout):
        return f"{len(tin)} tokens in, {len(tout)} tokens out"
    return None


def integral_float_sensitive(blocks, toks, ndefs):
    """known finding D22: a float literal with an integral value (88036.0) is written as 88036.  Where the notation
    decides how the number is read - content that no definition describes, or two definitions in force that type the
    position differently - the number comes back as an integer"""
    for b in blocks:
        if b["valid"] and ndefs < 2:
            continue
        for t in toks[b["slice"][0]:b["slice"][1]]:
            if t[0] == "num" and t[1][:2] not in ("0x", "0X") and any(c in t[1] for c in ".eE"):
                try:
                    v = float(t[1])
                except ValueError:
                    continue
                if v == int(v) and abs(v) < 2 ** 64:
                    return True
    return False


class Plan:
    """the documents of one run and what is known about each IF_DATA block"""

    def __init__(self):
        self.docs = []          # harness cases
        self.meta = []          # per doc: {"defs": [decls..], "blocks": [{"site", "conf", "what", "tokens"}], "strict"}
        self.types = []         # (decls, expect_ok, label)

    def add_doc(self, infile, builtin, blocks, strict, label):
        text = ag.document(ag.render(infile) if infile is not None else None, [(b["site"], b["tokens"]) for b in blocks])
        case = {"id": len(self.docs), "text": text, "strict": strict, "want": ["tokens", "ifdata", "cleanup", "write", "cycle"]}
        if builtin is not None:
            case["a2ml"] = ag.render(builtin)
        self.docs.append(case)
        self.meta.append({"defs": ([builtin] if builtin is not None else []) + ([infile] if infile is not None else []),
                          "blocks": blocks, "strict": strict, "label": label})


def break_reference(decls, rng):
    """a copy of the declaration list in which one reference names an undeclared type (or None)"""
    d = json.loads(json.dumps(decls))
    refs = []

    def visit(t):
        if t["k"] in ag.SCALARS:
            return
        if t.get("ref"):
            refs.append(t)
        elif t["k"] == "struct":
            for m in t["ms"]:
                visit(m["t"])
        elif t["k"] in ("ts", "tu"):
            for g in t["tags"]:
                if g["hasdef"]:
                    visit(g["m"]["t"])
    for x in d:
        visit(x["t"] if x["d"] == "type" else x["m"]["t"])
    if not refs:
        return None
    r = rng.choice(refs)
    mode = rng.random()
    if mode < 0.5:
        r["name"] = r["name"] + "_undeclared"
    else:
        # the name exists, but in another name space
        r["k"] = {"enum": "struct", "struct": "ts", "ts": "tu", "tu": "enum"}[r["k"]]
    return d


def fixed_definitions():
    """definitions that are part of every run: the hand-written specifications of C19 (every construct) and shapes that
    earlier seeded changes needed"""
    import gen_typed as gt
    S, M, TG, ST, EN, TS = gt.S, gt.M, gt.TG, gt.ST, gt.EN, gt.TS
    out = [d for _, d, _ in gt.hand_written()]
    # a sequence of structs that begin with an enum item / a tagged struct and hold a string further back
    out.append([{"d": "block", "tag": "IF_DATA", "seq": False, "m": M(TS("", kind="tu", *[
        TG("S", M(ST("Rec", M(EN("", ("A", None), ("B", 3))), M(S("char"), 8), M(S("uint")))), seq=True),
        TG("U", M(ST("Rec2", M(TS("", TG("K", M(S("uint"))))), M(S("char"), 4))), block=True, seq=True),
        TG("T", M(S("uint")))]))}])
    # one identifier in three name spaces
    out.append([{"d": "type", "t": ST("Daq", M(S("uint")), M(S("char"), 8))},
                {"d": "type", "t": EN("Daq", ("P", None), ("Q", 1))},
                {"d": "type", "t": TS("Daq", TG("X", M(ST("Daq", ref=True))), TG("Y", M(EN("Daq", ref=True)), repeat=True))},
                {"d": "type", "t": TS("Daq", TG("V", M(S("long"))), kind="tu")},
                {"d": "block", "tag": "IF_DATA", "seq": False, "m": M(ST("", M(ST("Daq", ref=True)), M(EN("Daq", ref=True)), M(TS("Daq", ref=True)), M(TS("Daq", kind="tu", ref=True))))}])
    for d in out:
        ok, t = ag.resolve(d)
        if not ok or not ag.unambiguous(t):
            vlib.tool_error("a fixed definition is not well-formed / unambiguous")
    return out


WIDER = {"uchar": ["uint", "ulong", "uint64"], "uint": ["ulong", "uint64"], "ulong": ["uint64"], "char": ["int", "long", "int64"],
         "int": ["long", "int64"], "long": ["int64"], "float": ["double"]}


def widened(decls, rng):
    """a copy of the declaration list in which one scalar has a wider type of the same signedness (every value that
    conforms to the original conforms to the copy), or None"""
    d = json.loads(json.dumps(decls))
    spots = []

    def visit(t):
        if t["k"] in ag.SCALARS:
            if t["k"] in WIDER:
                spots.append(t)
            return
        if t.get("ref"):
            return
        if t["k"] == "struct":
            for m in t["ms"]:
                if not (m["t"]["k"] == "char" and m["dims"]):
                    visit(m["t"])
        elif t["k"] in ("ts", "tu"):
            for g in t["tags"]:
                if g["hasdef"] and not (g["m"]["t"]["k"] == "char" and g["m"]["dims"]):
                    visit(g["m"]["t"])
    for x in d:
        m = x["t"] if x["d"] == "type" else x["m"]["t"]
        if x["d"] == "block" and x["m"]["t"]["k"] == "char" and x["m"]["dims"]:
            continue
        visit(m)
    if not spots:
        return None
    t = rng.choice(spots)
    t["k"] = rng.choice(WIDER[t["k"]])
    ok, ty = ag.resolve(d)
    return d if ok and ag.unambiguous(ty) else None


def build_plan(tier, rng):
    plan = Plan()
    ndefs = 60 if tier == "quick" else 10000
    gen = ag.DefGen(rng)
    prev = None
    fixed = fixed_definitions()
    for di in range(ndefs):
        gen.max_depth = rng.choice([1, 2, 3, 4])
        decls = fixed[di] if di < len(fixed) else gen.definition()
        ok, ty = ag.resolve(decls)
        plan.types.append((decls, True, f"def{di}"))
        bad = break_reference(decls, rng)
        if bad is not None:
            plan.types.append((bad, False, f"def{di}-badref"))
        # instances and deviations
        blocks, single = [], []
        for i in range(8):
            blocks.append({"site": ag.SITES[(di + i) % 11], "conf": True, "what": "conforming", "tokens": ag.instance(ty, rng)})
        for i in range(8):
            toks, what, balanced = ag.deviate(ag.instance(ty, rng), rng)
            b = {"site": ag.SITES[(di + 8 + i) % 11], "conf": what == "comment", "what": what, "tokens": toks}
            (blocks if balanced else single).append(b)
        for i in range(3):
            toks, flipped = ag.instance_wrong_blockform(ty, rng)
            if flipped:
                blocks.append({"site": ag.SITES[(di + i) % 11], "conf": False, "what": "blockform", "tokens": toks})
        rng.shuffle(blocks)
        plan.add_doc(decls, None, blocks, False, f"def{di}/infile")
        plan.add_doc(decls, None, blocks, True, f"def{di}/infile-strict")
        plan.add_doc(None, decls, blocks, False, f"def{di}/builtin")
        if prev is not None:
            ty2 = ag.resolve(prev)[1]
            mixed = [dict(b) for b in blocks[:6]] + [{"site": ag.SITES[(di + i) % 11], "conf": True, "what": "conforming-other", "tokens": ag.instance(ty2, rng)} for i in range(4)]
            plan.add_doc(prev, decls, mixed, rng.random() < 0.3, f"def{di}/builtin+other-infile")
        for b in single:
            plan.add_doc(decls, None, [b], False, f"def{di}/single-{b['what']}")
        # two definitions that both accept the content but type it differently (a scalar widened): the built-in one is
        # tried first, in either assignment
        wide = widened(decls, rng)
        if wide is not None and di % 2 == 0:
            conf = [dict(b) for b in blocks if b["what"] == "conforming"][:6]
            plan.add_doc(wide, decls, conf, False, f"def{di}/builtin+widened-infile")
            plan.add_doc(decls, wide, conf, False, f"def{di}/widened-builtin+infile")
        # content that no definition describes
        if di % 5 == 0:
            raw = [{"site": ag.SITES[(di + i) % 11], "conf": False, "what": "undescribed",
                    "tokens": rng.choice([["RAW", "1", "0x1FFFFFFFF", "4294967297", "0.1", "-7", "1e30", '"s"', "idnt", "/begin", "B", "2", "/begin", "C", "/end", "C", "/end", "B"],
                                          ["1", "2", '"x"'], [], ["/begin", "Q", "/end", "Q"], ["TAG_ONLY"],
                                          ["RAW", "/begin", "B", "1", "/end", "B", "/* c */", "/begin", "B", "2", "/end", "B", "// c\n"],
                                          ["/* c */", "RAW", "1", "/* c */"],
                                          ["X", "18446744073709551615", "-9223372036854775808", "0xFFFFFFFFFFFFFFFF", "123456789.123456789"]])}
                   for i in range(6)]
            plan.add_doc(None, None, raw, False, f"def{di}/no-definition")
        prev = decls
    return plan


def block_line_ranges(tokens, slices):
    out = []
    for (a, b) in slices:
        lo = tokens[a - 1][2]
        hi = tokens[b - 1][2] if b - 1 < len(tokens) else tokens[-1][2]
        out.append((lo, hi))
    return out


def process(plan, rep, binp):
    """run the plan through the library and judge everything; returns the collected facts"""
    # 1. type trees (hook)
    tcases = [{"id": i, "text": "", "strict": False, "a2ml": ag.render(d), "want": ["a2mltree"]} for i, (d, _, _) in enumerate(plan.types)]
    inp = os.path.join(vlib.scratch(), "c18_types.ndjson")
    outp = os.path.join(vlib.scratch(), "c18_types.out")
    vlib.write_ndjson(inp, tcases)
    rc, _, err = vlib.run_harness(binp, ["load-op", "--cases", inp, "--out", outp], timeout=1200)
    if rc != 0:
        vlib.tool_error(f"load-op failed rc={rc}: {err[-500:]}")
    tres = [json.loads(l) for l in open(outp) if l.strip()]
    events, emeta = [], []
    for (decls, expect_ok, label), r in zip(plan.types, tres):
        o = r.get("a2mltree_builtin", {})
        if "panic" in o:
            rep.violation("type:panic", f"parse_a2ml panicked on {label}: {o['panic']}", {"kind": "type", "decls": decls, "text": ag.render(decls)})
            continue
        obs = {"ok": True, "t": ag.norm_type(o["tree"])} if o.get("ok") else {"ok": False}
        events.append({"ty": 1, "decls": decls, "obs": obs})
        emeta.append(("type", label, decls, None))

    # 2. documents
    inp = os.path.join(vlib.scratch(), "c18_docs.ndjson")
    outp = os.path.join(vlib.scratch(), "c18_docs.out")
    vlib.write_ndjson(inp, plan.docs)
    dres, hangs = vlib.run_cases_resilient(binp, "load-op", inp, outp, len(plan.docs))
    for r in dres:
        if r.get("hang") and not r.get("not_run"):
            r["panic"] = "load / write / cleanup did not return (hang, no progress for 20 s)"
    nblocks = nconf = 0
    observed_values = {}
    for case, meta, r in zip(plan.docs, plan.meta, dres):
        replay = {"kind": "doc", "label": meta["label"], "text": case["text"], "a2ml": case.get("a2ml"), "strict": case["strict"],
                  "defs": meta["defs"], "blocks": meta["blocks"]}
        if r.get("not_run"):
            continue
        if "panic" in r or "tokens" not in r:
            rep.violation("doc:hang" if r.get("hang") else "doc:panic", f"load panicked or did not tokenize ({meta['label']}): {r.get('panic') or r.get('tok_error')}", replay)
            continue
        toks = [tuple(t) for t in r["tokens"]]
        slices = ag.ifdata_slices(toks)
        single = "/single-" in meta["label"]
        if single:
            # content that is not balanced: the parser runs on into the rest of the document, so the whole document is
            # judged (Run of Parser.tla with the definitions of the document) instead of the block alone
            if r.get("ok"):
                out = {"ok": True, "diags": [[d[0], d[1]] for d in r["diags"]]}
            else:
                out = {"ok": False, "e": [r["e"][0], r["e"][1]]}
            ddefs = [{"decls": d, "infile": case.get("a2ml") is None} for d in meta["defs"]]
            events.append({"doc": 1, "toks": ag.tokens_event(toks), "strict": case["strict"], "ddefs": ddefs, "out": out})
            emeta.append(("doc", meta["label"], meta["blocks"][0], replay))
            nblocks += 1
            continue
        if len(slices) != len(meta["blocks"]) and r.get("ok"):
            vlib.tool_error(f"block bookkeeping: {len(slices)} slices, {len(meta['blocks'])} blocks in {meta['label']}")
        # blocks in document order: the document lists the sites in the order of a2mlgen.SITES
        order = sorted(range(len(meta["blocks"])), key=lambda i: (ag.SITES.index(meta["blocks"][i]["site"]), i))
        if not r.get("ok"):
            rep.violation(f"doc:error:{r['e'][0]}", f"a document with balanced IF_DATA blocks is refused ({meta['label']}): {r['e'][2]}", replay)
            continue
        FLOATS_IN_FORCE[0] = any(k in json.dumps(meta["defs"]) for k in ('"float"', '"double"'))
        ranges = block_line_ranges(toks, slices)
        per_site = {}
        obs_by = {(o["site"], o["idx"]): o for o in r["ifdata"]}
        if len(r["ifdata"]) != len(meta["blocks"]):
            rep.violation("doc:blockcount", f"{len(meta['blocks'])} IF_DATA blocks in the text, {len(r['ifdata'])} in the model ({meta['label']})", replay)
            continue
        claimed = set()
        cleanup_blocks = []
        for pos, bi in enumerate(order):
            b = meta["blocks"][bi]
            idx = per_site.get(b["site"], 0)
            per_site[b["site"]] = idx + 1
            o = obs_by[(b["site"], idx)]
            a, e = slices[pos]
            lo, hi = ranges[pos]
            diags = [[d[0], d[1]] for d in r["diags"] if lo <= d[1] <= hi]
            claimed |= {i for i, d in enumerate(r["diags"]) if lo <= d[1] <= hi}
            events.append({"toks": ag.tokens_event(toks[a:e]), "strict": case["strict"], "defs": meta["defs"], "conf": b["conf"],
                           "out": {"ok": True, "valid": o["valid"], "present": o["items"] is not None, "diags": diags}})
            emeta.append(("block", meta["label"], b, replay))
            observed_values[len(events) - 1] = o["items"]
            nblocks += 1
            nconf += 1 if b["conf"] else 0
            cleanup_blocks.append({"id": pos + 1, "valid": o["valid"], "site": b["site"], "items": o["items"], "slice": (a, e)})
        stray = [d for i, d in enumerate(r["diags"]) if i not in claimed]
        if stray:
            rep.violation(f"doc:stray-diag:{stray[0][0]}", f"diagnostic outside every IF_DATA block ({meta['label']}): {stray[0][2]}", replay)
        # 3. write / reload
        if "written" in r:
            lenient = {d[1] for d in r["diags"] if d[0] == "UnexpectedTokenType"}
            d = first_token_diff(sig_tokens(case["text"]), sig_tokens(r["written"]), lenient)
            if d:
                rep.violation("write:tokens", f"written text differs from the input ({meta['label']}): {d}", replay)
            # (where an identifier was tolerated in place of a string the written text has a string there: the input did
            # not conform and what the second load makes of the corrected text is not the subject of the property)
            for k, c in enumerate([] if lenient else r.get("cycle", [])):
                if c.get("load") != "ok" or not c.get("model_eq") or not c.get("text_eq"):
                    sig = "write:cycle"
                    if c.get("load") == "ok" and c.get("text_eq") and integral_float_sensitive(cleanup_blocks, toks, len(meta["defs"])):
                        sig = "write:cycle:uninterpreted-integral-float"
                    rep.violation(sig, f"load/write cycle {k + 1} is not stable ({meta['label']}): {c}", replay)
                    break
        elif "write_panic" in r:
            rep.violation("write:panic", f"write panicked ({meta['label']}): {r['write_panic']}", replay)
        # 4. cleanup
        if "cleanup_panic" in r:
            rep.violation("cleanup:panic", f"ifdata_cleanup panicked ({meta['label']}): {r['cleanup_panic']}", replay)
        elif "after_cleanup" in r:
            after, used = [], set()
            for o in r["after_cleanup"]:
                hit = next((b["id"] for b in cleanup_blocks if b["id"] not in used and b["site"] == o["site"] and b["items"] == o["items"]), -1)
                used.add(hit)
                after.append(hit)
            after.sort()
            events.append({"cleanup": 1, "blocks": [{"id": b["id"], "valid": b["valid"]} for b in cleanup_blocks], "after": after})
            emeta.append(("cleanup", meta["label"], None, replay))
            # text after cleanup = input minus the removed blocks
            drop = set()
            for b in cleanup_blocks:
                if not b["valid"]:
                    drop |= set(range(b["slice"][0] - 2, b["slice"][1]))
            kept = [t for i, t in enumerate(toks) if i not in drop and t[0] != "cmt"]
            want = sig_tokens(" ".join(t[1] for t in kept))
            got = sig_tokens(r["written_after_cleanup"])
            d = None
            want = [("str", '"' + x[1] + '"', x[2]) if x[0] == "id" and y[0] == "str" and y[1] == '"' + x[1] + '"' and lenient else x
                    for x, y in zip(want, got)] + want[len(got):]
            if len(want) != len(got):
                d = f"{len(want)} tokens expected, {len(got)} written"
            else:
                for i, (x, y) in enumerate(zip(want, got)):
                    if not exact_equiv(x, y):
                        d = f"token {i}: {x[1][:40]!r} vs {y[1][:40]!r}"
                        break
            if d:
                rep.violation("cleanup:text", f"text written after ifdata_cleanup is not the input minus the invalid blocks ({meta['label']}): {d}", replay)

    rejected, trees, tr = judge_events(events, PID)
    drift = []
    for k, names in sorted(rejected.items()):
        kind, label, b, replay = emeta[k]
        if kind == "type":
            rep.violation(f"type:{'+'.join(names)}", f"type tree of {label} differs from Resolve: {names}", {"kind": "type", "decls": b, "text": ag.render(b)})
        elif kind == "cleanup":
            rep.violation("cleanup:" + "+".join(names), f"ifdata_cleanup did not remove exactly the invalid blocks ({label}): {events[k]['blocks']} -> {events[k]['after']}", replay)
        elif kind == "doc":
            rep.violation(f"doc:{'+'.join(names)}:{b['what']}", f"document with unbalanced IF_DATA content ({b['what']}) of {label} disagrees with Parser.tla / A2ml.tla on {names}: tokens {' '.join(b['tokens'])[:200]}; observed {events[k]['out']}", dict(replay, block=b))
        elif names == ["Diagnostics"]:
            # which diagnostics an abandoned attempt leaves behind is not part of the property: the model is out of date
            drift.append(label)
        else:
            rep.violation(f"ifdata:{'+'.join(names)}:{b['what']}", f"IF_DATA block ({b['what']}, {b['site']}) of {label} disagrees with A2ml.tla on {names}: tokens {' '.join(b['tokens'])[:200]}; observed {events[k]['out']}", dict(replay, block=b))
    nvals = 0
    for k, tree in trees.items():
        if k in rejected:
            continue
        kind, label, b, replay = emeta[k]
        obs = observed_values.get(k)
        if tree["k"] == "absent":
            continue
        d = ag.value_diff(tree, ag.norm_value(obs), described=bool(events[k]["out"].get("valid")))
        nvals += 1
        if d:
            rep.violation(f"ifdata:value:{b['what']}", f"stored IF_DATA values differ from the tokens ({label}, {b['site']}): {d}", dict(replay, block=b))

    if drift:
        print(f"SPEC-DRIFT: {len(drift)} IF_DATA blocks carry other diagnostics than A2ml.tla predicts (validity, values, text agree); first: {drift[0]}", flush=True)
    return dict(events=events, emeta=emeta, rejected=rejected, trees=trees, tr=tr, nblocks=nblocks, nvals=nvals, drift=drift)


def run(tier, selftest):
    t0 = time.time()
    rep = vlib.Reporter(PID)
    binp = vlib.build_harness()
    rng = random.Random(vlib.seed() * 18 + 18)
    plan = build_plan(tier, rng)

    facts = process(plan, rep, binp)
    events, emeta, rejected, trees, tr = facts["events"], facts["emeta"], facts["rejected"], facts["trees"], facts["tr"]
    nblocks, nvals, drift = facts["nblocks"], facts["nvals"], facts["drift"]
    binding = None
    if selftest or tier == "thorough":
        i0 = next(i for i, e in enumerate(events) if "toks" in e and "doc" not in e and e["out"]["ok"] and e["out"]["valid"])
        e1 = json.loads(json.dumps(events[i0]))
        e1["out"]["valid"] = False
        i1 = next(i for i, e in enumerate(events) if "ty" in e and e["obs"]["ok"] and e["obs"]["t"]["k"] in ("tu", "ts"))
        e2 = json.loads(json.dumps(events[i1]))
        e2["obs"]["t"]["tags"][0]["block"] = not e2["obs"]["t"]["tags"][0]["block"]
        i2 = next(i for i, e in enumerate(events) if "cleanup" in e and any(not b["valid"] for b in e["blocks"]))
        e3 = json.loads(json.dumps(events[i2]))
        e3["after"] = [b["id"] for b in e3["blocks"]]
        rj, _, _ = judge_events([e1, e2, e3], "selftest")
        binding = {"flipped_valid_flag_rejected": 0 in rj, "flipped_block_flag_in_type_tree_rejected": 1 in rj, "cleanup_that_removes_nothing_rejected": 2 in rj}
        if not all(binding.values()):
            vlib.tool_error(f"binding selftest failed: {binding}")

    whats = {}
    for kind, _, b, _ in emeta:
        if kind in ("block", "doc"):
            whats[b["what"]] = whats.get(b["what"], 0) + 1
    nvalid = sum(1 for e in events if "toks" in e and "doc" not in e and e["out"]["ok"] and e["out"]["valid"])
    ninvalid = sum(1 for e in events if "toks" in e and "doc" not in e and e["out"]["ok"] and not e["out"]["valid"])
    if nvalid < 100 or ninvalid < 100:
        vlib.tool_error(f"vacuity: {nvalid} valid / {ninvalid} invalid blocks")
    cov = {
        "states": tr.distinct,
        "transitions": tr.generated,
        "traces_validated_against_impl": len(events),
        "exhaustive": False,
        "evaluations": len(events),
        "distinct_nontrivial": nblocks,
        "rule": "random well-formed LL(1)-unambiguous A2ML definitions (depth <= 4) x (type tree via hook; 8 conforming + 8 deviating IF_DATA instances over the 11 sites; definition in file / built-in / both; strict and lenient); every block judged by A2ml.tla, value trees compared leaf by leaf, write/reload and ifdata_cleanup per document",
        "samples": [{"a2ml": ag.render(plan.types[0][0])[:600]}, {"block": " ".join(plan.meta[0]["blocks"][0]["tokens"])[:300]}],
        "definitions": sum(1 for t in plan.types if t[1]),
        "definitions_with_broken_reference": sum(1 for t in plan.types if not t[1]),
        "documents": len(plan.docs),
        "blocks_by_kind": whats,
        "blocks_valid": nvalid,
        "blocks_invalid": ninvalid,
        "value_trees_compared": nvals,
        "events_rejected": len(rejected),
        "spec_drift_diagnostics_only": len(drift),
    }
    if binding:
        cov["binding_mutations_rejected"] = binding
    vlib.write_evidence(PID, tier, "model_checking", cov, [
        "definitions are LL(1)-unambiguous (the first tokens of a sequence item / tagged item never coincide with what may follow); for ambiguous definitions the greedy reading of A2ml.tla is the reference and ConformingIsValid is not demanded",
        "a tagged item without `*` that occurs twice is accepted by the library and by the model (multiplicity is not checked); instances do not repeat such items",
        "float members hold at most 6 significant digits, double members at most 15",
        "named types are declared at the top level before use",
    ], time.time() - t0, rep.count_new)
    return rep.exit_code()


def replay(path):
    with open(path) as f:
        r = json.load(f)
    c = r["case"]
    rep = vlib.Reporter(PID)
    binp = vlib.build_harness()
    if c["kind"] == "type":
        inp = os.path.join(vlib.scratch(), "c18_replay.ndjson")
        outp = os.path.join(vlib.scratch(), "c18_replay.out")
        vlib.write_ndjson(inp, [{"id": 0, "text": "", "strict": False, "a2ml": c["text"], "want": ["a2mltree"]}])
        vlib.run_harness(binp, ["load-op", "--cases", inp, "--out", outp])
        o = json.loads(open(outp).readline()).get("a2mltree_builtin", {})
        obs = {"ok": True, "t": ag.norm_type(o["tree"])} if o.get("ok") else {"ok": False}
        rj, _, _ = judge_events([{"ty": 1, "decls": c["decls"], "obs": obs}], "replay")
        if rj:
            rep.violation("type:" + "+".join(rj[0]), "type tree differs from Resolve", c)
    else:
        # the document again, through the same procedure as in run()
        plan = Plan()
        case = {"id": 0, "text": c["text"], "strict": c["strict"], "want": ["tokens", "ifdata", "cleanup", "write", "cycle"]}
        if c.get("a2ml"):
            case["a2ml"] = c["a2ml"]
        plan.docs.append(case)
        plan.meta.append({"defs": c.get("defs", []), "blocks": c.get("blocks", []), "strict": c["strict"], "label": c.get("label", "replay")})
        process(plan, rep, binp)
    print("replay:", "violation reproduced" if rep.new else "no violation")
    return rep.exit_code()
