"""C07 - non-strict recovery is local: unknown elements are skipped, nothing else changes.

MC_ParserCases enumerates, for each of the 40 blocks that admit optional sub-elements, documents
with 0, 1, 2 sub-elements, every insertion point and 12 payload shapes (keyword with 0-3 scalar
arguments of each token class, block empty / with scalars / with one and two levels of nested
unknown blocks / with known tags inside / with comments).  The property's exclusions are generator
constraints (payload tags outside the stop list, no bare keyword payload behind an open-ended
identifier list).  Every document (base, with payload; lenient and strict) is validated against
Parser.tla - whose SkipUnknown transcribes handle_unknown_taggedstruct_tag with its balance and
stop-list logic - and the relation of the property (SkipVerdict) is evaluated on the observed
outcomes: lenient loads with exactly one more warning, of class UnknownSubBlock naming the
element, the model equals the model of the base document; strict rejects with UnknownSubBlock
naming the element.
"""
import json
import random
import time

import parsercases as pc
import vlib
from checks import c04

PID = "C07"


def run(tier, selftest):
    t0 = time.time()
    rep = vlib.Reporter(PID)
    binp = vlib.build_harness()
    res = vlib.tlc("MC_ParserCases", workers=8, coverage=False, timeout=900)
    cases = [c for c in res.prints("CASE") if c["k"] == "skip"]
    if len(cases) < 2000:
        vlib.tool_error(f"vacuity: only {len(cases)} skip cases")
    rng = random.Random(vlib.seed() * 7 + 7)
    # the stop-list family (a keyword payload in front of every sub-element of every block) always runs completely
    sel = cases if tier == "thorough" else [c for c in cases if c.get("next", "-") != "-" or rng.random() < 0.2]
    docs, meta = [], []
    for c in sel:
        base, withp, ok = pc.skip_documents(c)
        if not ok:
            continue
        docs += [(base, False), (withp, False), (withp, True)]
        meta += [c, c, c]
    results = pc.run_loads(binp, docs, PID)
    events = [pc.load_event(r, s, None) for r, (t, s) in zip(results, docs)]
    for i in range(0, len(results), 3):
        rb, rn, rs = results[i], results[i + 1], results[i + 2]
        if any("panic" in r or "ok" not in r for r in (rb, rn, rs)):
            events.append(None)
            continue
        extra = [d for d in rn.get("diags", []) if d[0] == "UnknownSubBlock"]
        events.append({"skip": True, "base": pc.outcome_of(rb), "n": pc.outcome_of(rn), "s": pc.outcome_of(rs),
                       "modelEq": bool(rb.get("ok") and rn.get("ok") and pc.strip_layout(rb.get("tree")) == pc.strip_layout(rn.get("tree"))),
                       "warningNamesTag": any("UNKNOWN_X" in d[2] for d in extra),
                       "strictNamesTag": bool(rs.get("e") and "UNKNOWN_X" in rs["e"][2])})
    rejected, trees, tr, njudged = pc.judge_events(events, PID)
    nload = len(docs)
    for i, r in enumerate(results):
        if "panic" in r:
            rep.violation(f"skip:panic:{meta[i]['payload']}", f"load panicked: {r['panic']}", {"kind": "doc", "case": meta[i], "text": docs[i][0], "strict": docs[i][1]})
    for k, names in sorted(rejected.items()):
        if k < nload:
            c = meta[k]
            r = results[k]
            rep.violation(f"skip:{'+'.join(names)}:{c['payload']}",
                          f"{'strict' if docs[k][1] else 'lenient'} load disagrees with Parser.tla on {names} (case {c}); observed {json.dumps(r.get('e') or [d[:2] for d in r.get('diags', [])])[:300]}",
                          {"kind": "doc", "case": c, "text": docs[k][0], "strict": docs[k][1]})
        else:
            j = (k - nload) * 3
            c = meta[j]
            rep.violation(f"skip:{'+'.join(names)}:{c['payload']}", f"unknown element is not skipped locally: {names} (case {c})",
                          {"kind": "skip", "case": c, "text": docs[j + 1][0]})
    binding = None
    if selftest or tier == "thorough":
        ev = json.loads(json.dumps(next(e for e in events[nload:] if e)))
        ev["modelEq"] = False
        ev2 = json.loads(json.dumps(next(e for e in events[nload:] if e)))
        ev2["n"]["diags"].append(["UnknownSubBlock", 3])
        rj, _, _, _ = pc.judge_events([ev, ev2], "selftest")
        binding = {"changed_model_rejected": 0 in rj, "second_warning_rejected": 1 in rj}
        if not all(binding.values()):
            vlib.tool_error(f"binding selftest failed: {binding}")
    payloads = {}
    for c in meta[::3]:
        payloads[c["payload"]] = payloads.get(c["payload"], 0) + 1
    cov = {
        "states": res.distinct,
        "transitions": res.generated,
        "traces_validated_against_impl": njudged,
        "exhaustive": tier == "thorough",
        "evaluations": len(docs),
        "distinct_nontrivial": len(docs) // 3,
        "rule": "40 blocks x (0,1,2 sub-elements) x insertion point x 12 payload shapes; each case = base document, document with payload (lenient, strict); every load validated against Parser.tla and every triple against SkipVerdict",
        "samples": [meta[0], {"text": docs[1][0][-400:]}],
        "blocks": len({c["e"] for c in meta}),
        "cases_per_payload": payloads,
        "events_rejected": len(rejected),
    }
    if binding:
        cov["binding_mutations_rejected"] = binding
    vlib.write_evidence(PID, tier, "model_checking", cov, [
        "exclusions of the property are generator constraints: payload tags are not in the stop list of the enclosing block; no bare keyword payload directly behind an open-ended identifier list (sub-elements ending in such a list are not used as neighbours)",
        "model equality is equality of the Debug trees of the base document and of the document with the payload",
    ], time.time() - t0, rep.count_new)
    return rep.exit_code()


def replay(path):
    with open(path) as f:
        r = json.load(f)
    rep = vlib.Reporter(PID)
    binp = vlib.build_harness()
    case = r["case"]
    if case["kind"] == "skip":
        base, withp, ok = pc.skip_documents(case["case"])
        docs = [(base, False), (withp, False), (withp, True)]
        results = pc.run_loads(binp, docs, "replay")
        rb, rn, rs = results
        extra = [d for d in rn.get("diags", []) if d[0] == "UnknownSubBlock"]
        ev = {"skip": True, "base": pc.outcome_of(rb), "n": pc.outcome_of(rn), "s": pc.outcome_of(rs),
              "modelEq": bool(rb.get("ok") and rn.get("ok") and pc.strip_layout(rb.get("tree")) == pc.strip_layout(rn.get("tree"))),
              "warningNamesTag": any("UNKNOWN_X" in d[2] for d in extra), "strictNamesTag": bool(rs.get("e") and "UNKNOWN_X" in rs["e"][2])}
        rj, _, _, _ = pc.judge_events([ev], "replay")
        if rj:
            rep.violation(f"skip:{'+'.join(rj[0])}", "unknown element is not skipped locally", case)
        print("replay:", "violation reproduced" if rep.new else "no violation")
        return rep.exit_code()
    c04.PID = PID
    return c04.replay(path)
