"""C14 - sort() is a pure reordering into the documented canonical order.

B1  Placement.tla's SortFull action (sort.rs: every list sorted by name, uids handed out list by
    list, module comments deleted) is model-checked against the ideal relation IdealSortFull
    (same elements, grouped by kind, ascending names within a kind) and SortFullIdempotent, from
    every reachable placement state (after loads, pushes and sort_new_items calls).
B2  every exported transition is replayed on real models (9 triples of list kinds that preserve
    the specification's orders); for sort transitions the harness additionally evaluates the
    relations of the property directly on the real objects: every list holds the same elements
    with == content, the written /begin sequence is grouped and ascending, the written text
    reloads to an equal model in the same order, sorting the reloaded model or sorting twice
    reproduces the text byte for byte.
B3  random documents (all 20 list kinds, comments, MOD_COMMON, MOD_PAR, IF_DATA, USER_RIGHTS,
    VARIANT_CODING, real merges) with sort() calls interleaved are validated against
    Trace_Placement.tla; a rejection is judged by Trace_PlacementIdeal.tla (written orders only).
"""
import os
import time

import vlib
from checks import c15

PID = "C14"


PROJECT_CHILDREN = []        # the direct children of PROJECT of the text module_children() looked at last


def module_children(text):
    """per MODULE of a written file: (name, the direct children as [kind, name] in written order)"""
    import re
    toks = re.findall(r'"(?:[^"\\]|\\.|"")*"|/\*.*?\*/|//[^\n]*|[^\s"]+', text, re.S)
    mods, depth, i = [], 0, 0
    del PROJECT_CHILDREN[:]
    while i < len(toks):
        t = toks[i]
        if t == "/begin":
            depth += 1
            kind = toks[i + 1]
            if depth == 2 and kind != "MODULE":
                PROJECT_CHILDREN.append(kind)
            if depth == 2 and kind == "MODULE":
                PROJECT_CHILDREN.append("MODULE " + toks[i + 2])
                mods.append((toks[i + 2], []))
            elif depth == 3:
                mods[-1][1].append([kind, toks[i + 2].strip('"')])
            i += 2
            continue
        if t == "/end":
            depth -= 1
            i += 2
            continue
        i += 1
    return mods


def two_module_sort(binp, rep, thorough, docs=None):
    """files with two MODULEs: sort() orders each module on its own (judged by IdealSortFull per module)"""
    import json
    import random
    import graphlib
    import graphmodel as gm
    from checks import c15, mergecheck
    rng = random.Random(vlib.seed() * 31 + 14)
    mo = [{"id": i, "a": d, "ops": ["sort", "sort"], "want_text": True} for i, d in enumerate(docs or [])]
    for i in range(0 if docs else 150 if thorough else 12):
        a, b = mergecheck.random_pair(rng, rng.choice([20, 40, 80] if thorough else [20, 40]))
        ga = graphlib.abstract_to_graph(mergecheck.to_abstract(a))
        gb = graphlib.abstract_to_graph(mergecheck.to_abstract(b))
        rng.shuffle(ga["elems"])
        rng.shuffle(gb["elems"])
        # the list of MODULEs is sorted by name as well: in every other file the first module has the greater name
        mo.append({"id": i, "a": gm.render2(ga, gb, "m" if i % 2 else "zz", header_between=(i % 3 == 0)), "ops": ["sort", "sort"], "want_text": True})
    if not docs:
        # modules whose elements hold reference lists in unsorted order (the cases of MC_Check): sort() must not touch them
        res = vlib.tlc("MC_Check", workers=8, coverage=False, timeout=1800)
        cc = [c for c in res.prints("CASE")]
        for j in range(1, len(cc), 1 if thorough else 9):
            g0, g1 = graphlib.abstract_to_graph(cc[j - 1]["G"]), graphlib.abstract_to_graph(cc[j]["G"])
            g0["elems"].reverse()
            mo.append({"id": len(mo), "a": gm.render2(g0, g1, "zz" if j % 2 else "m"), "ops": ["sort", "sort"], "want_text": True})
    out = graphlib.run_ops(binp, mo, "sort2")
    allev, owner = [], []
    for i, c in enumerate(mo):
        r = out.get(i)
        if r is None or "snaps" not in r:
            vlib.tool_error(f"two-module document does not load: {(r or {}).get('load_a_error')}")
        sn = r["snaps"]
        if any("panic" in x for x in sn):
            rep.violation("sort:panic:two-modules", f"sort() panicked: {[x.get('panic') for x in sn]}", {"kind": "sort2", "a": c["a"]})
            continue
        evs = []
        names = [m[0] for m in module_children(sn[0]["text"])]
        if [m[0] for m in module_children(sn[1]["text"])] != sorted(names):
            rep.violation("sort:order:modules", f"the MODULEs {names} are not written in ascending order after sort()", {"kind": "sort2", "a": c["a"]})
            continue
        # (PROJECT_CHILDREN now describes the sorted text) the HEADER stands in front of the MODULEs
        if "HEADER" in PROJECT_CHILDREN and PROJECT_CHILDREN[0] != "HEADER":
            rep.violation("sort:order:header", f"after sort() the children of PROJECT are written as {PROJECT_CHILDREN}", {"kind": "sort2", "a": c["a"]})
            continue
        for k, mname in enumerate(names):
            g0 = gm.flat(graphlib.graph_of_tree(sn[0]["tree"], gm.module_index(sn[0]["tree"], mname)))
            g1 = gm.flat(graphlib.graph_of_tree(sn[1]["tree"], gm.module_index(sn[1]["tree"], mname)))
            if sorted(map(json.dumps, g0["elems"])) != sorted(map(json.dumps, g1["elems"])) or sorted(map(json.dumps, g0["refs"])) != sorted(map(json.dumps, g1["refs"])):
                rep.violation("sort:content:two-modules", f"sort() changed the content of module {k} of a file with two MODULEs", {"kind": "sort2", "a": c["a"]})
            # element by element: nothing inside an element is reordered or changed (the layout data of the element aside)
            import parsercases as pc
            m0 = gm.module_of(sn[0]["tree"], gm.module_index(sn[0]["tree"], mname))
            m1 = gm.module_of(sn[1]["tree"], gm.module_index(sn[1]["tree"], mname))
            for field, v0 in m0.items():
                v1 = m1.get(field)
                if field in ("a2lcomment", "__block_info", "name", "long_identifier"):
                    continue
                key = lambda e: json.dumps(pc.strip_layout(e), sort_keys=True)
                if not isinstance(v0, list):
                    # MOD_PAR, MOD_COMMON, VARIANT_CODING, A2ML: unchanged, also in the order of what they hold
                    if key(v0) != key(v1):
                        rep.violation(f"sort:element-content:{field}", f"sort() changed something inside {field}", {"kind": "sort2", "a": c["a"]})
                    continue
                if sorted(map(key, v0)) != sorted(map(key, v1 or [])):
                    rep.violation(f"sort:element-content:{field}", f"sort() changed something inside an element of the list {field}", {"kind": "sort2", "a": c["a"]})
            ws = [dict(module_children(x["text"]))[mname] for x in sn]
            rank = {n: j for j, n in enumerate(sorted({x[1] for x in ws[0]}))}
            ws = [[[kd, rank.get(n, -1)] for kd, n in w] for w in ws]
            evs += [{"ev": "load", "written": ws[0]}, {"ev": "sort", "written": ws[1], "panic": False}, {"ev": "sort", "written": ws[2], "panic": False}]
            if ws[1] != ws[2]:
                rep.violation("sort:idempotent:two-modules", "a second sort() changes the written order", {"kind": "sort2", "a": c["a"]})
        allev += evs
        owner += [i] * len(evs)
    nev = len(allev)
    nrej = 0
    while allev:
        ok, irej = c15.ideal_accepts(allev)
        if ok:
            break
        d = irej[0] - 1
        i = owner[d]
        rep.violation("sort:order:two-modules", f"sort() of a file with two MODULEs violates IdealSortFull (event {allev[d]['ev']} of load/sort/sort per module)", {"kind": "sort2", "a": mo[i]["a"]})
        k = next((j for j in range(d, len(owner)) if owner[j] != i), len(owner))
        allev, owner = allev[k:], owner[k:]
        nrej += 1
        if nrej >= 6:
            break
    return len(mo), nev


def run(tier, selftest):
    t0 = time.time()
    rep = vlib.Reporter(PID)
    binp = vlib.build_harness()
    thorough = tier == "thorough"
    res, cases = c15.export_cases("MC_Sort_T" if thorough else "MC_Sort", 12 if thorough else 8)
    if res.violation:
        rep.violation(f"sort-spec:{res.violation}", f"TLC: {res.violation} violated in Placement.tla (SortFull)", {"kind": "tlc", "cfg": "MC_Sort"})
    nsort = sum(1 for c in cases if c["op"]["op"] == "sort")
    if nsort < 100:
        vlib.tool_error(f"vacuity: only {nsort} sort transitions explored")
    moved = sum(1 for c in cases if c["op"]["op"] == "sort" and c["from"]["written"] != c["to"]["written"])
    if moved == 0:
        vlib.tool_error("vacuity: no sort transition changes the written order")
    s1 = c15.replay_cases(binp, cases, rep, "sort")

    traces, steps, init = (400, 100, 20) if thorough else (16, 30, 10)
    tp = os.path.join(vlib.scratch(), "sort_trace.ndjson")
    rc, lines, err = vlib.run_harness(binp, ["placement-record", "--seed", vlib.seed() + 1000, "--traces", traces, "--steps", steps,
                                             "--init", init, "--sortprob", 20, "--out", tp], timeout=900)
    if rc != 0:
        vlib.tool_error(f"placement-record failed: {err[-500:]}")
    import json
    with open(tp) as f:
        evs = [json.loads(l) for l in f if l.strip()]
    nsort_tr = sum(1 for e in evs if e["ev"] == "sort")
    acc_ev, acc_tr, rej = c15.validate_trace(tp, rep)
    # the same on the second MODULE of a file (a decoy MODULE with equally named elements stands in front)
    tp2 = os.path.join(vlib.scratch(), "sort_trace_second.ndjson")
    rc, lines, err = vlib.run_harness(binp, ["placement-record", "--seed", vlib.seed() + 1311, "--traces", max(6, traces // 4), "--steps", steps,
                                             "--init", init, "--second", 1, "--sortprob", 20, "--out", tp2], timeout=900)
    if rc != 0:
        vlib.tool_error(f"placement-record (second module) failed: {err[-500:]}")
    with open(tp2) as f:
        nsort_tr += sum(1 for l in f if '"ev":"sort"' in l)
    a2, t2, r2 = c15.validate_trace(tp2, rep)
    acc_ev, acc_tr, rej = acc_ev + a2, acc_tr + t2, rej + r2
    # files that also hold optional singletons, IF_DATA and USER_RIGHTS (outside the implementation-shaped model, whose uid
    # compaction therefore differs from the code's): judged by the relations of the property alone
    tpx = os.path.join(vlib.scratch(), "sort_trace_extras.ndjson")
    rc, lines, err = vlib.run_harness(binp, ["placement-record", "--seed", vlib.seed() + 2000, "--traces", traces, "--steps", min(steps, 40),
                                             "--init", init, "--extras", 1, "--sortprob", 20, "--out", tpx], timeout=900)
    if rc != 0:
        vlib.tool_error(f"placement-record (extras) failed: {err[-500:]}")
    with open(tpx) as f:
        xev = [json.loads(l) for l in f if l.strip()]
    nsort_tr += sum(1 for e in xev if e["ev"] == "sort")
    nxv = 0
    while xev:
        ok, irej = c15.ideal_accepts(xev)
        if ok:
            break
        d = irej[0]
        start = max(i for i in range(d) if xev[i]["ev"] == "load")
        end = next((i for i in range(d, len(xev)) if xev[i]["ev"] == "load"), len(xev))
        bad = xev[d - 1]
        rep.violation(f"placement:{bad['ev']}:{'panic' if bad.get('panic') else 'order-all-children'}",
                      f"history on a module with singletons / IF_DATA / USER_RIGHTS violates the relations of C14 / C15 (Trace_PlacementIdeal rejects event {d}: {json.dumps({k: bad[k] for k in bad if k != 'lists'})[:300]})",
                      {"kind": "history", "events": xev[start:end]})
        xev = xev[end:]
        nxv += 1
        if nxv >= 6:
            break

    n2, nev2 = two_module_sort(binp, rep, thorough)

    binding = None
    if selftest or thorough:
        c = json.loads(json.dumps(next(c for c in cases if c["op"]["op"] == "sort" and len(c["to"]["written"]) >= 2
                                       and not any(e["cmt"] for e in c["from"]["E"]))))
        c["to"]["written"] = list(reversed(c["to"]["written"]))
        silent = vlib.Reporter("SELFTEST")
        silent.violation = lambda *a, **k: silent.new.append("x")
        nd = len(c15.DRIFT)
        c15.replay_cases(binp, [c], silent, "selftest")
        detected = len(silent.new) > 0 or len(c15.DRIFT) > nd
        del c15.DRIFT[nd:]
        k = next(i for i, e in enumerate(evs) if e["ev"] == "sort" and len(e.get("written", [])) >= 3)
        evs2 = json.loads(json.dumps(evs[:k + 1]))
        evs2[k]["written"] = list(reversed(evs2[k]["written"]))
        p = os.path.join(vlib.scratch(), "selftest_strace.ndjson")
        vlib.write_ndjson(p, evs2)
        r1 = vlib.tlc("Trace_Placement", workers=1, dfs=True, coverage=False, env={"TRACE": p}, timeout=600, expect_violation=True)
        r2 = vlib.tlc("Trace_PlacementIdeal", workers=1, dfs=True, coverage=False, env={"TRACE": p}, timeout=600, expect_violation=True)
        binding = {"corrupted_expected_order_detected": detected,
                   "corrupted_sort_event_rejected_by_both_trace_specs": (not r1.ok) and (not r2.ok)}
        if not all(binding.values()):
            vlib.tool_error(f"binding selftest failed: {binding}")

    cov = {
        "states": res.distinct,
        "transitions": len(cases),
        "traces_validated_against_impl": acc_tr,
        "exhaustive": True,
        "evaluations": s1["executions"],
        "distinct_nontrivial": moved,
        "rule": "every transition of the bounded Placement graph with SortFull enabled is one case; non-trivial = a sort() transition that changes the written order; the C14 relations (same elements ==, grouped+ascending, reload equal and same order, idempotent text) are evaluated on the real model for every replayed sort transition",
        "samples": [next(c for c in cases if c["op"]["op"] == "sort" and c["from"]["written"] != c["to"]["written"])],
        "sort_transitions": nsort,
        "replayed_without_comments": s1["executions"],
        "skipped_states_with_comments": s1["skipped_with_comments"],
        "replay_mismatches": s1["mismatches"],
        "trace_events_validated": acc_ev,
        "trace_sort_events": nsort_tr,
        "trace_rejections": rej,
        "files_with_two_modules": n2,
        "two_module_events_judged": nev2,
        "spec_drift_notes": c15.DRIFT[:10],
    }
    if binding is not None:
        cov["binding_mutations_rejected"] = binding
    for dnote in c15.DRIFT[:5]:
        print(f"SPEC-DRIFT (not a violation of C14): {dnote}")
    vlib.write_evidence(PID, tier, "model_checking", cov, [
        "one MODULE in the placement histories (files with two MODULEs are judged by IdealSortFull per module); the order *between* kinds is only compared with the implementation-shaped model (the property only demands grouping)",
        "module comments are deleted by sort() by design and are not 'elements' of the property",
        "names are compared bytewise (ASCII names in the generated cases)",
    ], time.time() - t0, rep.count_new)
    return rep.exit_code()


def replay(path):
    import json
    with open(path) as f:
        case = json.load(f)["case"]
    if case.get("kind") == "sort2":
        rep = vlib.Reporter(PID)
        two_module_sort(vlib.build_harness(), rep, False, [case["a"]])
        print("replay:", "violation reproduced" if rep.new else "no violation")
        return rep.exit_code()
    c15.PID = PID
    return c15.replay(path)
