"""C08 / C09: merge_modules judged by the relations MergeOK / RefsFollow of Graph.tla.

B1  MC_Merge: TLC enumerates, for every reference site of the grammar and every overlap pattern,
    an abstract case (A, B), and checks that the reference merge of Graph.tla satisfies both
    relations on all of them; the expected-violation configuration (one site left out of the
    rename sites) must fail.
B2  every generated case is rendered to A2L text, merged by the real library, and the module
    graphs extracted from the real objects (before / after) are judged by the same relations
    (Trace_Graph).
B3  seeded random module pairs with 30-120 elements and controlled overlap, judged the same way.
"""
import json
import os
import random
import time

import graphlib  # noqa
import graphmodel as gm
import vlib


def gen_cases(workers=12):
    res = vlib.tlc("MC_Merge", workers=workers, coverage=False, timeout=1800)
    if res.violation:
        return res, []
    return res, list(res.prints("CASE"))


def random_pair(rng, size):
    """random B, and an A derived from it with twins, conflicts (same and other kind of the same
    namespace), homonyms in other namespaces and A-only elements"""
    cid = [100]

    def fresh_c():
        cid[0] += 1
        return cid[0]
    kinds = [k for k in gm.NS_OF if k not in ("VAR_CRITERION",)]
    b = []
    names = {}
    for _ in range(size):
        k = rng.choice(kinds)
        if k in gm.SINGLE_KINDS:
            if any(e["kind"] == k for e in b):
                continue
            n = "-"
        else:
            ns = gm.NS_OF[k]
            n = f"{ns[:2].lower()}{rng.randrange(size)}"
            if n in names.setdefault(ns, set()):
                continue
            names[ns].add(n)
        e = {"kind": k, "name": n, "c": fresh_c(), "refs": {}}
        if k == "VARIANT_CODING":
            e["criteria"] = ["crit1", "crit2"]
        b.append(e)
    # B may contain names of the form X.MERGE itself (product of an earlier merge)
    for e in list(b):
        if e["kind"] not in gm.SINGLE_KINDS and e["kind"] not in ("USER_RIGHTS",) and rng.random() < 0.12:
            ns = gm.NS_OF[e["kind"]]
            n2 = e["name"] + rng.choice([".MERGE", ".MERGE2"])
            if n2 not in names[ns]:
                names[ns].add(n2)
                b.append({"kind": e["kind"], "name": n2, "c": fresh_c(), "refs": {}})
    for e in b:
        for s in gm.SITES:
            if s[1] != e["kind"] or rng.random() < 0.45:
                continue
            tns = s[3]
            if tns == "VAR_CRITERION":
                e["refs"][s[0]] = [rng.choice(["crit1", "crit2"])]
                continue
            pool = sorted(names.get(tns, []))
            cnt = rng.randrange(1, 4) if s[5] else 1
            if s[0].startswith("VARIANT_CODING/VAR_CRITERION/"):
                cnt = rng.randrange(1, 3)
            lst = []
            for _ in range(cnt):
                r = rng.random()
                if pool and r < 0.85:
                    lst.append(rng.choice(pool))
                elif s[4] and r < 0.93:
                    lst.append(s[4])
                else:
                    lst.append(f"dangling{rng.randrange(5)}")
            if "/AXIS_DESCR" in s[0]:
                lst = lst[:1]
            e["refs"][s[0]] = lst
    a = []
    for e in b:
        r = rng.random()
        if e["kind"] in gm.SINGLE_KINDS:
            if r < 0.3:
                a.append({"kind": e["kind"], "name": "-", "c": fresh_c(), "refs": {}, **({"criteria": ["critA"]} if e["kind"] == "VARIANT_CODING" else {})})
            continue
        if r < 0.25:
            a.append(json.loads(json.dumps(e)))                       # identical twin
        elif r < 0.55:
            ns = gm.NS_OF[e["kind"]]
            k2 = rng.choice(gm.KINDS_OF_NS[ns]) if rng.random() < 0.4 else e["kind"]
            a.append({"kind": k2, "name": e["name"], "c": fresh_c(), "refs": {}})       # conflict
            if rng.random() < 0.3:
                a.append({"kind": k2, "name": e["name"] + ".MERGE", "c": fresh_c(), "refs": {}})
        elif r < 0.65 and e["kind"] not in ("USER_RIGHTS", "MEMORY_SEGMENT"):
            # homonym in another namespace
            k2 = rng.choice([k for k in ("MEASUREMENT", "COMPU_METHOD", "UNIT", "RECORD_LAYOUT") if gm.NS_OF[k] != gm.NS_OF[e["kind"]]])
            if not any(x["name"] == e["name"] and gm.NS_OF[x["kind"]] == gm.NS_OF[k2] for x in a + b):
                a.append({"kind": k2, "name": e["name"], "c": fresh_c(), "refs": {}})
    for i in range(size // 4):
        k = rng.choice([k for k in kinds if k not in gm.SINGLE_KINDS])
        n = f"aonly{i}"
        a.append({"kind": k, "name": n, "c": fresh_c(), "refs": {}})
    # names must be unique per namespace inside A
    seen = set()
    a2 = []
    for e in a:
        key = (gm.NS_OF[e["kind"]], e["name"])
        if key in seen:
            continue
        seen.add(key)
        a2.append(e)
    return a2, b


def to_abstract(elems):
    return [{"kind": e["kind"], "name": e["name"], "c": e["c"], "refs": [[s, n] for s, n in e["refs"].items()],
             "criteria": e.get("criteria", [])} for e in elems]


SC_NAMES = ("K1", "K2", "K3")


def sysconst_text(pairs):
    """a module whose MOD_PAR holds the given SYSTEM_CONSTANTs ([[name, value]])"""
    lines = ["ASAP2_VERSION 1 71", '/begin PROJECT p ""', '  /begin MODULE m ""', '    /begin MOD_PAR ""']
    for n, v in pairs:
        lines.append(f'      SYSTEM_CONSTANT "{n}" "{v}"')
    lines += ["    /end MOD_PAR", "  /end MODULE", "/end PROJECT"]
    return "\n".join(lines) + "\n"


def sysconst_of_tree(tree):
    mp = gm.module_of(tree).get("mod_par") or {}
    return [[gm._s(e.get("name")), gm._s(e.get("value"))] for e in mp.get("system_constant") or []]


def sysconst_cases():
    """every assignment of (absent | value) in A and (absent | same value | other value) in B to three names, B's order reversed"""
    import itertools
    out = []
    for st in itertools.product(range(6), repeat=len(SC_NAMES)):
        a, b = [], []
        for n, x in zip(SC_NAMES, st):
            ina, inb = x % 2, x // 2
            if ina:
                a.append([n, "va_" + n])
            if inb == 1:
                b.append([n, "va_" + n])
            elif inb == 2:
                b.append([n, "vb_" + n])
        out.append({"a": sysconst_text(a), "b": sysconst_text(list(reversed(b)))})
    return out


def sysconst_events(binp, pid, tag):
    sc = sysconst_cases()
    out = graphlib.run_ops(binp, [{"id": i, "a": c["a"], "b": c["b"], "ops": ["merge"]} for i, c in enumerate(sc)], f"sysconst_{tag}_{pid}")
    evs = []
    for i, c in enumerate(sc):
        r = out.get(i)
        if r is None or "snaps" not in r:
            vlib.tool_error(f"SYSTEM_CONSTANT case does not load: {r}")
        sn = r["snaps"][1]
        if "panic" in sn:
            evs.append((c, None, sn["panic"]))
            continue
        evs.append((c, {"ev": "sysconst", "A": sysconst_of_tree(r["snaps"][0]["tree"]), "B": sysconst_of_tree(r["b_tree"]), "R": sysconst_of_tree(sn["tree"])}, None))
    return evs


def content_check(rep, replay, r, A, B):
    """element by element: what A held is unchanged in every field (GROUP / FUNCTION may gain members), and an element of B
    that arrives under its own name arrives whole"""
    import parsercases as pc
    ma, mb, mr = gm.module_of(r["snaps"][0]["tree"]), gm.module_of(r["b_tree"]), gm.module_of(r["snaps"][1]["tree"])
    for kind, field in gm.FIELD_OF_KIND.items():
        after = {gm._s(e.get("name")): e for e in mr.get(field) or []}
        a_names = {gm._s(e.get("name")) for e in ma.get(field) or []}
        for e0 in ma.get(field) or []:
            n = gm._s(e0.get("name"))
            if n is not None and n in after and kind not in ("GROUP", "FUNCTION") and pc.strip_layout(e0) != pc.strip_layout(after[n]):
                rep.violation(f"merge:AUnchanged:content:{kind}", f"merge altered {kind} {n} of A", replay)
        if len(B["refs"]) == 0:         # no reference of B can have been rewritten
            ns_names = {x[2] for x in A["elems"] if x[0] == gm.NS_OF[kind]}
            for e0 in mb.get(field) or []:
                n = gm._s(e0.get("name"))
                if n is not None and n not in ns_names and n in after and n not in a_names and pc.strip_layout(e0) != pc.strip_layout(after[n]):
                    rep.violation(f"merge:BRepresented:content:{kind}", f"{kind} {n} of B arrives altered", replay)


def run(pid, tier, selftest):
    t0 = time.time()
    rep = vlib.Reporter(pid)
    binp = vlib.build_harness()
    thorough = tier == "thorough"
    res, cases = gen_cases()
    if res.violation:
        rep.violation(f"merge-spec:{res.violation}", f"TLC: {res.violation} violated: the reference merge of Graph.tla does not satisfy the relations", {"kind": "tlc", "cfg": "MC_Merge"})
    sites_seen = {c["id"]["site"] for c in cases}
    if len(sites_seen) != len(gm.SITES):
        vlib.tool_error(f"vacuity: {len(gm.SITES) - len(sites_seen)} reference sites have no generated case")
    res_m = vlib.tlc("MC_Merge", cfg="MC_Merge_Missing", workers=8, coverage=False, timeout=900, expect_violation=True)
    if res_m.violation != "DesignOK":
        vlib.tool_error("expected-violation configuration MC_Merge_Missing did not fail")
    # random pairs
    rng = random.Random(vlib.seed() * 7919 + (8 if pid == "C08" else 9))
    nrand = 300 if thorough else 30
    rand_cases = []
    for i in range(nrand):
        a, b = random_pair(rng, rng.choice([30, 60, 120] if thorough else [20, 40]))
        rand_cases.append({"id": {"site": "random", "mode": "random", "n": i}, "A": to_abstract(a), "B": to_abstract(b)})
    allc = cases + rand_cases
    mo = []
    for i, c in enumerate(allc):
        ga = graphlib.abstract_to_graph(c["A"])
        gb = graphlib.abstract_to_graph(c["B"])
        mo.append({"id": i, "a": gm.render(ga), "b": gm.render(gb), "ops": ["merge"]})
    out = graphlib.run_ops(binp, mo, f"merge_{pid}")
    events, idx = [], []
    for i, c in enumerate(allc):
        r = out.get(i)
        if r is None or "snaps" not in r:
            why = (r or {}).get("load_a_error") or (r or {}).get("load_b_error") or (r or {}).get("harness_panic") or "no result"
            vlib.tool_error(f"generated case does not load ({c['id']}): {why}")
        sn = r["snaps"][1]
        if "panic" in sn:
            rep.violation(f"merge:panic:site={c['id']['site']}", f"merge_modules panicked: {sn['panic']}", {"kind": "merge", "case": c, "a": mo[i]["a"], "b": mo[i]["b"]})
            continue
        A = gm.flat(graphlib.graph_of_tree(r["snaps"][0]["tree"]))
        B = gm.flat(graphlib.graph_of_tree(r["b_tree"]))
        R = gm.flat(graphlib.graph_of_tree(sn["tree"]))
        events.append({"ev": "merge", "A": A, "B": B, "R": R})
        idx.append(i)
        if pid == "C08":
            content_check(rep, {"kind": "merge", "case": c, "a": mo[i]["a"], "b": mo[i]["b"]}, r, A, B)
    failed, tr = graphlib.judge(events, f"Trace_Graph_{pid}", pid)
    for k, names in sorted(failed.items()):
        i = idx[k]
        c = allc[i]
        rep.violation(f"merge:{'+'.join(names)}:site={c['id']['site']}",
                      f"merge result violates {names} (case {c['id']})",
                      {"kind": "merge", "case": c, "a": mo[i]["a"], "b": mo[i]["b"], "event": events[k]})
    nsc = 0
    if pid == "C08":
        sce = sysconst_events(binp, pid, "run")
        live = [(c, e) for c, e, pn in sce if e is not None]
        for c, e, pn in sce:
            if pn is not None:
                rep.violation("merge:panic:site=SYSTEM_CONSTANT", f"merge_modules panicked: {pn}", {"kind": "sysconst", "a": c["a"], "b": c["b"]})
        fsc, _ = graphlib.judge([e for _, e in live], f"Trace_Graph_{pid}", pid + "_sc")
        nsc = len(live)
        for k, names in sorted(fsc.items()):
            c, e = live[k]
            rep.violation(f"merge:{'+'.join(names)}:site=SYSTEM_CONSTANT", f"merged SYSTEM_CONSTANTs violate {names}: A={e['A']} B={e['B']} R={e['R']}",
                          {"kind": "sysconst", "a": c["a"], "b": c["b"], "event": e})
    binding = None
    if selftest or thorough:
        # corrupt one observed result: drop a reference / rename an element
        ev = json.loads(json.dumps(next(e for e in events if e["R"]["refs"] and e["B"]["refs"] and not e["A"]["elems"])))
        ev["R"]["refs"][0][3] = "somewhere_else"
        ev2 = json.loads(json.dumps(next(e for e in events if e["A"]["elems"])))
        ev2["R"]["elems"] = [x for x in ev2["R"]["elems"] if x != ev2["A"]["elems"][0]]
        f1, _ = graphlib.judge([ev], "Trace_Graph_C09", "selftest1")
        f2, _ = graphlib.judge([ev2], "Trace_Graph_C08", "selftest2")
        binding = {"corrupted_reference_rejected": 0 in f1, "dropped_element_of_A_rejected": 0 in f2}
        if pid == "C08":
            f3, _ = graphlib.judge([{"ev": "sysconst", "A": [["K1", "va"]], "B": [["K1", "vb"]], "R": [["K1", "va"], ["K1", "vb"]]}], "Trace_Graph_C08", "selftest3")
            binding["system_constant_name_twice_rejected"] = f3.get(0) == ["SysConstNamesUnique"]
        if not all(binding.values()):
            vlib.tool_error(f"binding selftest failed: {binding}")
    modes = {}
    for c in cases:
        modes[c["id"]["mode"]] = modes.get(c["id"]["mode"], 0) + 1
    cov = {
        "states": res.distinct,
        "transitions": res.generated,
        "traces_validated_against_impl": len(events),
        "exhaustive": True,
        "evaluations": len(events),
        "distinct_nontrivial": sum(1 for e in events if e["A"]["elems"] and e["B"]["elems"]),
        "rule": "one case per (reference site x overlap pattern x target kind x conflicting kind x list position) generated by MC_Merge, plus seeded random module pairs; non-trivial = both modules non-empty; each case is one real merge_modules call judged by Graph.tla",
        "samples": [cases[0], cases[len(cases) // 2]["id"], rand_cases[0]["id"]],
        "reference_sites_covered": len(sites_seen),
        "cases_per_mode": modes,
        "random_pairs": len(rand_cases),
        "expected_violation_config": {"cfg": "MC_Merge_Missing", "violated": res_m.violation},
        "events_rejected": len(failed),
        "system_constant_pairs": nsc,
    }
    if binding:
        cov["binding_mutations_rejected"] = binding
    vlib.write_evidence(pid, tier, "model_checking", cov, [
        "content identities are unique per element except for deliberate identical twins (generator constraint), so the representative of an element of B is found by its content",
        "an element of B that is textually identical to one of A but refers to something the merge renames may be shared or added (both accepted)",
        "GROUP/FUNCTION of the same name: A's members must survive and nothing may be invented; it is not required that every member list of B is united (DESIGN.md 9)",
        "references held by identical twins that are shared are A's references (only elements that are added to the result are judged by C09)",
        "one MODULE per file",
    ], time.time() - t0, rep.count_new)
    return rep.exit_code()


def replay(pid, path):
    with open(path) as f:
        r = json.load(f)
    case = r["case"]
    rep = vlib.Reporter(pid)
    binp = vlib.build_harness()
    if case.get("kind") == "tlc":
        res = vlib.tlc("MC_Merge", cfg=case["cfg"], workers=8, coverage=False, timeout=1800, expect_violation=True)
        if res.violation:
            rep.violation(f"merge-spec:{res.violation}", "TLC property violated", case)
    elif case.get("kind") == "sysconst":
        out = graphlib.run_ops(binp, [{"id": 0, "a": case["a"], "b": case["b"], "ops": ["merge"]}], "replay")
        r0 = out[0]
        sn = r0["snaps"][1]
        if "panic" in sn:
            rep.violation("merge:panic", sn["panic"], case)
        else:
            ev = {"ev": "sysconst", "A": sysconst_of_tree(r0["snaps"][0]["tree"]), "B": sysconst_of_tree(r0["b_tree"]), "R": sysconst_of_tree(sn["tree"])}
            failed, _ = graphlib.judge([ev], f"Trace_Graph_{pid}", "replay")
            if failed:
                rep.violation(f"merge:{'+'.join(failed[0])}", f"merged SYSTEM_CONSTANTs violate {failed[0]}", case)
    else:
        out = graphlib.run_ops(binp, [{"id": 0, "a": case["a"], "b": case["b"], "ops": ["merge"]}], "replay")
        r0 = out[0]
        sn = r0["snaps"][1]
        if "panic" in sn:
            rep.violation("merge:panic", sn["panic"], case)
        else:
            ev = {"ev": "merge", "A": gm.flat(graphlib.graph_of_tree(r0["snaps"][0]["tree"])), "B": gm.flat(graphlib.graph_of_tree(r0["b_tree"])),
                  "R": gm.flat(graphlib.graph_of_tree(sn["tree"]))}
            failed, _ = graphlib.judge([ev], f"Trace_Graph_{pid}", "replay")
            if failed:
                rep.violation(f"merge:{'+'.join(failed[0])}", f"merge result violates {failed[0]}", case)
            if pid == "C08":
                content_check(rep, case, r0, ev["A"], ev["B"])
    print("replay:", "violation reproduced" if rep.new else "no violation")
    return rep.exit_code()
