"""C04 - grammar conformance: every A2L 1.7.1 construct accepted exactly as specified.

B1  Grammar.tla is the frozen A2L 1.7.1 grammar as a TLA+ constant (generated from the DSL of the
    pinned commit); Parser.tla is the parser as a function of the token sequence, parametric in
    it.  MC_ParserCases enumerates the finite case space from the grammar: every element under
    every version, and every single deviation of the property (missing parameter, other token
    class, required sub-element absent, single one twice, wrong block form, unknown enum value,
    every enum item and version-gated sub-element under every version, wrong / missing end tag,
    trailing tokens, unknown sub-element, sequences of other lengths).
B2  every case is concretised (distinct token per position), loaded by the real library in strict
    and in non-strict mode, and Trace_Parser evaluates Parser.tla on the token stream of the real
    tokenizer: outcome, error class and line, every diagnostic with its line, and the tree (which
    token lands in which field) must agree; the table Corresponding decides that each deviation
    produced its diagnostic class; the values stored in the model are compared with the token
    texts (number notation, escapes) by the driver.
"""
import json
import random
import time

import a2ldoc
import parsercases as pc
import vlib

PID = "C04"


def select(cases, tier, seed):
    rng = random.Random(seed * 2654435761 % (2 ** 31))
    keep = []
    for c in cases:
        k = c["k"]
        if k in ("multi", "skip"):
            continue            # C06 / C07
        if k == "value":        # literal classes (also judged by C02): which identifiers, strings and numbers are accepted is grammar
            keep.append(c)
            continue
        if k == "enum_item":
            # quick: every item at the oldest and the newest version (an item that is too new / deprecated shows at one of them),
            # a sample of the versions in between
            if tier == "thorough" or c["ver"] in (150, 171) or rng.random() < 0.08:
                keep.append(c)
        elif tier == "thorough":
            keep.append(c)
        elif k == "pos":
            if c["ver"] == 171 or rng.random() < 0.15:
                keep.append(c)
        elif k in ("kid_version", "kid_wrongform", "kid_twice", "delparam", "retype"):
            if rng.random() < 0.4:
                keep.append(c)
        else:
            keep.append(c)
    return keep


def run_corpus(pid, rep, binp, tier, judge_pairs=False):
    res = vlib.tlc("MC_ParserCases", workers=8, coverage=False, timeout=900)
    cases = list(res.prints("CASE"))
    kinds = {}
    for c in cases:
        kinds[c["k"]] = kinds.get(c["k"], 0) + 1
    if len(kinds) < 15 or kinds.get("pos", 0) < 1000:
        vlib.tool_error(f"vacuity: case kinds {kinds}")
    sel = select(cases, tier, vlib.seed())
    docs, meta = [], []
    for c in sel:
        t = pc.concretise(c)
        for s in (True, False):
            docs.append((t, s))
            meta.append(c)
    results = pc.run_loads(binp, docs, pid)
    events = [pc.load_event(r, s, c) for r, (t, s), c in zip(results, docs, meta)]
    if judge_pairs:
        for i in range(0, len(results), 2):
            events.append(pc.pair_event(results[i], results[i + 1], no_ifdata="IF_DATA" not in docs[i][0]))
    rejected, trees, tr, njudged = pc.judge_events(events, pid)
    return dict(res=res, cases=cases, kinds=kinds, sel=sel, docs=docs, meta=meta, results=results, events=events,
                rejected=rejected, trees=trees, njudged=njudged)


def report(pid, rep, cor, only=None):
    docs, meta, results = cor["docs"], cor["meta"], cor["results"]
    for i, r in enumerate(results):
        if "panic" in r or "tok_panic" in r:
            rep.violation(f"load:panic:{meta[i]['k']}", f"load panicked: {r.get('panic') or r.get('tok_panic')}", {"kind": "doc", "case": meta[i], "text": docs[i][0], "strict": docs[i][1]})
    for k, names in sorted(cor["rejected"].items()):
        if only and not any(n in only for n in names):
            continue
        if k < len(docs):
            c = meta[k]
            r = results[k]
            got = r.get("e") or [d[:2] for d in r.get("diags", [])]
            rep.violation(f"parser:{'+'.join(names)}:{c['k']}",
                          f"{'strict' if docs[k][1] else 'lenient'} load of case {c} disagrees with Parser.tla on {names}; observed {json.dumps(got)[:300]}",
                          {"kind": "doc", "case": c, "text": docs[k][0], "strict": docs[k][1]})
        else:
            j = (k - len(docs)) * 2
            c = meta[j]
            rep.violation(f"strictness:{'+'.join(names)}:{c['k']}",
                          f"strict and lenient load of case {c} violate {names}",
                          {"kind": "pair", "case": c, "text": docs[j][0]})


def module_body(text):
    """the text between `/begin MODULE name "long"` and the last `/end MODULE` (None if the document has no MODULE)"""
    lines = text.split("\n")
    a = next((i for i, l in enumerate(lines) if l.strip().startswith("/begin MODULE")), None)
    b = next((i for i in range(len(lines) - 1, -1, -1) if lines[i].strip() == "/end MODULE"), None)
    if a is None or b is None or b <= a:
        return None
    return "\n".join(lines[a + 1:b]) + "\n"


def fragment_family(rep, binp, cor):
    seen, frags, fmeta = set(), [], []
    for (t, s), c in zip(cor["docs"], cor["meta"]):
        if c["k"] != "pos" or not s:
            continue
        body = module_body(t)
        if body is None or not body.strip() or body in seen:
            continue
        seen.add(body)
        frags.append(body)
        fmeta.append(c)
    if len(frags) < 100:
        vlib.tool_error(f"vacuity: only {len(frags)} fragments")
    import os
    inp = os.path.join(vlib.scratch(), "c04_frag.ndjson")
    outp = os.path.join(vlib.scratch(), "c04_frag.out")
    vlib.write_ndjson(inp, [{"id": i, "text": t, "fragment": True, "want": ["tokens", "tree", "fragfile"]} for i, t in enumerate(frags)])
    results, _ = vlib.run_cases_resilient(binp, "load-op", inp, outp, len(frags))
    for i, r in enumerate(results):
        if r.get("fragfile_same") is False:
            rep.violation(f"fragment:file:{fmeta[i].get('e')}", "load_fragment_file of a file gives another result than load_fragment of its content", {"kind": "fragment", "case": fmeta[i], "text": frags[i]})
    events = []
    for r in results:
        if r.get("hang") or "panic" in r or "tokens" not in r:
            events.append(None)
            continue
        ev = pc.load_event(r, False, None)
        if ev is not None:
            ev["frag"] = 1
        events.append(ev)
    rejected, trees, _, nj = pc.judge_events(events, PID + "frag")
    for i, r in enumerate(results):
        if r.get("hang") or "panic" in r:
            rep.violation("fragment:panic", f"load_fragment panicked or hung: {r.get('panic')}", {"kind": "fragment", "case": fmeta[i], "text": frags[i]})
    for k, names in sorted(rejected.items()):
        r = results[k]
        rep.violation(f"fragment:{'+'.join(names)}:{fmeta[k].get('e')}", f"load_fragment of the MODULE body of case {fmeta[k]} disagrees with RunFragment on {names}; observed {json.dumps(r.get('e') or 'ok')[:200]}",
                      {"kind": "fragment", "case": fmeta[k], "text": frags[k]})
    for k, t in trees.items():
        if k in rejected:
            continue
        out = []
        a2ldoc.compare_node(t, results[k]["tree"], "MODULE", out)
        if out:
            rep.violation(f"fragment:Values:{fmeta[k].get('e')}", f"the module returned by load_fragment does not hold what the text says: {out[:3]}", {"kind": "fragment", "case": fmeta[k], "text": frags[k]})
    return nj


def run(tier, selftest):
    t0 = time.time()
    rep = vlib.Reporter(PID)
    binp = vlib.build_harness()
    cor = run_corpus(PID, rep, binp, tier)
    report(PID, rep, cor)
    ndiff = 0
    for k, t in cor["trees"].items():
        if k in cor["rejected"]:
            continue
        d = a2ldoc.compare_tree(t, cor["results"][k]["tree"])
        if d:
            ndiff += 1
            c = cor["meta"][k]
            rep.violation(f"parser:Values:{c['e'] if 'e' in c else c['k']}", f"the model does not hold what the document says: {d[:3]}",
                          {"kind": "doc", "case": c, "text": cor["docs"][k][0], "strict": cor["docs"][k][1]})
    # the second entry point: load_fragment on the body of the MODULE of every positive document (RunFragment)
    nfrag = fragment_family(rep, binp, cor)
    binding = None
    if selftest or tier == "thorough":
        ev = json.loads(json.dumps(next(e for e in cor["events"] if e and e["out"]["ok"] and e["out"]["diags"])))
        ev["out"]["diags"][0][1] += 1
        ev2 = json.loads(json.dumps(next(e for e in cor["events"] if e and not e["out"]["ok"])))
        ev2["out"]["e"][0] = "SomeOtherClass"
        rj, _, _, _ = pc.judge_events([ev, ev2], "selftest")
        binding = {"shifted_diagnostic_line_rejected": 0 in rj, "changed_error_class_rejected": 1 in rj}
        if not all(binding.values()):
            vlib.tool_error(f"binding selftest failed: {binding}")
    sel_kinds = {}
    for c in cor["sel"]:
        sel_kinds[c["k"]] = sel_kinds.get(c["k"], 0) + 1
    cov = {
        "states": cor["res"].distinct,
        "transitions": cor["res"].generated,
        "traces_validated_against_impl": cor["njudged"],
        "exhaustive": tier == "thorough",
        "evaluations": len(cor["docs"]),
        "distinct_nontrivial": sum(1 for c in cor["sel"] if c["k"] != "pos"),
        "rule": "case space enumerated by MC_ParserCases from the grammar constant (205 elements); quick tier: all positives at 1.71, all structural deviations of small families and a seeded sample of the large families, thorough: everything; each case loaded strict and lenient; non-trivial = a deviation case",
        "samples": [cor["sel"][0], {"case": cor["sel"][len(cor["sel"]) // 2], "text": cor["docs"][len(cor["docs"]) // 2][0][-400:]}],
        "case_space": cor["kinds"],
        "cases_run": sel_kinds,
        "trees_compared": len(cor["trees"]),
        "tree_value_differences": ndiff,
        "events_rejected": len(cor["rejected"]),
        "fragments_judged": nfrag,
    }
    if binding:
        cov["binding_mutations_rejected"] = binding
    vlib.write_evidence(PID, tier, "model_checking", cov, [
        "'the grammar' is the DSL of the pinned commit (grammar/a2l_1_7_1.dsl), not the ASAM document",
        "IF_DATA content is not interpreted at this level (balanced tokens); A2ML text is given valid",
        "whether a token text denotes the stored value (number notation, string escapes) is compared by the driver, outside TLA+",
    ], time.time() - t0, rep.count_new)
    return rep.exit_code()


def replay(path):
    with open(path) as f:
        r = json.load(f)
    rep = vlib.Reporter(PID)
    binp = vlib.build_harness()
    case = r["case"]
    if case["kind"] == "fragment":
        import os
        inp = os.path.join(vlib.scratch(), "c04_frag_replay.ndjson")
        outp = os.path.join(vlib.scratch(), "c04_frag_replay.out")
        vlib.write_ndjson(inp, [{"id": 0, "text": case["text"], "fragment": True, "want": ["tokens", "tree"]}])
        results, _ = vlib.run_cases_resilient(binp, "load-op", inp, outp, 1)
        ev = pc.load_event(results[0], False, None) if "panic" not in results[0] else None
        if ev is None:
            rep.violation("fragment:panic", str(results[0].get("panic")), case)
        else:
            ev["frag"] = 1
            rj, trees, _, _ = pc.judge_events([ev], "replay")
            out = []
            if 0 in trees and 0 not in rj:
                a2ldoc.compare_node(trees[0], results[0]["tree"], "MODULE", out)
            if rj or out:
                rep.violation("fragment:" + "+".join(rj.get(0, ["Values"])), "load_fragment disagrees with RunFragment", case)
        print("replay:", "violation reproduced" if rep.new else "no violation")
        return rep.exit_code()
    docs = [(case["text"], True), (case["text"], False)] if case["kind"] == "pair" else [(case["text"], case["strict"])]
    results = pc.run_loads(binp, docs, "replay")
    events = [pc.load_event(x, s, case.get("case")) for x, (t, s) in zip(results, docs)]
    if case["kind"] == "pair":
        events.append(pc.pair_event(results[0], results[1], "IF_DATA" not in case["text"]))
    rj, trees, _, _ = pc.judge_events(events, "replay")
    for k, names in rj.items():
        rep.violation(f"parser:{'+'.join(names)}", f"disagreement on {names}", case)
    for k, t in trees.items():
        d = a2ldoc.compare_tree(t, results[k]["tree"])
        if d:
            rep.violation("parser:Values", str(d[:3]), case)
    for x in results:
        if "panic" in x:
            rep.violation("load:panic", x["panic"], case)
    if PID == "C06":
        for (t, sflag), x in zip(docs, results):
            why = pc.token_lines_agree(t, x)
            if why and why != "skip":
                rep.violation("strictness:TokenLine", why, case)
    print("replay:", "violation reproduced" if rep.new else "no violation")
    return rep.exit_code()
