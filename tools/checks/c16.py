"""C16 - /include is transparent for loading and preserved by writing.

B1  Include.tla models include resolution (paths relative to the including file), flattening and
    the writer's reproduction of directives from the per-element include-file attribution; TLC
    checks for every generated shape that the ideal main file and the implementation-shaped one
    (Attribution = "outermost") reload to the flattened element sequence, and that the pinned
    algorithm (Attribution = "innermost") violates this for nested includes (expected violation).
B2  every shape (8 shapes x placement of each include file in the same / a sub / a sub-sub
    directory of its includer x quoted / unquoted x '/' / '\\') is materialised as a directory
    tree and run through the real library: load == load of the flattened text, write next to
    the unchanged include files and reload ==, the written main file has exactly the directives
    of the ideal main file (one per direct include, none for nested ones, no included element
    inline), merge_includes gives a directive-free text that reloads ==; an /include inside the
    A2ML block; faults: missing file, directory instead of file, missing nested file, self
    include, mutual include (each in its own process with a time limit).
B3  family subblock: in the positive document of every element of the grammar (MC_ParserCases) each block
    below MODULE level is in turn taken from an include file; same relations.
"""
import json
import os
import re
import shutil
import subprocess
import time

import vlib

PID = "C16"
ELEM = '/begin MEASUREMENT m{i} "" UBYTE NO_COMPU_METHOD 1 1 0 255 /end MEASUREMENT'
HEAD = 'ASAP2_VERSION 1 71\n/begin PROJECT p ""\n  /begin MODULE m ""\n'
TAIL = '  /end MODULE\n/end PROJECT\n'
AML = 'block "IF_DATA" taggedunion if_data {\n  "X" struct { uint; };\n};\n'


def relpath(f):
    parts = {"same": [], "sub": ["sub1"], "subsub": ["sub1", "sub2"], "digitdir": ["2024_units"]}[f["place"]]
    return parts + [f["name"]]


ABS_DIR = [None]


def directive(f):
    p = f["sep"].join(relpath(f))
    if ABS_DIR[0] is not None:
        p = os.path.join(ABS_DIR[0], *relpath(f))
    return f'/include "{p}"' if f["quoted"] else f"/include {p}"


COMMENTS_IN_INCLUDES = [False]


def materialise(f, directory, is_main, files):
    """write file f (and recursively its includes) below `directory`; returns the body text"""
    lines = []
    for it in f["items"]:
        if it["k"] == "e":
            if COMMENTS_IN_INCLUDES[0] and not is_main and lines:
                lines.append(f"    /* a comment in front of m{it['id']} */")
            lines.append("    " + ELEM.format(i=it["id"]))
        else:
            child = it["f"]
            lines.append("    " + directive(child))
            cdir = os.path.join(directory, *relpath(child)[:-1])
            os.makedirs(cdir, exist_ok=True)
            body = materialise(child, cdir, False, files)
            p = os.path.join(cdir, child["name"])
            with open(p, "w") as fh:
                fh.write(body)
            files.append(p)
    body = "\n".join(lines) + ("\n" if lines else "")
    return HEAD + body + TAIL if is_main else body


def flat_text(ids):
    return HEAD + "".join("    " + ELEM.format(i=i) + "\n" for i in ids) + TAIL


def main_items_of_text(text):
    """what the written main file contains between MODULE and /end MODULE: elements and directives"""
    out = []
    for m in re.finditer(r'/include\s+("([^"]*)"|(\S+))|/begin MEASUREMENT (m\d+)', text):
        if m.group(4):
            out.append({"k": "e", "id": int(m.group(4)[1:])})
        else:
            name = m.group(2) if m.group(2) is not None else m.group(3)
            out.append({"k": "dir", "name": re.split(r"[\\/]", name)[-1]})
    return out


def prepare(cases, root):
    prepared = []
    for i, c in enumerate(cases):
        d = os.path.join(root, f"c{i}")
        src, dst = os.path.join(d, "src"), os.path.join(d, "out")
        os.makedirs(src)
        files = []
        if c["fam"] == "shape":
            COMMENTS_IN_INCLUDES[0] = bool(c.get("cmt"))
            ABS_DIR[0] = src if c.get("abs") else None
            text = materialise(c["f"], src, True, files)
            COMMENTS_IN_INCLUDES[0] = False
            ABS_DIR[0] = None
            flat = flat_text(c["flat"])
            if c.get("enc", "utf8") != "utf8":
                codec, bom = {"utf8bom": ("utf-8", b"\xef\xbb\xbf"), "utf16le_bom": ("utf-16-le", b"\xff\xfe"), "utf16be_bom": ("utf-16-be", b"\xfe\xff"),
                              "utf32le_bom": ("utf-32-le", b"\xff\xfe\x00\x00"), "utf16le": ("utf-16-le", b"")}[c["enc"]]
                for fp in files:
                    with open(fp) as fh:
                        body = fh.read()
                    with open(fp, "wb") as fh:
                        fh.write(bom + body.lstrip().encode(codec))
        elif c["fam"] == "a2ml":
            f = {"place": c["place"], "name": "spec.aml", "sep": c["sep"], "quoted": c["quoted"]}
            cdir = os.path.join(src, *relpath(f)[:-1])
            os.makedirs(cdir, exist_ok=True)
            with open(os.path.join(cdir, "spec.aml"), "w") as fh:
                fh.write(AML)
            meas = '    /begin MEASUREMENT m1 "" UBYTE NO_COMPU_METHOD 1 1 0 255 /begin IF_DATA X 1 /end IF_DATA /end MEASUREMENT\n'
            if c.get("nested"):
                # main -> <place>/blk.a2l, which holds the A2ML block with /include spec.aml (next to blk.a2l)
                with open(os.path.join(cdir, "blk.a2l"), "w") as fh:
                    fh.write("    /begin A2ML\n" + directive({"place": "same", "name": "spec.aml", "sep": "/", "quoted": c["quoted"]}) + "\n    /end A2ML\n")
                text = HEAD + "    " + directive({"place": c["place"], "name": "blk.a2l", "sep": "/", "quoted": True}) + "\n" + meas + TAIL
            else:
                text = HEAD + "    /begin A2ML\n" + directive(f) + "\n    /end A2ML\n" + meas + TAIL
            flat = HEAD + "    /begin A2ML\n" + AML + "\n    /end A2ML\n" + meas + TAIL
        elif c["fam"] == "diag":
            # main -> incA (-> incB): the innermost file holds an unknown keyword on its 3rd line
            f = {"place": c["place"], "name": "incA.a2l", "sep": "/", "quoted": True}
            cdir = os.path.join(src, *relpath(f)[:-1])
            os.makedirs(cdir, exist_ok=True)
            faulty = '    /begin MEASUREMENT m1 "" UBYTE NO_COMPU_METHOD 1 1 0 255\n      ECU_ADDRESS 0x10\n      UNKNOWN_KEYWORD_IN_INCLUDE 1\n    /end MEASUREMENT\n'
            if c["level"] == 1:
                with open(os.path.join(cdir, "incA.a2l"), "w") as fh:
                    fh.write(faulty)
            else:
                with open(os.path.join(cdir, "incA.a2l"), "w") as fh:
                    fh.write('    /include "incB.a2l"\n')
                with open(os.path.join(cdir, "incB.a2l"), "w") as fh:
                    fh.write(faulty)
            text = HEAD + "    " + ELEM.format(i=5) + "\n" + "    " + directive(f) + "\n" + TAIL
            flat = ""
        elif c["fam"] == "shared":
            q = (lambda n: f'"{n}"') if c["quoted"] else (lambda n: n)
            with open(os.path.join(src, "common.inc"), "w") as fh:
                fh.write("ECU_ADDRESS 0x1234\n")
            m = '    /begin MEASUREMENT m{i} "" UBYTE NO_COMPU_METHOD 1 1 0 255 {x} /end MEASUREMENT\n'
            if c["diamond"]:
                for n in ("a", "b"):
                    with open(os.path.join(src, f"inc_{n}.a2l"), "w") as fh:
                        fh.write(m.format(i=1 if n == "a" else 2, x=f"/include {q('common.inc')}"))
                text = HEAD + f"    /include {q('inc_a.a2l')}\n    /include {q('inc_b.a2l')}\n" + TAIL
            else:
                text = HEAD + m.format(i=1, x=f"/include {q('common.inc')}") + m.format(i=2, x=f"/include {q('common.inc')}") + TAIL
            flat = HEAD + m.format(i=1, x="ECU_ADDRESS 0x1234") + m.format(i=2, x="ECU_ADDRESS 0x1234") + TAIL
        elif c["fam"] == "ifdata":
            f = {"place": c["place"], "name": "ifdata.inc", "sep": c["sep"], "quoted": c["quoted"]}
            cdir = os.path.join(src, *relpath(f)[:-1])
            os.makedirs(cdir, exist_ok=True)
            content = "X 17" if c["described"] else "VENDOR 1 0x2 /begin B 3 /end B"
            with open(os.path.join(cdir, "ifdata.inc"), "w") as fh:
                fh.write(content + "\n")
            aml = ("    /begin A2ML\n" + AML + "    /end A2ML\n") if c["described"] else ""
            meas = '    /begin MEASUREMENT m1 "" UBYTE NO_COMPU_METHOD 1 1 0 255 /begin IF_DATA {x} /end IF_DATA /end MEASUREMENT\n'
            text = HEAD + aml + meas.format(x=directive(f)) + TAIL
            flat = HEAD + aml + meas.format(x=content) + TAIL
        else:
            text, flat = fault_files(c, src)
        with open(os.path.join(src, "main.a2l"), "w") as fh:
            fh.write(text)
        shutil.copytree(src, dst)
        os.remove(os.path.join(dst, "main.a2l"))
        prepared.append({"id": i, "main": os.path.join(src, "main.a2l"), "flat": flat, "outdir": dst, "lenient": c["fam"] == "diag"})
    return prepared


def fault_files(c, src):
    q = (lambda n: f'"{n}"') if c["quoted"] else (lambda n: n)
    ft = c["fault"]
    if ft == "missing":
        body = f"    /include {q('nofile.a2l')}\n"
    elif ft == "isdir":
        os.makedirs(os.path.join(src, "adir.a2l"))
        body = f"    /include {q('adir.a2l')}\n"
    elif ft == "missing_nested":
        with open(os.path.join(src, "incA.a2l"), "w") as fh:
            fh.write(f"    /include {q('nofile.a2l')}\n")
        body = f"    /include {q('incA.a2l')}\n"
    elif ft == "self":
        body = f"    /include {q('main.a2l')}\n"
    else:
        with open(os.path.join(src, "incA.a2l"), "w") as fh:
            fh.write(f"    /include {q('incB.a2l')}\n")
        with open(os.path.join(src, "incB.a2l"), "w") as fh:
            fh.write(f"    /include {q('incA.a2l')}\n")
        body = f"    /include {q('incA.a2l')}\n"
    return HEAD + "    " + ELEM.format(i=1) + "\n" + body + TAIL, ""


FAULT_NAME = {"missing": "nofile.a2l", "isdir": "adir.a2l", "missing_nested": "nofile.a2l", "self": "main.a2l", "mutual": "inc"}


DECOY_CWD = [None]


def make_decoy(root):
    """the working directory of the harness process: it holds a file for every relative name that occurs in an /include
    directive of the generated trees, with other content.  Include names are relative to the including file, never to the
    working directory of the process; a loader that looks there first reads these files."""
    decoy = os.path.join(vlib.scratch(), "include_decoy_cwd")
    os.makedirs(decoy, exist_ok=True)
    names = set()
    for dirpath, _, files in os.walk(root):
        for fn in files:
            try:
                with open(os.path.join(dirpath, fn), encoding="utf-8") as f:
                    text = f.read()
            except (UnicodeDecodeError, OSError):
                continue
            for m in re.finditer(r'/include\s+(?:"([^"\n]+)"|([^\s"]+))', text):
                name = (m.group(1) or m.group(2)).replace("\\", "/")
                # only names that resolve next to the including file: a name that does not exist there is tried as given
                # (relative to the working directory) by the pinned loader, and that fallback is not judged
                if os.path.isfile(os.path.join(dirpath, os.path.normpath(name))):
                    names.add(name)
    n = 0
    for name in sorted(names):
        norm = os.path.normpath(name)
        if os.path.isabs(name) or norm.startswith("..") or re.match(r"^[A-Za-z]:", name):
            continue
        path = os.path.join(decoy, norm)
        if os.path.isdir(path):
            continue
        os.makedirs(os.path.dirname(path), exist_ok=True)
        with open(path, "w") as f:
            f.write('/begin MEASUREMENT decoy_from_the_working_directory "" UBYTE NO_COMPU_METHOD 1 1 0 255 /end MEASUREMENT\n')
        n += 1
    DECOY_CWD[0] = decoy
    return n


def run_one(binp, prep, timeout=20):
    p = os.path.join(vlib.scratch(), f"inc_case_{prep['id']}.ndjson")
    vlib.write_ndjson(p, [prep])
    try:
        r = subprocess.run(["bash", "-c", f"ulimit -v 4000000; exec '{binp}' include-op --cases '{p}'"], stdout=subprocess.PIPE, stderr=subprocess.PIPE, timeout=timeout,
                           cwd=DECOY_CWD[0])
    except subprocess.TimeoutExpired:
        return {"id": prep["id"], "load": "timeout"}
    for l in r.stdout.decode("utf-8", "replace").splitlines():
        if l.startswith("{"):
            return json.loads(l)
    return {"id": prep["id"], "load": "abort", "error": f"process ended with status {r.returncode}: {r.stderr.decode('utf-8', 'replace')[-200:]}"}


def judge(c, r, rep, prep):
    what = c.get("sh") or c.get("fault") or c["fam"]
    replay = {"kind": "include", "case": c}

    def bad(sig, msg):
        rep.violation(f"include:{sig}:{what}", msg, replay)

    if c["fam"] == "fault":
        ft = c["fault"]
        if r["load"] in ("panic", "abort", "timeout"):
            bad("fault-not-an-error", f"{ft}: loading ended with {r['load']}: {r.get('error', '')[:200]} (an error value naming the directive is required)")
        elif r["load"] == "ok":
            bad("fault-accepted", f"{ft}: loading succeeded although the include cannot be resolved")
        elif FAULT_NAME[ft] not in r.get("error", ""):
            bad("fault-error-unnamed", f"{ft}: the error does not name the directive's file: {r.get('error')}")
        return
    if r["load"] != "ok":
        bad("load", f"load failed: {r.get('error')}")
        return
    if c["fam"] == "diag":
        want_file = "incA.a2l" if c["level"] == 1 else "incB.a2l"
        texts = r.get("log_texts", [])
        if len(texts) != 1 or f"{want_file}:3:" not in texts[0]:
            bad("diagnostic-file-line", f"the diagnostic for a problem on line 3 of {want_file} reads {texts}")
        return
    if "flat_error" in r:
        vlib.tool_error(f"flattened text does not load: {r['flat_error']}")
    key = "eq_flat" if c["fam"] == "shape" else "eq_flat_after_merge_includes"
    if not r.get(key):
        bad("flatten", "the model loaded through /include differs from the model of the flattened text")
    if r.get("reload") != "ok":
        bad("reload", f"the written main file does not load from the directory of the include files: {r.get('reload_error') or r.get('write_error')}")
    elif not r.get("eq_reload"):
        bad("reload", "loading the written main file gives a different model")
    if c["fam"] == "shape":
        got = main_items_of_text(r.get("written", ""))
        want = [x for x in c["main"]]
        if c["sh"] == "empty_inc":
            want = [x for x in want if not (x["k"] == "dir")]
            got = [x for x in got if not (x["k"] == "dir")]
        if got != want:
            bad("directives", f"written main file holds {got}, expected {want}")
    if r.get("merged_has_directive"):
        bad("merge_includes", "output after merge_includes() still contains an /include directive")
    if "merged_reload_error" in r or not r.get("eq_merged_reload"):
        bad("merge_includes", f"output after merge_includes() does not reload to an equal model {r.get('merged_reload_error', '')}")


# --------------------------------------------------------------------------------------------
# family "subblock": every block of every element of the grammar taken from an include file
# --------------------------------------------------------------------------------------------
TOK = re.compile(r'"(?:[^"\\]|\\.|"")*"|/\*.*?\*/|//[^\n]*|[^\s"]+', re.S)


def sub_blocks(text):
    """(tag, start, end) character ranges of the items below MODULE level (children of MODULE and deeper): the
    /begin X ... /end X blocks and the keyword items (a child tag of the enclosing element without /begin, up to the next
    child tag, /begin or /end); the A2ML block (raw text with a syntax of its own, family a2ml) and IF_DATA content left out"""
    import json
    global _GRAMMAR
    try:
        _GRAMMAR
    except NameError:
        with open(os.path.join(vlib.VERIF, "grammar", "grammar.json")) as f:
            _GRAMMAR = json.load(f)["elements"]
    out, stack = [], []
    toks = [(m.group(0), m.start(), m.end()) for m in TOK.finditer(text)]
    i = 0
    while i < len(toks):
        t, a, b = toks[i]
        if t == "/begin":
            stack.append((toks[i + 1][0], a))
            i += 2
            continue
        if t == "/end":
            tag, a0 = stack.pop()
            if len(stack) >= 2 and tag != "A2ML" and not any(x[0] in ("A2ML", "IF_DATA") for x in stack):
                out.append((tag, a0, toks[i + 1][2]))
            i += 2
            continue
        if len(stack) >= 3 and not any(x[0] in ("A2ML", "IF_DATA") for x in stack):
            kids = {c["tag"] for c in _GRAMMAR.get(stack[-1][0], {}).get("children", [])}
            if t in kids:
                j = i + 1
                while j < len(toks) and toks[j][0] not in ("/begin", "/end") and toks[j][0] not in kids:
                    j += 1
                out.append((t, a, toks[j - 1][2]))
                i = j
                continue
        i += 1
    return out


def subblock_cases(root, tier):
    """positive documents of MC_ParserCases (every element of the grammar with all its sub-elements): one case per block"""
    import parsercases as pc
    res = vlib.tlc("MC_ParserCases", workers=8, coverage=False, timeout=900)
    pos = [c for c in res.prints("CASE") if c["k"] == "pos" and c.get("ver") == 171]
    prepared, metas = [], []
    seen = set()
    for c in pos:
        text = pc.concretise(c)
        for tag, a, b in sub_blocks(text):
            block = text[a:b]
            key = (tag, block)
            if tier != "thorough" and key in seen:      # quick: every distinct block text once
                continue
            seen.add(key)
            n = len(prepared)
            d = os.path.join(root, f"sb{n}")
            src, dst = os.path.join(d, "src"), os.path.join(d, "out")
            os.makedirs(src)
            os.makedirs(dst)
            main = text[:a] + '/include "part.a2l"' + text[b:]
            for dd in (src, dst):
                with open(os.path.join(dd, "part.a2l"), "w") as f:
                    f.write(block + "\n")
            with open(os.path.join(src, "main.a2l"), "w") as f:
                f.write(main)
            prepared.append({"id": f"sb{n}", "main": os.path.join(src, "main.a2l"), "flat": text, "outdir": dst})
            metas.append({"fam": "subblock", "e": c["e"], "tag": tag, "main": main, "part": block, "flat": text})
    return prepared, metas


def judge_subblock(m, r, rep):
    replay = {"kind": "subblock", "case": m}

    def bad(sig, msg):
        rep.violation(f"include:{sig}:subblock:{m['tag']}", f"{m['tag']} of {m['e']} taken from an include file: {msg}", replay)
    if r.get("load") != "ok":
        return bad("load", f"load failed: {r.get('error')}")
    if "flat_error" in r:
        vlib.tool_error(f"positive document does not load: {r['flat_error']}")
    if not r.get("eq_flat"):
        bad("flatten", "the model differs from the model of the text with the block in place")
    if r.get("reload") != "ok":
        bad("reload", f"the written main file does not load: {r.get('reload_error') or r.get('write_error')}")
    elif not r.get("eq_reload"):
        bad("reload", "loading the written main file gives a different model")
    def toks(t):        # the writer prints hexadecimal digits in upper case
        return [x.lower() if re.fullmatch(r"0[xX][0-9a-fA-F]+", x) else x for x in TOK.findall(t)]
    if toks(r.get("written", "")) != toks(m["main"]):
        bad("directives", "the written main file does not hold the tokens of the original main file (one /include at the place of the block)")
    if r.get("merged_has_directive"):
        bad("merge_includes", "output after merge_includes() still contains an /include directive")
    if "merged_reload_error" in r or not r.get("eq_merged_reload") or not r.get("eq_flat_after_merge_includes"):
        bad("merge_includes", f"output after merge_includes() does not reload to the model of the text with the block in place {r.get('merged_reload_error', '')}")


def run_subblocks(binp, rep, tier, root):
    prepared, metas = subblock_cases(root, tier)
    if len(prepared) < 300:
        vlib.tool_error(f"vacuity: only {len(prepared)} sub-block cases")
    pth = os.path.join(vlib.scratch(), "inc_subblock_cases.ndjson")
    vlib.write_ndjson(pth, prepared)
    make_decoy(root)
    rc, lines, err = vlib.run_harness(binp, ["include-op", "--cases", pth], timeout=3000, cwd=DECOY_CWD[0])
    results = {l["id"]: l for l in lines if "id" in l}
    for p, m in zip(prepared, metas):
        judge_subblock(m, results.get(p["id"]) or run_one(binp, p), rep)
    return len(prepared), len({m["tag"] for m in metas})


def run(tier, selftest):
    t0 = time.time()
    rep = vlib.Reporter(PID)
    binp = vlib.build_harness()
    res = vlib.tlc("MC_Include", workers=8, coverage=False, timeout=900)
    if res.violation:
        rep.violation(f"include-spec:{res.violation}", "TLC: the writer model of Include.tla does not reproduce the includes", {"kind": "tlc"})
    res_i = vlib.tlc("MC_Include", cfg="MC_Include_Innermost", workers=4, coverage=False, timeout=900, expect_violation=True)
    if res_i.violation != "ImplOK":
        vlib.tool_error("expected-violation configuration MC_Include_Innermost did not fail")
    cases = list(res.prints("CASE"))
    ngen = 0
    if tier == "thorough":
        # include trees generated from patterns (four levels, up to 7 files)
        res_g = vlib.tlc("MC_IncludeGen", workers=8, coverage=False, timeout=1800, heap="8g")
        if res_g.violation:
            rep.violation(f"include-spec:{res_g.violation}", "TLC: the writer model of Include.tla does not reproduce the includes of a generated tree", {"kind": "tlc"})
        gen = list(res_g.prints("CASE"))
        ngen = len(gen)
        if ngen < 10000:
            vlib.tool_error(f"vacuity: only {ngen} generated include trees")
        cases += gen
    fams = {}
    for c in cases:
        fams[c["fam"]] = fams.get(c["fam"], 0) + 1
    if set(fams) != {"shape", "fault", "a2ml", "ifdata", "shared", "diag"}:
        vlib.tool_error(f"vacuity: families {fams}")
    root = os.path.join(vlib.scratch(), "include_trees")
    os.makedirs(root)
    prepared = prepare(cases, root)
    # all regular cases in one process, fault cases one process each (an abort must not hide the others)
    regular = [p for p, c in zip(prepared, cases) if c["fam"] != "fault"]
    pth = os.path.join(vlib.scratch(), "inc_cases.ndjson")
    vlib.write_ndjson(pth, regular)
    ndecoy = make_decoy(root)
    rc, lines, err = vlib.run_harness(binp, ["include-op", "--cases", pth], timeout=3000, cwd=DECOY_CWD[0])
    results = {l["id"]: l for l in lines if "id" in l}
    for p, c in zip(prepared, cases):
        if c["fam"] == "fault":
            results[p["id"]] = run_one(binp, p)
        elif p["id"] not in results:
            results[p["id"]] = run_one(binp, p)
    for p, c in zip(prepared, cases):
        judge(c, results[p["id"]], rep, p)
    nsub, ntags = run_subblocks(binp, rep, tier, root)
    binding = None
    if selftest or tier == "thorough":
        c = next(c for c in cases if c["fam"] == "shape" and c["sh"] == "flat1")
        p = prepared[cases.index(c)]
        r = dict(results[p["id"]])
        r["written"] = r.get("written", "").replace("/include", "/xinclude")
        silent = vlib.Reporter("SELFTEST")
        silent.violation = lambda *a, **k: silent.new.append("x")
        judge(c, r, silent, p)
        binding = {"dropped_directive_detected": len(silent.new) > 0}
        if not all(binding.values()):
            vlib.tool_error(f"binding selftest failed: {binding}")
    shutil.rmtree(root, ignore_errors=True)
    cov = {
        "states": res.distinct,
        "transitions": res.generated,
        "traces_validated_against_impl": len(cases),
        "exhaustive": True,
        "evaluations": len(cases),
        "distinct_nontrivial": sum(1 for c in cases if c["fam"] != "shape" or c["sh"] in ("nested2", "nested3", "sibling_nested", "generated")),
        "rule": "8 include shapes x 3 placements per include file x quoted/unquoted x 2 separators, an include inside A2ML (12 variants), 5 fault kinds x quoted/unquoted; thorough: every include tree of MC_IncludeGen (patterns over four levels, up to 7 files, placement per level, quoted with / or unquoted with backslash); non-trivial = nested includes, A2ML includes and faults",
        "samples": [cases[0], next(c for c in cases if c["fam"] == "fault")],
        "families": fams,
        "generated_include_trees": ngen,
        "decoy_files_in_the_working_directory": ndecoy,
        "blocks_of_grammar_elements_taken_from_an_include_file": nsub,
        "distinct_block_tags_included": ntags,
        "expected_violation_config": {"cfg": "MC_Include_Innermost", "violated": res_i.violation},
    }
    if binding:
        cov["binding_mutations_rejected"] = binding
    vlib.write_evidence(PID, tier, "model_checking", cov, [
        "unreadable include is realised as 'path is a directory' (the sandbox runs as root, permission bits do not deny reads)",
        "the harness process runs in a working directory that holds a file of other content for every relative include name of the generated trees that resolves next to its including file (the loader's fallback for names that do not - the name as given, i.e. relative to the working directory - is not judged)",
        "an include file without elements leaves no trace in the model; its directive is not required in the written file",
        "an unquoted name that begins with a digit or a slash is not read as a file name by the tokenizer: directories that begin with a digit and absolute paths are generated in quoted names only",
        "for an /include inside the A2ML block the model is compared after merge_includes() (the raw A2ML text necessarily differs: directive vs. included text)",
    ], time.time() - t0, rep.count_new)
    return rep.exit_code()


def replay(path):
    with open(path) as f:
        r = json.load(f)
    rep = vlib.Reporter(PID)
    binp = vlib.build_harness()
    case = r["case"]
    if case.get("kind") == "tlc":
        res = vlib.tlc("MC_Include", workers=8, coverage=False, timeout=900, expect_violation=True)
        if res.violation:
            rep.violation(f"include-spec:{res.violation}", "TLC property violated", case)
    elif case.get("kind") == "subblock":
        m = case["case"]
        d = os.path.join(vlib.scratch(), "include_replay_sb")
        src, dst = os.path.join(d, "src"), os.path.join(d, "out")
        os.makedirs(src)
        os.makedirs(dst)
        for dd in (src, dst):
            with open(os.path.join(dd, "part.a2l"), "w") as f:
                f.write(m["part"] + "\n")
        with open(os.path.join(src, "main.a2l"), "w") as f:
            f.write(m["main"])
        p = {"id": "sb0", "main": os.path.join(src, "main.a2l"), "flat": m["flat"], "outdir": dst}
        judge_subblock(m, run_one(binp, p), rep)
    else:
        root = os.path.join(vlib.scratch(), "include_replay")
        os.makedirs(root)
        prepared = prepare([case["case"]], root)
        res = run_one(binp, prepared[0])
        judge(case["case"], res, rep, prepared[0])
    print("replay:", "violation reproduced" if rep.new else "no violation")
    return rep.exit_code()
