"""C20 - the shipped generated code behaves like a fresh expansion of the spec DSL.

Two probe binaries of the same harness are built: P_shipped against /repo/a2lfile as it is
(specification.rs = the shipped generated code) and P_fresh against a scratch copy in which
specification.rs is replaced by specification_orig.rs (the a2l_specification! macro invocation)
and a2lmacros is the in-tree generator.  Both run the same TLC-generated corpus - the C04 case
space (positives and deviations, strict and lenient), the literal catalogue, laid-out documents -
and their transcripts (Debug tree of the model, Display text of the error and of every
diagnostic, written text, reload cycles) are compared case by case; in addition the outcomes of
P_fresh are validated against Parser.tla like those of P_shipped in C04, so both variants are
bound to the same specification.
"""
import json
import os
import random
import shutil
import subprocess
import time

import docgen
import layoutlib
import parsercases as pc
import vlib
from checks import c04, layoutcheck

PID = "C20"


def build_fresh():
    """harness built against the macro variant of the crate; returns the binary path"""
    sd = os.path.join(vlib.scratch(), "fresh")
    os.makedirs(sd)
    crate = os.path.join(sd, "a2lfile")
    shutil.copytree(os.path.join(vlib.REPO, "a2lfile"), crate, ignore=shutil.ignore_patterns("target"))
    shutil.copyfile(os.path.join(crate, "src", "specification_orig.rs"), os.path.join(crate, "src", "specification.rs"))
    ct = open(os.path.join(crate, "Cargo.toml")).read()
    import re
    ct, n = re.subn(r'\[dependencies\.a2lmacros\]\nversion = "[^"]*"', f'[dependencies.a2lmacros]\npath = "{vlib.REPO}/a2lmacros"', ct)
    if n != 1:
        vlib.tool_error("cannot redirect the a2lmacros dependency of the scratch crate")
    open(os.path.join(crate, "Cargo.toml"), "w").write(ct + "\n[workspace]\n")
    h = os.path.join(sd, "harness")
    os.makedirs(h)
    shutil.copytree(os.path.join(vlib.HARNESS, "src"), os.path.join(h, "src"))
    shutil.copytree(os.path.join(vlib.HARNESS, ".cargo"), os.path.join(h, ".cargo"))
    shutil.copyfile(os.path.join(vlib.HARNESS, "Cargo.lock"), os.path.join(h, "Cargo.lock"))
    cargo = open(os.path.join(vlib.HARNESS, "Cargo.toml")).read().replace('path = "/repo/a2lfile"', f'path = "{crate}"')
    open(os.path.join(h, "Cargo.toml"), "w").write(cargo)
    env = dict(os.environ)
    env["CARGO_NET_OFFLINE"] = "true"
    p = subprocess.run(["cargo", "build", "--offline", "--quiet"], cwd=h, env=env, stdout=subprocess.PIPE, stderr=subprocess.STDOUT, text=True)
    binp = os.path.join(h, "target", "debug", "a2lverif")
    if p.returncode != 0 or not os.path.exists(binp):
        print(p.stdout[-3000:])
        vlib.tool_error("the fresh-expansion variant of the crate does not build")
    return binp


def run(tier, selftest):
    t0 = time.time()
    rep = vlib.Reporter(PID)
    shipped = vlib.build_harness()
    fresh = build_fresh()
    res = vlib.tlc("MC_ParserCases", workers=8, coverage=False, timeout=900)
    cases = list(res.prints("CASE"))
    sel = c04.select(cases, tier, vlib.seed() + 20) + [c for c in cases if c["k"] == "multi"]
    docs, meta = [], []
    for c in sel:
        t = pc.concretise(c)
        for s in (True, False):
            docs.append((t, s))
            meta.append(c)
    # laid-out documents
    rng = random.Random(vlib.seed() * 13 + 20)
    lres = vlib.tlc("MC_LayoutCases", workers=8, coverage=False, timeout=900)
    pats = list(lres.prints("CASE"))
    for e in layoutcheck.ELEMENTS:
        for p in rng.sample(pats, 20 if tier == "thorough" else 1):
            docs.append((layoutlib.apply_pattern(e, p)[0], False))
            meta.append({"k": "layout", "e": e, "pat": p})
    want = ("tokens", "tree", "write", "cycle")
    ra = pc.run_loads(shipped, docs, "c20a", want=want)
    rb = pc.run_loads(fresh, docs, "c20b", want=want)
    disagreements = 0
    for i, (a, b) in enumerate(zip(ra, rb)):
        if a != b:
            disagreements += 1
            keys = [k for k in set(a) | set(b) if a.get(k) != b.get(k)]
            c = meta[i]
            rep.violation(f"regen:{'+'.join(sorted(keys))}:{c['k']}",
                          f"shipped and freshly generated code differ in {keys} for case {c} ({'strict' if docs[i][1] else 'lenient'})",
                          {"kind": "doc", "case": c, "text": docs[i][0], "strict": docs[i][1]})
    # edits through the API (defaults of new objects and of appended items come from generated code too)
    import editcheck
    ecases, _ = editcheck.build_cases("quick", random.Random(vlib.seed() * 7 + 20))
    ein = os.path.join(vlib.scratch(), "c20_edit.ndjson")
    vlib.write_ndjson(ein, ecases)
    eouts = []
    for tag, b in (("a", shipped), ("b", fresh)):
        eo = os.path.join(vlib.scratch(), f"c20_edit_{tag}.out")
        rc, _, err = vlib.run_harness(b, ["edit-op", "--cases", ein, "--out", eo], timeout=1800)
        if rc != 0:
            vlib.tool_error(f"edit-op failed: {err[-300:]}")
        eouts.append([json.loads(l) for l in open(eo) if l.strip()])
    nedits = 0
    for case, xa, xb in zip(ecases, eouts[0], eouts[1]):
        for ea, eb in zip(xa.get("results", []), xb.get("results", [])):
            nedits += 1
            if ea != eb:
                disagreements += 1
                keys = [k for k in set(ea) | set(eb) if ea.get(k) != eb.get(k)]
                ed = ea["edit"]
                rep.violation(f"regen:edit:{ed['op']}:{ed['kind']}", f"shipped and freshly generated code differ in {keys} after the API edit {ed}",
                              {"kind": "edit", "text": case["text"], "cumulative": case["cumulative"], "edits": case["edits"] if case["cumulative"] else [ed]})
    # equality (generated PartialEq): twin documents that differ in one parameter token
    pairs = layoutcheck.value_pair_docs("quick", vlib.seed())
    pin = os.path.join(vlib.scratch(), "c20_pairs.ndjson")
    vlib.write_ndjson(pin, [{"id": i, "text": p["text"], "text2": p["text2"], "strict": True, "want": []} for i, p in enumerate(pairs)])
    pouts = []
    for tag, b in (("a", shipped), ("b", fresh)):
        po = os.path.join(vlib.scratch(), f"c20_pairs_{tag}.out")
        rc, _, err = vlib.run_harness(b, ["load-op", "--cases", pin, "--out", po], timeout=1800)
        if rc != 0:
            vlib.tool_error(f"load-op (pairs) failed: {err[-300:]}")
        pouts.append([json.loads(l) for l in open(po) if l.strip()])
    for p, xa, xb in zip(pairs, pouts[0], pouts[1]):
        if xa.get("pair") != xb.get("pair"):
            disagreements += 1
            rep.violation(f"regen:equality:{p['e']}", f"shipped and freshly generated code disagree on == for documents that differ in {p['tok']} / {p['twin']} of {p['e']}: {xa.get('pair')} vs {xb.get('pair')}",
                          {"kind": "pair", "pair": p})
    # include files: every block of every element taken from an include file (load, write, merge_includes)
    from checks import c16
    iroot = os.path.join(vlib.scratch(), "c20_inc")
    os.makedirs(iroot)
    iprep, imeta = c16.subblock_cases(iroot, "quick")
    ipth = os.path.join(vlib.scratch(), "c20_inc_cases.ndjson")
    vlib.write_ndjson(ipth, iprep)
    ires = []
    for b in (shipped, fresh):
        rc, lines, err = vlib.run_harness(b, ["include-op", "--cases", ipth], timeout=3000)
        ires.append({l["id"]: l for l in lines if "id" in l})
    for p, m in zip(iprep, imeta):
        xa, xb = ires[0].get(p["id"]), ires[1].get(p["id"])
        if xa != xb:
            disagreements += 1
            keys = [k for k in set(xa or {}) | set(xb or {}) if (xa or {}).get(k) != (xb or {}).get(k)]
            rep.violation(f"regen:include:{m['tag']}", f"shipped and freshly generated code differ in {keys} when {m['tag']} of {m['e']} is taken from an include file",
                          {"kind": "include", "meta": m})
    shutil.rmtree(iroot, ignore_errors=True)
    # (i) the fresh variant conforms to the specification as well
    events = [pc.load_event(r, s, c if c["k"] not in ("layout",) else None) for r, (t, s), c in zip(rb, docs, meta)]
    rejected, trees, tr, njudged = pc.judge_events(events, PID)
    for k, names in sorted(rejected.items()):
        c = meta[k]
        rep.violation(f"regen-parser:{'+'.join(names)}:{c['k']}", f"freshly generated code disagrees with Parser.tla on {names} for case {c}",
                      {"kind": "doc", "case": c, "text": docs[k][0], "strict": docs[k][1]})
    binding = None
    if selftest or tier == "thorough":
        a = json.loads(json.dumps(ra[0]))
        a["written"] = (a.get("written") or "") + " "
        binding = {"transcript_difference_detected": a != rb[0]}
    kinds = {}
    for c in meta:
        kinds[c["k"]] = kinds.get(c["k"], 0) + 1
    cov = {
        "programs": 2,
        "disagreements_checked": len(docs),
        "samples": [{"case": meta[0], "text": docs[0][0][:300]}, {"case": meta[-1]["e"], "layout": meta[-1]["pat"]}],
        "evaluations": len(docs),
        "distinct_nontrivial": sum(1 for c in meta if c["k"] != "pos"),
        "rule": "every document of the corpus is run through both builds; a case counts as checked when all transcript parts (tokens, outcome, error and diagnostic texts, Debug tree, written text, three reload cycles) were compared",
        "disagreements_found": disagreements,
        "api_edits_compared": nedits,
        "include_cases_compared": len(iprep),
        "twin_documents_compared": len(pairs),
        "cases_per_kind": kinds,
        "fresh_variant_events_validated_against_parser_spec": njudged,
        "fresh_variant_events_rejected": len(rejected),
    }
    if binding:
        cov["binding_mutations_rejected"] = binding
    vlib.write_evidence(PID, tier, "translation_validation", cov, [
        "differential comparison on the TLC-generated corpus; the input space is bounded by the corpus (DESIGN.md 7)",
        "P_fresh = /repo/a2lfile with specification.rs replaced by specification_orig.rs and a2lmacros taken from /repo/a2lmacros",
        "transcripts: Debug rendering of the model, Display of errors and diagnostics, write_to_string bytes, reload cycles",
    ], time.time() - t0, rep.count_new)
    return rep.exit_code()


def replay(path):
    with open(path) as f:
        r = json.load(f)
    rep = vlib.Reporter(PID)
    shipped = vlib.build_harness()
    fresh = build_fresh()
    case = r["case"]
    if case.get("kind") == "edit":
        ein = os.path.join(vlib.scratch(), "c20_edit_replay.ndjson")
        vlib.write_ndjson(ein, [{"id": 0, "text": case["text"], "cumulative": case["cumulative"], "edits": case["edits"]}])
        outs = []
        for tag, b in (("a", shipped), ("b", fresh)):
            eo = os.path.join(vlib.scratch(), f"c20_edit_replay_{tag}.out")
            vlib.run_harness(b, ["edit-op", "--cases", ein, "--out", eo])
            outs.append(open(eo).read())
        if outs[0] != outs[1]:
            rep.violation("regen:edit", "shipped and freshly generated code differ after an API edit", case)
        print("replay:", "violation reproduced" if rep.new else "no violation")
        return rep.exit_code()
    if case.get("kind") == "pair":
        pr = case["pair"]
        pin = os.path.join(vlib.scratch(), "c20_pair_replay.ndjson")
        vlib.write_ndjson(pin, [{"id": 0, "text": pr["text"], "text2": pr["text2"], "strict": True, "want": []}])
        outs = []
        for tag, b in (("a", shipped), ("b", fresh)):
            po = os.path.join(vlib.scratch(), f"c20_pair_replay_{tag}.out")
            vlib.run_harness(b, ["load-op", "--cases", pin, "--out", po])
            outs.append(json.loads(open(po).readline()).get("pair"))
        if outs[0] != outs[1]:
            rep.violation("regen:equality", "shipped and freshly generated code disagree on ==", case)
        print("replay:", "violation reproduced" if rep.new else "no violation")
        return rep.exit_code()
    if case.get("kind") == "include":
        from checks import c16
        m = case["meta"]
        d = os.path.join(vlib.scratch(), "c20_inc_replay")
        src, dst = os.path.join(d, "src"), os.path.join(d, "out")
        os.makedirs(src)
        os.makedirs(dst)
        for dd in (src, dst):
            with open(os.path.join(dd, "part.a2l"), "w") as f:
                f.write(m["part"] + "\n")
        with open(os.path.join(src, "main.a2l"), "w") as f:
            f.write(m["main"])
        p = {"id": "sb0", "main": os.path.join(src, "main.a2l"), "flat": m["flat"], "outdir": dst}
        if c16.run_one(shipped, p) != c16.run_one(fresh, p):
            rep.violation("regen:include", "shipped and freshly generated code differ for a block taken from an include file", case)
        print("replay:", "violation reproduced" if rep.new else "no violation")
        return rep.exit_code()
    docs = [(case["text"], case["strict"])]
    want = ("tokens", "tree", "write", "cycle")
    a = pc.run_loads(shipped, docs, "c20a", want=want)[0]
    b = pc.run_loads(fresh, docs, "c20b", want=want)[0]
    if a != b:
        rep.violation("regen:diff", "shipped and freshly generated code differ", case)
    print("replay:", "violation reproduced" if rep.new else "no violation")
    return rep.exit_code()
