"""C10 - cleanup() removes only unreferenced helper elements.

B1  MC_Cleanup: TLC enumerates, for every reference site whose target can be a helper element and
    every helper kind of that namespace, a module in which the helper is referenced only through
    that site (supported / unsupported owner, dangling, with an unused sibling), SUB_GROUP /
    SUB_FUNCTION / REF_UNIT chains and cycles of length 1-3 with member / empty / referenced
    leaves, and GROUP/FUNCTION whose only member is of each object kind; the reference cleanup of
    Graph.tla (a fixpoint) is checked against CleanupOK and idempotence.
B2  every case is rendered to A2L, run through the real cleanup() twice, and the graphs extracted
    from the real objects are judged by the relations of Graph.tla (Trace_Graph); additionally
    the real check() must not report a cross-reference problem after cleanup that it did not
    report before, and the model after the second run must equal (==) the model after the first.
B3  seeded random modules (20-120 elements) judged the same way.
"""
import json
import random
import time

import graphlib  # noqa
import graphmodel as gm
import vlib
from checks import mergecheck

PID = "C10"


def xref_targets(check):
    return sorted({(c.get("target_name")) for c in check if c["class"] == "CrossReferenceError"})


def build_events(allc, out, rep, mo):
    events, idx = [], []
    for i, c in enumerate(allc):
        r = out.get(i)
        if r is None or "snaps" not in r:
            why = (r or {}).get("load_a_error") or (r or {}).get("harness_panic") or "no result"
            vlib.tool_error(f"generated case does not load ({c['id']}): {why}")
        s0, s1, s2 = r["snaps"][0], r["snaps"][1], r["snaps"][2]
        site = c["id"].get("site", c["id"].get("fam"))
        if "panic" in s1 or "panic" in s2:
            rep.violation(f"cleanup:panic:{site}", f"cleanup panicked: {s1.get('panic') or s2.get('panic')}", {"kind": "cleanup", "case": c, "a": mo[i]["a"]})
            continue
        if s1["tree"] != s2["tree"]:
            rep.violation(f"cleanup:Idempotent:{site}", "the model after a second cleanup() differs from the model after the first", {"kind": "cleanup", "case": c, "a": mo[i]["a"]})
            continue
        new_reports = [t for t in xref_targets(s1.get("check", [])) if t not in xref_targets(s0.get("check", []))]
        if new_reports:
            rep.violation(f"cleanup:NoRemovedIsReferenced:{site}", f"check() reports new dangling references after cleanup: {new_reports}", {"kind": "cleanup", "case": c, "a": mo[i]["a"]})
            continue
        for k in range(2 if c["id"].get("two") else 1):
            G = gm.flat(graphlib.graph_of_tree(s0["tree"], k))
            R = gm.flat(graphlib.graph_of_tree(s1["tree"], k))
            R2 = gm.flat(graphlib.graph_of_tree(s2["tree"], k))
            events.append({"ev": "cleanup", "G": G, "R": R, "R2": R2})
            idx.append(i)
            # element by element: an object or typedef whose references all stay is not altered in any other respect either
            import parsercases as pc

            def refs_of(g):
                d = {}
                for t in g["refs"]:
                    d.setdefault((t[1], t[2]), []).append([t[0], t[3]])
                return d
            r0, r1 = refs_of(G), refs_of(R)
            m0, m1 = gm.module_of(s0["tree"], k), gm.module_of(s1["tree"], k)
            for kind, field in gm.FIELD_OF_KIND.items():
                if kind in gm.HELPER_KINDS:
                    continue
                after = {gm._s(e.get("name")): e for e in m1.get(field) or []}
                for e0 in m0.get(field) or []:
                    n = gm._s(e0.get("name"))
                    if n is not None and n in after and r0.get((kind, n)) == r1.get((kind, n)) and pc.strip_layout(e0) != pc.strip_layout(after[n]):
                        rep.violation(f"cleanup:ObjectsUntouched:content:{kind}", f"cleanup() altered {kind} {n} although all its references stay", {"kind": "cleanup", "case": c, "a": mo[i]["a"]})
    return events, idx


def two_module_cases(cases, step):
    """files with two MODULEs: a case and its predecessor in the enumeration (same names, other use)"""
    out = []
    for j in range(1, len(cases), step):
        cid = dict(cases[j]["id"])
        cid["two"] = True
        out.append({"id": cid, "G": cases[j]["G"], "G0": cases[j - 1]["G"]})
    return out


def run(tier, selftest):
    t0 = time.time()
    rep = vlib.Reporter(PID)
    binp = vlib.build_harness()
    thorough = tier == "thorough"
    res = vlib.tlc("MC_Cleanup", workers=8, coverage=False, timeout=1800)
    if res.violation:
        rep.violation(f"cleanup-spec:{res.violation}", "TLC: the reference cleanup of Graph.tla violates CleanupOK", {"kind": "tlc", "cfg": "MC_Cleanup"})
    cases = list(res.prints("CASE"))
    fams = {}
    for c in cases:
        fams[c["id"]["fam"]] = fams.get(c["id"]["fam"], 0) + 1
    if set(fams) != {"site", "chain", "member", "mixed", "noobj", "alldangling"}:
        vlib.tool_error(f"vacuity: case families {fams}")
    rng = random.Random(vlib.seed() * 104729 + 10)
    rand_cases = []
    for i in range(1200 if thorough else 25):
        _, b = mergecheck.random_pair(rng, rng.choice([30, 60, 120, 240] if thorough else [20, 40]))
        rand_cases.append({"id": {"fam": "random", "n": i}, "G": mergecheck.to_abstract(b)})
    two = two_module_cases(cases, 1 if thorough else 7)
    # USER_RIGHTS with several REF_GROUP blocks (the block is repeatable): a group named by a later block is in use as well
    split = []
    for nblocks in (2, 3):
        names = [f"gk{j}" for j in range(nblocks)]
        G = [{"kind": "USER_RIGHTS", "name": "user0", "c": 41, "refs": [["USER_RIGHTS/REF_GROUP.identifier_list", names]], "opts": {"split_ref_group": True}, "criteria": []}]
        G += [{"kind": "GROUP", "name": x, "c": 20 + j, "refs": [], "criteria": []} for j, x in enumerate(names)]
        G += [{"kind": "GROUP", "name": "parent_of_last", "c": 30, "refs": [["GROUP/SUB_GROUP.identifier_list", [names[-1]]]], "criteria": []},
              {"kind": "CHARACTERISTIC", "name": "c0", "c": 60, "refs": [], "criteria": []}]
        split.append({"id": {"fam": "split_ref_group", "blocks": nblocks}, "G": G})
    allc = cases + rand_cases + two + split
    mo = []
    for i, c in enumerate(allc):
        g = graphlib.abstract_to_graph(c["G"])
        text = gm.render2(graphlib.abstract_to_graph(c["G0"]), g) if "G0" in c else gm.render(g)
        mo.append({"id": i, "a": text, "ops": ["cleanup", "cleanup"]})
    out = graphlib.run_ops(binp, mo, "cleanup")
    events, idx = build_events(allc, out, rep, mo)
    failed, tr = graphlib.judge(events, "Trace_Graph_C10", PID)
    for k, names in sorted(failed.items()):
        i = idx[k]
        c = allc[i]
        what = c["id"].get("site") or (c["id"]["fam"] + ":" + str(c["id"].get("kind", c["id"].get("gk", ""))))
        rep.violation(f"cleanup:{'+'.join(names)}:{what}", f"cleanup result violates {names} (case {c['id']})",
                      {"kind": "cleanup", "case": c, "a": mo[i]["a"], "event": events[k]})
    removed_something = sum(1 for e in events if len(e["R"]["elems"]) < len(e["G"]["elems"]))
    if removed_something == 0:
        vlib.tool_error("vacuity: cleanup never removed anything")
    binding = None
    if selftest or thorough:
        def resolved_ref(e):
            for t in e["R"]["refs"]:
                tns = gm.SITE[t[0]]["target"]
                if any(x[0] == tns and x[2] == t[3] and x[1] in gm.HELPER_KINDS for x in e["R"]["elems"]):
                    return t
            return None
        ev = json.loads(json.dumps(next(e for e in events if resolved_ref(e))))
        # pretend the (helper) target of a remaining reference was removed
        t = resolved_ref(ev)
        tns = gm.SITE[t[0]]["target"]
        ev["R"]["elems"] = [x for x in ev["R"]["elems"] if not (x[0] == tns and x[2] == t[3])]
        ev["R2"] = ev["R"]
        f1, _ = graphlib.judge([ev], "Trace_Graph_C10", "selftest")
        binding = {"removed_but_referenced_rejected": 0 in f1}
        if not all(binding.values()):
            vlib.tool_error(f"binding selftest failed: {binding}")
    cov = {
        "states": res.distinct,
        "transitions": res.generated,
        "traces_validated_against_impl": len(events),
        "exhaustive": True,
        "evaluations": len(events),
        "distinct_nontrivial": removed_something,
        "rule": "one case per (site with a helper target x helper kind x {onlyref, dangling, plus_unused} x supported owner), per chain (kind x length x cyclic x leaf) and per (GROUP/FUNCTION x member kind), plus seeded random modules; non-trivial = cleanup removed at least one element",
        "samples": [cases[0], cases[-1]["id"]],
        "case_families": fams,
        "random_modules": len(rand_cases),
        "files_with_two_modules": len(two),
        "events_rejected": len(failed),
    }
    if binding:
        cov["binding_mutations_rejected"] = binding
    vlib.write_evidence(PID, tier, "model_checking", cov, [
        "'alters' is read leniently: a reference may disappear from an object only if it dangled before, and only a neutral name (NO_COMPU_METHOD, ...) may appear; helper elements may lose references",
        "the property does not demand that every unreferenced helper is removed; kept helpers are not judged",
        "files with two MODULEs hold a case and its predecessor in the enumeration; each module is judged on its own (name spaces are per module)",
    ], time.time() - t0, rep.count_new)
    return rep.exit_code()


def replay(path):
    with open(path) as f:
        r = json.load(f)
    case = r["case"]
    rep = vlib.Reporter(PID)
    binp = vlib.build_harness()
    if case.get("kind") == "tlc":
        res = vlib.tlc("MC_Cleanup", workers=8, coverage=False, timeout=1800, expect_violation=True)
        if res.violation:
            rep.violation(f"cleanup-spec:{res.violation}", "TLC property violated", case)
    else:
        mo = [{"id": 0, "a": case["a"], "ops": ["cleanup", "cleanup"]}]
        out = graphlib.run_ops(binp, mo, "replay")
        events, idx = build_events([case["case"]], out, rep, mo)
        failed, _ = graphlib.judge(events, "Trace_Graph_C10", "replay") if events else ({}, None)
        if failed:
            rep.violation(f"cleanup:{'+'.join(failed[0])}", f"cleanup result violates {failed[0]}", case)
    print("replay:", "violation reproduced" if rep.new else "no violation")
    return rep.exit_code()
