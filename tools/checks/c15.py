"""C15 - sort_new_items(): stable placement over arbitrarily long edit histories.

B1  Placement.tla (implementation-shaped uid/line layer + writer order) is model-checked against
    the ideal relation IdealSortNew (PlacedOrderStable, NewGoesAfterLastOfKind) as an action
    property, for every history within the bounds; a configuration with a tiny uid range shows
    that the compaction step keeps the algorithm correct for unbounded histories; two
    expected-violation configurations (5-bit uids without compaction: panic / wrap-around) must
    produce their counterexamples.
B2  every exported transition (state, op, state') is constructed through the public API on real
    models (7 different triples of list kinds), including states whose uids straddle the real
    compaction threshold 2^30, and uids, list order and written order are compared.
B3  random histories on loaded files (comments, real merge_modules, T::new + push,
    sort_new_items, write) and the pure sequence of k consecutive sort_new_items calls are
    validated against Trace_Placement.tla, which also evaluates the ideal relation on every step.
"""
import json
import os
import time

import vlib

PID = "C15"
OPS = ["push_new", "merge_in", "sort_new_items"]


def export_cases(cfg, workers, timeout=3000):
    res = vlib.tlc("MC_Placement", cfg=cfg, workers=workers, timeout=timeout, coverage=False, heap="8g")
    return res, list(res.prints("T"))


def sig_of(m):
    op = m["case"]["op"]["op"]
    why = m["mismatch"]
    kind = "panic" if why.startswith("panic") else "order" if "written order" in why else "uids"
    return f"placement:{op}:{kind}"


DRIFT = []   # implementation differs from the implementation-shaped spec, but C15 itself holds


def ideal_accepts(events):
    """judge a history by the property alone (Trace_PlacementIdeal: written orders only)"""
    p = os.path.join(vlib.scratch(), f"ideal_{len(DRIFT)}_{int(time.time() * 1000) % 100000}.ndjson")
    vlib.write_ndjson(p, events)
    res = vlib.tlc("Trace_PlacementIdeal", workers=1, dfs=True, coverage=False, env={"TRACE": p}, timeout=1200,
                   expect_violation=True)
    if res.ok:
        return True, None
    if res.rejected_at:
        return False, res.rejected_at
    vlib.tool_error("Trace_PlacementIdeal failed without rejection marker")


def replay_cases(binp, cases, rep, tag):
    path = os.path.join(vlib.scratch(), f"placement_cases_{tag}.ndjson")
    vlib.write_ndjson(path, cases)
    rc, lines, err = vlib.run_harness(binp, ["placement-replay", "--cases", path], timeout=1800)
    if rc != 0 or not lines or "summary" not in lines[-1]:
        vlib.tool_error(f"placement-replay failed rc={rc}: {err[-500:]}")
    # relations before predictions: a difference from the implementation-shaped model is a
    # violation only if the ideal relation of C15 fails on what was actually observed.  All
    # mismatching transitions are judged in one ideal trace (a "state" event starts each).
    pending = []
    nviol = 0
    for m in lines[:-1]:
        obs = m.get("observed", {})
        if m["mismatch"].startswith("panic") or "before" not in obs or "after" not in obs:
            rep.violation(sig_of(m), m["mismatch"], {"kind": "transition", "case": m["case"], "triple": m["triple"]})
        else:
            pending.append(m)
    while pending:
        ev = []
        for m in pending:
            placed = [[e["kind"], e["name"]] for e in m["case"]["from"]["E"] if e["uid"] != 0]
            ev.append({"ev": "state", "written": m["observed"]["before"], "placed": placed})
            ev.append({"ev": m["case"]["op"]["op"], "written": m["observed"]["after"], "panic": False})
        ok, rej = ideal_accepts(ev)
        if ok:
            DRIFT.extend(m["mismatch"][:300] for m in pending)
            break
        k = (rej[0] - 1) // 2          # index of the rejected mini-trace
        DRIFT.extend(m["mismatch"][:300] for m in pending[:k])
        m = pending[k]
        rep.violation(sig_of(m), m["mismatch"], {"kind": "transition", "case": m["case"], "triple": m["triple"]})
        pending = pending[k + 1:]
        nviol += 1
        if nviol >= 6:          # enough to report; every further rejection costs a TLC run
            print(f"note: {len(pending)} further mismatching transitions are not judged after {nviol} violations", flush=True)
            break
    return lines[-1]["summary"]


def validate_trace(trace_path, rep):
    with open(trace_path) as f:
        events = [json.loads(l) for l in f if l.strip()]
    acc_ev = acc_tr = rej = 0
    while events:
        cur = os.path.join(vlib.scratch(), f"ptrace_{rej}.ndjson")
        vlib.write_ndjson(cur, events)
        res = vlib.tlc("Trace_Placement", workers=1, dfs=True, coverage=False, env={"TRACE": cur}, timeout=2400, heap="6g",
                       expect_violation=True)
        if res.ok:
            acc_ev += len(events)
            acc_tr += sum(1 for e in events if e["ev"] == "load")
            break
        if res.violation:
            # the ideal relation failed on an observed step: that is a violation of the property
            # by the implementation (the trace itself was accepted up to that step)
            d = res.depth if res.depth else None
            rep.violation(f"placement-trace:{res.violation}",
                          f"action property {res.violation} of Placement.tla violated on a recorded history",
                          {"kind": "history", "events": events[:400]})
            rej += 1
            break
        if not res.rejected_at:
            vlib.tool_error("Trace_Placement failed without rejection marker")
        d = res.rejected_at[0]
        start = max(i for i in range(d) if events[i]["ev"] == "load")
        end = next((i for i in range(d, len(events)) if events[i]["ev"] == "load"), len(events))
        bad = events[d - 1]
        kind = "panic" if bad.get("panic") else "obs"
        # the implementation-shaped specification rejects this history; the property is judged on
        # the written orders alone
        ok, irej = ideal_accepts(events[start:end])
        if ok:
            DRIFT.append(f"history rejected by Trace_Placement at event {d} but accepted by Trace_PlacementIdeal: {json.dumps(bad)[:200]}")
        else:
            ibad = irej[1] if irej else bad
            if isinstance(ibad, dict):
                kind = "panic" if ibad.get("panic") else "order"
            rep.violation(f"placement:{'merge_in' if bad['ev'] == 'merge' else bad['ev']}:{kind}",
                          f"history violates C15 (Trace_PlacementIdeal rejects event {irej[0] if irej else '?'}: {json.dumps(ibad)[:300]})",
                          {"kind": "history", "events": events[start:end]})
        rej += 1
        acc_ev += start
        acc_tr += sum(1 for e in events[:start] if e["ev"] == "load")
        events = events[end:]
        if rej >= 8:
            break
    return acc_ev, acc_tr, rej


def run(tier, selftest):
    t0 = time.time()
    rep = vlib.Reporter(PID)
    binp = vlib.build_harness()
    thorough = tier == "thorough"

    # B1 + export
    res, cases = export_cases("MC_Placement_T" if thorough else "MC_Placement", 12 if thorough else 8)
    if res.violation:
        rep.violation(f"placement-spec:{res.violation}", f"TLC: {res.violation} violated in Placement.tla", {"kind": "tlc", "cfg": "MC_Placement"})
    res_hi, cases_hi = export_cases("MC_Placement_Hi", 4)
    if res_hi.violation:
        rep.violation(f"placement-spec:{res_hi.violation}", f"TLC: {res_hi.violation} violated (Hi config)", {"kind": "tlc", "cfg": "MC_Placement_Hi"})
    per_op = {}
    for c in cases + cases_hi:
        per_op[c["op"]["op"]] = per_op.get(c["op"]["op"], 0) + 1
    if any(per_op.get(o, 0) == 0 for o in OPS):
        vlib.tool_error(f"vacuity: operations never explored: {per_op}")
    compacting = sum(1 for c in cases_hi if c["op"]["op"] == "sort_new_items" and any(e["uid"] >= 1073741824 for e in c["from"]["E"]))
    if compacting == 0:
        vlib.tool_error("vacuity: no transition of the Hi configuration crosses the compaction threshold")
    # compaction design check (small uid range, unbounded histories)
    res_c = vlib.tlc("MC_Placement", cfg="MC_Placement_Compact", workers=8, timeout=1800, coverage=False, heap="8g")
    if res_c.violation:
        rep.violation(f"placement-spec:{res_c.violation}", "TLC: compaction model violates the ideal relation", {"kind": "tlc", "cfg": "MC_Placement_Compact"})
    # expected violations
    res_p = vlib.tlc("MC_Placement", cfg="MC_Placement_W5panic", workers=2, timeout=600, coverage=False, expect_violation=True)
    res_w = vlib.tlc("MC_Placement", cfg="MC_Placement_W5wrap", workers=2, timeout=600, coverage=False, expect_violation=True)
    if res_p.violation != "NoPanic" or res_w.violation != "SortStepIdeal":
        vlib.tool_error(f"expected-violation configurations did not fail as expected: {res_p.violation}, {res_w.violation}")

    # B2
    s1 = replay_cases(binp, cases, rep, "lo")
    s2 = replay_cases(binp, cases_hi, rep, "hi")

    # B3
    traces, steps, init, repeat = (60, 120, 10, 200) if thorough else (16, 50, 8, 70)
    tp = os.path.join(vlib.scratch(), "placement_trace.ndjson")
    rc, lines, err = vlib.run_harness(binp, ["placement-record", "--seed", vlib.seed(), "--traces", traces, "--steps", steps,
                                             "--init", init, "--repeat", repeat, "--out", tp], timeout=900)
    if rc != 0:
        vlib.tool_error(f"placement-record failed: {err[-500:]}")
    acc_ev, acc_tr, rej = validate_trace(tp, rep)
    # the same kind of histories on the second MODULE of a file (a decoy MODULE with equally named elements stands in front)
    tp2 = os.path.join(vlib.scratch(), "placement_trace_second.ndjson")
    rc, lines, err = vlib.run_harness(binp, ["placement-record", "--seed", vlib.seed() + 311, "--traces", max(6, traces // 3), "--steps", steps,
                                             "--init", init, "--second", 1, "--out", tp2], timeout=900)
    if rc != 0:
        vlib.tool_error(f"placement-record (second module) failed: {err[-500:]}")
    acc_ev2, acc_tr2, rej2 = validate_trace(tp2, rep)
    acc_ev, acc_tr, rej = acc_ev + acc_ev2, acc_tr + acc_tr2, rej + rej2
    # histories on files that also hold the module children outside the placement model (optional singletons, IF_DATA,
    # USER_RIGHTS): judged by the property alone (Trace_PlacementIdeal, incl. KeepsLoaded over every child)
    tpx = os.path.join(vlib.scratch(), "placement_trace_extras.ndjson")
    rc, lines, err = vlib.run_harness(binp, ["placement-record", "--seed", vlib.seed() + 77, "--traces", traces, "--steps", steps,
                                             "--init", init + 4, "--extras", 1, "--out", tpx], timeout=900)
    if rc != 0:
        vlib.tool_error(f"placement-record (extras) failed: {err[-500:]}")
    with open(tpx) as f:
        xev = [json.loads(l) for l in f if l.strip()]
    nx = sum(1 for e in xev if e["ev"] == "load")
    nxv = 0
    while xev:
        ok, irej = ideal_accepts(xev)
        if ok:
            break
        d = irej[0]
        start = max(i for i in range(d) if xev[i]["ev"] == "load")
        end = next((i for i in range(d, len(xev)) if xev[i]["ev"] == "load"), len(xev))
        bad = xev[d - 1]
        rep.violation(f"placement:{'merge_in' if bad['ev'] == 'merge' else bad['ev']}:{'panic' if bad.get('panic') else 'order-all-children'}",
                      f"history on a module with singletons / IF_DATA / USER_RIGHTS violates C15 (Trace_PlacementIdeal rejects event {d}: {json.dumps({k: bad[k] for k in bad if k != 'lists'})[:300]})",
                      {"kind": "history", "events": xev[start:end]})
        xev = xev[end:]
        nxv += 1
        if nxv >= 6:
            break

    # histories with removals through the API (ItemList::swap_remove) between the insertions and the sort_new_items calls:
    # judged by the property alone (the implementation-shaped model has no removal)
    tpr = os.path.join(vlib.scratch(), "placement_trace_remove.ndjson")
    rc, lines, err = vlib.run_harness(binp, ["placement-record", "--seed", vlib.seed() + 523, "--traces", traces, "--steps", steps,
                                             "--init", init + 4, "--remove", 1, "--out", tpr], timeout=900)
    if rc != 0:
        vlib.tool_error(f"placement-record (removals) failed: {err[-500:]}")
    with open(tpr) as f:
        rev = [json.loads(l) for l in f if l.strip()]
    nremove = sum(1 for e in rev if e["ev"] == "remove")
    if nremove < 20:
        vlib.tool_error(f"vacuity: only {nremove} removals recorded")
    nrv = 0
    while rev:
        ok, irej = ideal_accepts(rev)
        if ok:
            break
        d = irej[0]
        start = max(i for i in range(d) if rev[i]["ev"] == "load")
        end = next((i for i in range(d, len(rev)) if rev[i]["ev"] == "load"), len(rev))
        bad = rev[d - 1]
        rep.violation(f"placement:{bad['ev']}:{'panic' if bad.get('panic') else 'order-after-removal'}",
                      f"history with removals violates C15 (Trace_PlacementIdeal rejects event {d}: {json.dumps({k: bad[k] for k in bad if k != 'lists'})[:300]})",
                      {"kind": "history-ideal", "events": rev[start:end]})
        rev = rev[end:]
        nrv += 1
        if nrv >= 6:
            break

    binding = None
    if selftest or thorough:
        binding = selftest_binding(binp, cases, tp)

    nontrivial = sum(1 for c in cases + cases_hi if c["from"]["written"] != c["to"]["written"] or c["op"]["op"] == "sort_new_items")
    cov = {
        "states": res.distinct + res_hi.distinct + res_c.distinct,
        "transitions": len(cases) + len(cases_hi),
        "traces_validated_against_impl": acc_tr,
        "exhaustive": True,
        "evaluations": s1["executions"] + s2["executions"],
        "distinct_nontrivial": nontrivial,
        "rule": "every transition (state, op in {push_new, merge_in, sort_new_items}, state') of the bounded Placement state graph is one case; states with comments are replayed only through trace validation (comments cannot be built through the API); non-trivial = the written order changes or the op is sort_new_items",
        "samples": [cases[len(cases) // 3], cases_hi[len(cases_hi) // 2]],
        "transitions_per_operation": per_op,
        "transitions_crossing_compaction_threshold": compacting,
        "states_by_config": {"MC_Placement": res.distinct, "MC_Placement_Hi": res_hi.distinct, "MC_Placement_Compact": res_c.distinct},
        "expected_violations": {"MC_Placement_W5panic": res_p.violation, "MC_Placement_W5wrap": res_w.violation},
        "replayed_without_comments": s1["executions"] + s2["executions"],
        "histories_with_singletons_ifdata_user_rights": nx,
        "skipped_states_with_comments": s1["skipped_with_comments"] + s2["skipped_with_comments"],
        "replay_mismatches": s1["mismatches"] + s2["mismatches"],
        "trace_events_validated": acc_ev,
        "trace_rejections": rej,
        "histories_on_a_second_module": acc_tr2,
        "removals_in_histories_judged_by_the_ideal_relation": nremove,
        "trace_shape": {"traces": traces, "steps": steps, "init_children": init, "consecutive_sort_calls": repeat},
    }
    if binding is not None:
        cov["binding_mutations_rejected"] = binding
    cov["spec_drift_notes"] = DRIFT[:10]
    for dnote in DRIFT[:5]:
        print(f"SPEC-DRIFT (not a violation of C15): {dnote}")
    vlib.write_evidence(PID, tier, "model_checking", cov, [
        "the implementation-shaped model covers MODULE children of the 20 list kinds and comments; for optional singletons (MOD_COMMON, MOD_PAR, VARIANT_CODING), IF_DATA and USER_RIGHTS only the relation 'what was loaded keeps its relative order' is judged (new singletons are placed by rules of their own: A2ML first)",
        "elements in the trailing run (no placed element of their kind) stay 'unplaced' in the ideal relation, as in DESIGN.md 4.6",
        "comment uids are crate-private and inferred from the neighbouring element uids at load time",
        "TLC integers are 32 bit: MaxUid is modelled as 2^31-1; with compaction at 2^30 no uid ever exceeds 2^31",
    ], time.time() - t0, rep.count_new)
    return rep.exit_code()


def selftest_binding(binp, cases, trace_path):
    out = {}
    c = json.loads(json.dumps(next(c for c in cases if c["op"]["op"] == "sort_new_items" and len(c["to"]["written"]) >= 2
                                   and not any(e["cmt"] for e in c["to"]["E"]))))
    c["to"]["written"] = list(reversed(c["to"]["written"]))
    silent = vlib.Reporter("SELFTEST")
    silent.violation = lambda *a, **k: silent.new.append("x")
    nd = len(DRIFT)
    replay_cases(binp, [c], silent, "selftest")
    out["corrupted_expected_order_detected"] = len(silent.new) > 0 or len(DRIFT) > nd
    del DRIFT[nd:]
    with open(trace_path) as f:
        events = [json.loads(l) for l in f if l.strip()][:120]
    k = next(i for i, e in enumerate(events) if e["ev"] == "sort_new_items" and len(e.get("written", [])) >= 2)
    events[k]["written"] = list(reversed(events[k]["written"]))
    p = os.path.join(vlib.scratch(), "selftest_ptrace.ndjson")
    vlib.write_ndjson(p, events)
    res = vlib.tlc("Trace_Placement", workers=1, dfs=True, coverage=False, env={"TRACE": p}, timeout=600, expect_violation=True)
    out["corrupted_trace_event_rejected"] = (not res.ok) and res.rejected_at is not None and res.rejected_at[0] == k + 1
    if not all(out.values()):
        vlib.tool_error(f"binding selftest failed: {out}")
    return out


def replay(path):
    with open(path) as f:
        r = json.load(f)
    case = r["case"]
    rep = vlib.Reporter(PID)
    binp = vlib.build_harness()
    if case["kind"] == "transition":
        # replay on the same triple of list kinds: pad the case list so that index % 7 == triple
        pad = [{"from": {"E": [{"cmt": True}], "lists": {}, "written": []}, "to": {"E": []}, "op": {"op": "skip"}, "panic": False}] * case["triple"]
        replay_cases(binp, pad + [case["case"]], rep, "replay")
    elif case["kind"] == "history-ideal":
        ok, irej = ideal_accepts(case["events"])
        if not ok:
            rep.violation("placement:history", f"Trace_PlacementIdeal rejects event {irej[0]} of the recorded history", case)
    elif case["kind"] == "history":
        tp = os.path.join(vlib.scratch(), "replay_ptrace.ndjson")
        vlib.write_ndjson(tp, case["events"])
        print("note: a recorded history is re-validated against the specification (the events are the recorded observations)")
        validate_trace(tp, rep)
    else:
        res = vlib.tlc("MC_Placement", cfg=case["cfg"], workers=8, timeout=3000, expect_violation=True, coverage=False)
        if res.violation:
            rep.violation(f"placement-spec:{res.violation}", "TLC property violated", case)
    print("replay:", "violation reproduced" if rep.new else "no violation")
    return rep.exit_code()
