"""C11 - check(): reference diagnostics are sound, complete and total.

B1  MC_Check: TLC enumerates, for every reference site x target kind, the consistent module and
    the single corruptions named by the property (unused name at each list position, neutral
    names, homonym in another namespace), the THIS. convention for directly / indirectly used
    TYPEDEF_CHARACTERISTICs, and the totality family (8 CHARACTERISTIC types x 0..7 AXIS_DESCR x 5
    attributes for CHARACTERISTIC and TYPEDEF_CHARACTERISTIC, self-referencing GROUP / FUNCTION /
    UNIT, empty reference lists); the oracle ExpectedReports of Graph.tla is checked on them.
B2  every case is rendered to A2L and the real check() is run; the extracted graph and the names
    reported as missing are judged by CheckOK (sound + complete), together with 'no panic' and
    'model unchanged' (== with a clone taken before the call).
B3  seeded random modules with dangling references at random sites, judged the same way; and
    check() is also called on every model the other Graph checks build.
"""
import json
import random
import time

import graphlib  # noqa
import graphmodel as gm
import vlib
from checks import mergecheck

PID = "C11"


def event_of(r, two=False):
    s0 = r["snaps"][0]
    s1 = r["snaps"][1]
    tree = s0["tree"]
    panic = ("check_panic" in s0) or ("check_panic" in s1) or ("panic" in s1)
    reports = sorted({c["target_name"] for c in s1.get("check", []) if c["class"] == "CrossReferenceError"})
    pmsg = s0.get("check_panic") or s1.get("check_panic") or s1.get("panic")

    def part(k):
        G = gm.flat(graphlib.graph_of_tree(tree, k))
        this = sorted({(t[3], t[3][5:]) for t in G["refs"] if t[3].startswith("THIS.")})
        return G, gm.components(gm.module_of(tree, k)), [list(x) for x in this]
    G, comps, this = part(0)
    ev = {"ev": "check", "G": G, "reports": reports, "comps": comps, "this": this, "panic": panic, "pure": bool(s1.get("pure", True))}
    if two:
        G1, comps1, this1 = part(1)
        ev.update({"ev": "check2", "G1": G1, "comps1": comps1, "this1": this1})
    return ev, pmsg


def run(tier, selftest):
    t0 = time.time()
    rep = vlib.Reporter(PID)
    binp = vlib.build_harness()
    thorough = tier == "thorough"
    res = vlib.tlc("MC_Check", workers=8, coverage=False, timeout=1800)
    if res.violation:
        rep.violation(f"check-spec:{res.violation}", "TLC: ExpectedReports of Graph.tla disagrees with the stated corruptions", {"kind": "tlc", "cfg": "MC_Check"})
    cases = list(res.prints("CASE"))
    fams = {}
    for c in cases:
        fams[c["id"]["fam"]] = fams.get(c["id"]["fam"], 0) + 1
    if set(fams) != {"site", "this", "axes", "odd"}:
        vlib.tool_error(f"vacuity: case families {fams}")
    rng = random.Random(vlib.seed() * 15485863 + 11)
    rand_cases = []
    for i in range(1200 if thorough else 25):
        _, b = mergecheck.random_pair(rng, rng.choice([30, 60, 120, 240] if thorough else [20, 40]))
        rand_cases.append({"id": {"fam": "random", "n": i}, "G": mergecheck.to_abstract(b)})
    # the axis references under every axis attribute (an AXIS_PTS_REF / CURVE_AXIS_REF is a reference whatever the type of its axis)
    attr_cases = []
    for c in cases:
        site = c["id"].get("site", "")
        if c["id"]["fam"] == "site" and (site.endswith("AXIS_PTS_REF.axis_points") or site.endswith("CURVE_AXIS_REF.curve_axis")):
            owner_kind = site.split("/")[0]
            for attr in ("STD_AXIS", "FIX_AXIS", "COM_AXIS", "RES_AXIS", "CURVE_AXIS"):
                G = json.loads(json.dumps(c["G"]))
                for e in G:
                    if e["kind"] == owner_kind and any(sn == site for sn, _ in e.get("refs", [])):
                        e["opts"] = {"axattr": attr}
                attr_cases.append({"id": dict(c["id"], axattr=attr), "G": G})
    from checks import c10
    two = c10.two_module_cases(cases, 1 if thorough else 7) + attr_cases
    allc = cases + rand_cases + two
    mo = []
    for i, c in enumerate(allc):
        g = graphlib.abstract_to_graph(c["G"])
        text = gm.render2(graphlib.abstract_to_graph(c["G0"]), g) if "G0" in c else gm.render(g)
        mo.append({"id": i, "a": text, "ops": ["check"]})
    out = graphlib.run_ops(binp, mo, "check")
    events, idx = [], []
    for i, c in enumerate(allc):
        r = out.get(i)
        if r is None or "snaps" not in r:
            why = (r or {}).get("load_a_error") or (r or {}).get("harness_panic") or "no result"
            vlib.tool_error(f"generated case does not load ({c['id']}): {why}\n{mo[i]['a']}")
        ev, pmsg = event_of(r, bool(c["id"].get("two")))
        ev["_panic_msg"] = pmsg or ""
        events.append(ev)
        idx.append(i)
    failed, tr = graphlib.judge([{k: v for k, v in e.items() if k != "_panic_msg"} for e in events], "Trace_Graph_C11", PID)
    for k, names in sorted(failed.items()):
        i = idx[k]
        c = allc[i]
        cid = c["id"]
        what = cid.get("site") or (cid["fam"] + ":" + str(cid.get("ctype", cid.get("what", ""))))
        extra = f" panic: {events[k]['_panic_msg']}" if "NoPanic" in names else ""
        rep.violation(f"check:{'+'.join(names)}:{what}", f"check() violates {names} (case {cid}); reported {events[k]['reports']}{extra}",
                      {"kind": "check", "case": c, "a": mo[i]["a"]})
    with_reports = sum(1 for e in events if e["reports"])
    if with_reports == 0:
        vlib.tool_error("vacuity: check() never reported a cross-reference problem")
    binding = None
    if selftest or thorough:
        ev = {k: v for k, v in json.loads(json.dumps(next(e for e in events if e["reports"]))).items() if k != "_panic_msg"}
        ev["reports"] = []
        ev2 = {k: v for k, v in json.loads(json.dumps(next(e for e in events if not e["reports"]))).items() if k != "_panic_msg"}
        ev2["reports"] = ["phantom"]
        f1, _ = graphlib.judge([ev, ev2], "Trace_Graph_C11", "selftest")
        binding = {"missing_report_rejected": 0 in f1, "spurious_report_rejected": 1 in f1}
        if not all(binding.values()):
            vlib.tool_error(f"binding selftest failed: {binding}")
    cov = {
        "states": res.distinct,
        "transitions": res.generated,
        "traces_validated_against_impl": len(events),
        "exhaustive": True,
        "evaluations": len(events),
        "distinct_nontrivial": with_reports,
        "rule": "one case per (reference site x target kind x {ok, corrupt at each list position, neutral, homonym}), per THIS. constellation, per (owner x CHARACTERISTIC type x 0..7 AXIS_DESCR x attribute) and per oddity, plus seeded random modules; non-trivial = check() reported at least one cross-reference problem",
        "samples": [cases[0], cases[len(cases) // 2]["id"]],
        "case_families": fams,
        "random_modules": len(rand_cases),
        "files_with_two_modules": len(two) - len(attr_cases),
        "axis_reference_cases_per_axis_attribute": len(attr_cases),
        "events_rejected": len(failed),
    }
    if binding:
        cov["binding_mutations_rejected"] = binding
    vlib.write_evidence(PID, tier, "model_checking", cov, [
        "completeness is over the sites check() covered at the pinned commit (column 'checked' of the site table)",
        "reports are compared by the name they give for the missing target (the property's wording); source names are not uniform in the library and are not compared",
        "only CrossReferenceError reports are judged here (limit plausibility is C12)",
    ], time.time() - t0, rep.count_new)
    return rep.exit_code()


def replay(path):
    with open(path) as f:
        r = json.load(f)
    case = r["case"]
    rep = vlib.Reporter(PID)
    binp = vlib.build_harness()
    if case.get("kind") == "tlc":
        res = vlib.tlc("MC_Check", workers=8, coverage=False, timeout=1800, expect_violation=True)
        if res.violation:
            rep.violation(f"check-spec:{res.violation}", "TLC property violated", case)
    else:
        out = graphlib.run_ops(binp, [{"id": 0, "a": case["a"], "ops": ["check"]}], "replay")
        ev, pmsg = event_of(out[0], bool(case.get("case", {}).get("id", {}).get("two")))
        failed, _ = graphlib.judge([ev], "Trace_Graph_C11", "replay")
        if failed:
            rep.violation(f"check:{'+'.join(failed[0])}", f"check() violates {failed[0]} {pmsg or ''}", case)
    print("replay:", "violation reproduced" if rep.new else "no violation")
    return rep.exit_code()
