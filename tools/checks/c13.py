"""C13 - ItemList: name index and positions stay coherent under every operation.

B1  TLC explores the product of the ideal and the implementation-shaped layer of ItemList.tla
    exhaustively for a 4 (thorough: 5) name alphabet, all operations, all arguments including
    out-of-range ones; invariants Coherent, Refines, NoPanic.  The expected-violation config
    (GuardLast = FALSE, the pinned code before the D8 fix) must produce a NoPanic counterexample.
B2  every transition of that state graph is replayed on real ItemList<Unit|Measurement|Group>
    and the complete observation (iter, len, first, last, keys, index/get/contains_key for every
    name) and the return value are compared with the specification.
B3  long random histories of the real list are validated by TLC against Trace_ItemList.tla.
"""
import json
import os
import time

import vlib

PID = "C13"
ACTIONS = ["push", "pop", "swap_remove", "swap_remove_idx", "retain", "retain_rename", "truncate", "clear", "rename",
           "extend", "collect", "sort_by"]


def signature_of(m):
    op = m["case"]["op"]["op"]
    why = m["mismatch"]
    kind = "panic" if why.startswith("panic") else "ret" if why.startswith("return value") else "obs"
    if op == "swap_remove_idx":
        op = "swap_remove"
    return f"itemlist:{op}:{kind}"


def replay_cases(binp, cases, rep, alphabet):
    path = os.path.join(vlib.scratch(), "itemlist_cases.ndjson")
    vlib.write_ndjson(path, cases)
    rc, lines, err = vlib.run_harness(binp, ["itemlist-replay", "--cases", path, "--alphabet", ",".join(alphabet)], timeout=900)
    if rc != 0 or not lines or "summary" not in lines[-1]:
        vlib.tool_error(f"itemlist-replay failed rc={rc}: {err[-500:]}")
    for m in lines[:-1]:
        rep.violation(signature_of(m), f"{m['elem_type']}: {m['mismatch']}", {"kind": "transition", "case": m["case"], "alphabet": alphabet})
    return lines[-1]["summary"]


def validate_trace(trace_path, rep, binp=None):
    """validate a (concatenated) trace file; returns (events accepted, traces accepted, rejections)"""
    with open(trace_path) as f:
        events = [json.loads(l) for l in f if l.strip()]
    accepted_events = 0
    accepted_traces = 0
    rejections = 0
    while events:
        cur = os.path.join(vlib.scratch(), f"trace_{rejections}.ndjson")
        vlib.write_ndjson(cur, events)
        res = vlib.tlc("Trace_ItemList", workers=1, dfs=True, coverage=False, env={"TRACE": cur}, timeout=1800, heap="6g")
        if res.ok:
            accepted_events += len(events)
            accepted_traces += sum(1 for e in events if e["ev"] == "reset")
            break
        if res.violation:
            # an invariant of the specification failed while following the trace
            vlib.tool_error(f"invariant {res.violation} violated during trace validation (spec error)")
        if not res.rejected_at:
            vlib.tool_error("trace validation failed without rejection marker")
        d = res.rejected_at[0]           # 1-based index of the first unmatched event
        start = max(i for i in range(d) if events[i]["ev"] == "reset")
        end = next((i for i in range(d, len(events)) if events[i]["ev"] == "reset"), len(events))
        bad = events[d - 1]
        hdr = events[start]
        ops = []
        for e in events[start + 1:d]:
            o = {k: v for k, v in e.items() if k not in ("obs", "ret", "panic", "panic_msg", "incoherent", "ev")}
            o["op"] = e["ev"]
            ops.append(o)
        kind = "panic" if bad.get("panic") else "incoherent" if "incoherent" in bad else "obs"
        evn = "swap_remove" if bad["ev"] == "swap_remove_idx" else bad["ev"]
        rep.violation(f"itemlist:{evn}:{kind}",
                      f"trace event {d} rejected by Trace_ItemList: {json.dumps(bad)[:300]}",
                      {"kind": "history", "header": {"alphabet": hdr["alphabet"], "elem_type": hdr.get("elem_type", "Unit")}, "ops": ops})
        rejections += 1
        accepted_events += start
        accepted_traces += sum(1 for e in events[:start] if e["ev"] == "reset")
        # the prefix before the rejected trace was accepted; continue with the traces after it
        events = events[end:]
        if events:
            events[0]["alphabet"] = hdr["alphabet"]
        if rejections >= 10:
            break
    return accepted_events, accepted_traces, rejections


def run(tier, selftest):
    t0 = time.time()
    rep = vlib.Reporter(PID)
    binp = vlib.build_harness()
    thorough = tier == "thorough"
    cfg = "MC_ItemList5" if thorough else "MC_ItemList"
    alphabet = ["a", "b", "c", "d", "e"] if thorough else ["a", "b", "c", "d"]

    # B1: exhaustive model check + export of every transition
    res = vlib.tlc("MC_ItemList", cfg=cfg, workers=8 if thorough else 4, timeout=1800)
    if res.violation:
        rep.violation(f"itemlist-spec:{res.violation}", f"TLC: invariant {res.violation} violated in ItemList.tla (design level)", {"kind": "tlc", "cfg": cfg})
    cases = list(res.prints("T"))
    # vacuity guard: every operation of the specification must occur among the explored transitions
    # (counted from the exported transition labels; TLC's own per-action attribution merges
    # actions that are plain applications of the same operator)
    per_op = {}
    for c in cases:
        per_op[c["op"]["op"]] = per_op.get(c["op"]["op"], 0) + 1
    missing = [a for a in ACTIONS if per_op.get(a, 0) == 0]
    if missing:
        vlib.tool_error(f"vacuity: operations never explored in {cfg}: {missing}")
    if len(cases) < 1000:
        vlib.tool_error(f"only {len(cases)} transitions exported")

    # expected-violation configuration: the model of the pinned code must show the D8 panic
    res_d8 = vlib.tlc("MC_ItemList", cfg="MC_ItemList_D8", workers=2, timeout=600, expect_violation=True, coverage=False)
    if res_d8.violation != "NoPanic":
        vlib.tool_error("the GuardLast=FALSE model did not produce the NoPanic counterexample (model cannot express D8)")

    # B2: replay
    summ = replay_cases(binp, cases, rep, alphabet)

    # B3: random histories -> trace validation
    traces, steps, names = (400, 2000, 64) if thorough else (40, 250, 24)
    tp = os.path.join(vlib.scratch(), "itemlist_trace.ndjson")
    rc, lines, err = vlib.run_harness(binp, ["itemlist-record", "--seed", vlib.seed(), "--traces", traces, "--steps", steps,
                                             "--names", names, "--out", tp], timeout=600)
    if rc != 0:
        vlib.tool_error(f"itemlist-record failed: {err[-500:]}")
    acc_events, acc_traces, rejections = validate_trace(tp, rep)

    binding = None
    if selftest or thorough:
        binding = selftest_binding(binp, cases, alphabet, tp)

    distinct_ops = {}
    for c in cases:
        distinct_ops[c["op"]["op"]] = distinct_ops.get(c["op"]["op"], 0) + 1
    nontrivial = sum(1 for c in cases if c["from"] != c["to"]["order"] or c["ret"] != "-")
    cov = {
        "states": res.distinct,
        "transitions": len(cases),
        "traces_validated_against_impl": acc_traces,
        "exhaustive": True,
        "evaluations": summ["executions"],
        "distinct_nontrivial": nontrivial,
        "rule": "every transition of the TLC state graph of MC_ItemList (all operations x all arguments incl. out-of-range, from every duplicate-free list over the alphabet) is one case, executed on 3 element types; non-trivial = the operation changes the list or returns an element",
        "samples": [cases[0], cases[len(cases) // 2], cases[-1]],
        "alphabet": alphabet,
        "tlc_states_generated": res.generated,
        "transitions_per_operation": distinct_ops,
        "expected_violation_config": {"cfg": "MC_ItemList_D8", "violated": res_d8.violation},
        "trace_events_validated": acc_events,
        "trace_rejections": rejections,
        "trace_shape": {"traces": traces, "steps": steps, "names": names},
        "replay_mismatches": summ["mismatches"],
    }
    if binding is not None:
        cov["binding_mutations_rejected"] = binding
    vlib.write_evidence(PID, tier, "model_checking", cov, [
        "names are unique (precondition of the property): the generator never pushes/renames to an existing name",
        "alphabet bounded (4 or 5 names for the exhaustive part, up to 64 in random traces)",
        "the element content plays no role beyond its name (checked: content of untouched elements is unchanged)",
        "Index<usize>/Index<&str> with invalid arguments panic by contract (std::ops::Index) and are not judged",
    ], time.time() - t0, rep.count_new)
    return rep.exit_code()


def selftest_binding(binp, cases, alphabet, trace_path):
    """demonstrate that the binding rejects corrupted data (does not report violations)"""
    out = {}
    # (a) corrupt one expected observation of a replay case
    c = json.loads(json.dumps(next(c for c in cases if len(c["to"]["order"]) >= 2)))
    c["to"]["order"] = list(reversed(c["to"]["order"]))
    silent = vlib.Reporter("SELFTEST")
    silent.violation = lambda *a, **k: silent.new.append("x")
    replay_cases(binp, [c], silent, alphabet)
    out["corrupted_expected_observation_detected"] = len(silent.new) > 0
    # (b) corrupt one logged event of a recorded trace
    with open(trace_path) as f:
        events = [json.loads(l) for l in f if l.strip()][:400]
    k = next(i for i, e in enumerate(events) if e["ev"] != "reset" and len(e["obs"]["order"]) >= 2)
    events[k]["obs"]["order"] = list(reversed(events[k]["obs"]["order"]))
    p = os.path.join(vlib.scratch(), "selftest_trace.ndjson")
    vlib.write_ndjson(p, events)
    res = vlib.tlc("Trace_ItemList", workers=1, dfs=True, coverage=False, env={"TRACE": p}, timeout=600)
    out["corrupted_trace_event_rejected"] = (not res.ok) and res.rejected_at is not None and res.rejected_at[0] == k + 1
    if not all(out.values()):
        vlib.tool_error(f"binding selftest failed: {out}")
    return out


def replay(path):
    with open(path) as f:
        r = json.load(f)
    case = r["case"]
    rep = vlib.Reporter(PID)
    binp = vlib.build_harness()
    if case["kind"] == "transition":
        replay_cases(binp, [case["case"]], rep, case["alphabet"])
    elif case["kind"] == "history":
        script = os.path.join(vlib.scratch(), "script.ndjson")
        vlib.write_ndjson(script, [case["header"]] + case["ops"])
        tp = os.path.join(vlib.scratch(), "replay_trace.ndjson")
        rc, lines, err = vlib.run_harness(binp, ["itemlist-record", "--script", script, "--out", tp])
        if rc != 0:
            vlib.tool_error(f"itemlist-record failed: {err[-500:]}")
        validate_trace(tp, rep)
    else:
        res = vlib.tlc("MC_ItemList", cfg=case["cfg"], workers=4, timeout=1800, expect_violation=True)
        if res.violation:
            rep.violation(f"itemlist-spec:{res.violation}", "TLC invariant violated", case)
    print("replay:", "violation reproduced" if rep.new else "no violation")
    return rep.exit_code()
