"""C03 - loading never panics, overflows or hangs on any input.

B1  Lexer.tla is a terminating scanner by construction (every step consumes input; TLC checks span,
    line and coverage invariants on every generated input); Parser.tla is total (every run ends
    in Ok or Err).
B2  (a) every string of at most 3 (thorough 4) pieces over the full alphabet, 4 (5) over the
        critical alphabet and every token soup of at most 4 (5) tokens - 98k (2.9M) inputs
        enumerated by TLC: the real tokenizer must agree with Lexer.tla on tokens, lines and error
        class, and load_from_string (strict / lenient / with a built-in A2ML specification) and
        load_fragment must return without a panic;
    (b) every prefix by token and every single-token deletion, duplication and adjacent swap of
        the positive document of a seeded sample of grammar elements, loaded strict and lenient
        and as fragment; documents without IF_DATA / A2ML are additionally judged by Parser.tla;
    (c) hostile A2ML definitions (unclosed tag, lone quote, zero and huge array dimensions,
        non-consuming repeated members, unknown type references, /include of a missing file, deep
        nesting) x IF_DATA payloads x {in-file, built-in}, each in its own process with a time
        and memory limit (a hang or abort is data for that case);
    (d) seeded random byte files and byte-level mutations through load() (shared with C17).
"""
import json
import os
import random
import subprocess
import time

import docgen
import layoutlib
import parsercases as pc
import vlib

PID = "C03"

HOSTILE_A2ML = {
    "lone_quote": '"',
    "unclosed_tag": 'block "IF_DATA',
    "unclosed_comment": 'block "IF_DATA" /* struct { int; };',
    "zero_array": 'block "IF_DATA" struct { uint[0]; };',
    "zero_array_repeat": 'block "IF_DATA" taggedunion { "T" (uint[0])*; };',
    "empty_taggedstruct_repeat": 'block "IF_DATA" struct { (taggedstruct { })*; };',
    "empty_struct_repeat": 'block "IF_DATA" (struct { })*;',
    "taggedstruct_repeat_seq": 'block "IF_DATA" (taggedstruct { "A" uint; })*;',
    "huge_array": 'block "IF_DATA" struct { char[4000000000]; };',
    "huge_array2": 'block "IF_DATA" struct { uint[99999999]; };',
    "negative_array": 'block "IF_DATA" struct { uint[-1]; };',
    "unknown_typeref": 'block "IF_DATA" struct nosuchtype;',
    "self_ref": 'struct s { struct s; }; block "IF_DATA" struct s;',
    "missing_include": '/include "no_such_file.aml"\nblock "IF_DATA" struct { int; };',
    "missing_semicolon": 'block "IF_DATA" struct { int }',
    "garbage": '}}}};;;;(((*',
    "only_block": 'block',
    "enum_dup": 'block "IF_DATA" enum { "A" = 1, "A" = 2 };',
    "deep_nesting": 'block "IF_DATA" ' + 'struct { ' * 200 + 'int;' + ' };' * 200,
    "valid": 'block "IF_DATA" taggedunion if_data { "X" struct { uint; }; };',
}
IFDATA_PAYLOADS = ["", "X 1", "T", "T 1 2 3", "A 1 A 2", "1 2 3", '"s"', "/begin X /end X", "X", "A",
                   # an A2ML block inside IF_DATA (its raw text is a string token), comments in every position
                   '/begin A2ML"/end A2ML', 'X /begin A2ML"/end A2ML', "X /begin A2ML x /end A2ML", "X /begin A2ML /end A2ML",
                   "X /begin B 1 /end B /* c */ /begin B 2 /end B", "X 1 /* c */", "X // c\n", "/* c */", "X /begin /* c */ B /end B"]


def hostile_cases():
    cases = []
    for name, aml in HOSTILE_A2ML.items():
        for pl in IFDATA_PAYLOADS:
            doc = ('ASAP2_VERSION 1 71\n/begin PROJECT p ""\n  /begin MODULE m ""\n    /begin A2ML\n' + aml + '\n    /end A2ML\n'
                   f'    /begin IF_DATA {pl} /end IF_DATA\n  /end MODULE\n/end PROJECT\n')
            nodef = ('ASAP2_VERSION 1 71\n/begin PROJECT p ""\n  /begin MODULE m ""\n'
                     f'    /begin IF_DATA {pl} /end IF_DATA\n  /end MODULE\n/end PROJECT\n')
            cases.append({"name": name, "payload": pl, "where": "in-file", "text": doc, "a2ml": None})
            cases.append({"name": name, "payload": pl, "where": "built-in", "text": nodef, "a2ml": aml})
    return cases


def run_isolated(binp, case, i, timeout=10):
    p = os.path.join(vlib.scratch(), f"hostile_{i}.ndjson")
    o = os.path.join(vlib.scratch(), f"hostile_{i}.out")
    docs = []
    for strict in (True, False):
        d = {"id": len(docs), "text": case["text"], "strict": strict, "want": ["write"]}
        if case["a2ml"] is not None:
            d["a2ml"] = case["a2ml"]
        docs.append(d)
    vlib.write_ndjson(p, docs)
    try:
        r = subprocess.run(["bash", "-c", f"ulimit -v 3000000; exec '{binp}' load-op --cases '{p}' --out '{o}'"],
                           stdout=subprocess.PIPE, stderr=subprocess.PIPE, timeout=timeout)
    except subprocess.TimeoutExpired:
        return "timeout", ""
    if r.returncode != 0:
        return "abort", r.stderr.decode("utf-8", "replace")[-200:]
    with open(o) as f:
        for l in f:
            x = json.loads(l)
            if "panic" in x or "write_panic" in x:
                return "panic", x.get("panic") or x.get("write_panic")
    return "ok", ""


def mutations(lines):
    """token-level prefixes, deletions, duplications and adjacent swaps of a document"""
    toks = []
    for li, l in enumerate(lines):
        for t in l:
            if t != "  ":
                toks.append((t, li))
    out = []

    def text(ts):
        res, cur = [], None
        for t, li in ts:
            if cur is not None and li != cur:
                res.append("\n")
            elif res:
                res.append(" ")
            res.append(t)
            cur = li
        return "".join(res) + "\n"
    n = len(toks)
    for i in range(1, n):
        out.append(("prefix", i, text(toks[:i])))
    for i in range(n):
        out.append(("delete", i, text(toks[:i] + toks[i + 1:])))
        out.append(("duplicate", i, text(toks[:i + 1] + [toks[i]] + toks[i + 1:])))
        if i + 1 < n:
            out.append(("swap", i, text(toks[:i] + [toks[i + 1], toks[i]] + toks[i + 2:])))
    return out


def unicode_documents():
    """documents whose offending token (the one a diagnostic quotes) consists of 2-, 3- and 4-byte characters behind an
    ASCII prefix of every length from 0 to 24"""
    words = []
    for ch in ("\u00e4", "\u20ac", "\U0001F600"):
        for j in list(range(0, 5)) + list(range(14, 25)):
            words.append("a" * j + ch * 10)
    head = 'ASAP2_VERSION 1 71\n/begin PROJECT p ""\n  /begin MODULE m ""\n'
    meas = '    /begin MEASUREMENT {name} "" {dt} NO_COMPU_METHOD 1 1 0 255 {extra} /end {end}\n'
    tail = '  /end MODULE\n/end PROJECT\n'
    docs, meta = [], []

    def add(site, text, fragment=False):
        for strict in (True, False):
            docs.append((text, strict))
            meta.append({"site": site, "fragment": fragment})
    for w in words:
        ok = meas.format(name="m1", dt="UBYTE", extra="", end="MEASUREMENT")
        add("trailing-string", head + ok + tail + f'"{w}" 5\n')
        add("trailing-word", head + ok + tail + f'{w}\n')
        add("unknown-keyword", head + meas.format(name="m1", dt="UBYTE", extra=f"{w} 1", end="MEASUREMENT") + tail)
        add("unknown-block", head + ok + f"    /begin {w} 1 /end {w}\n" + tail)
        add("end-tag", head + meas.format(name="m1", dt="UBYTE", extra="", end=w) + tail)
        add("enum-value", head + meas.format(name="m1", dt=w, extra="", end="MEASUREMENT") + tail)
        add("identifier", head + meas.format(name="9" + w, dt="UBYTE", extra="", end="MEASUREMENT") + tail)
        add("string-for-number", head + meas.format(name="m1", dt="UBYTE", extra=f'ECU_ADDRESS "{w}"', end="MEASUREMENT") + tail)
        add("version", f'ASAP2_VERSION 1 "{w}"\n/begin PROJECT p ""\n' + tail[tail.index("/end PROJECT"):])
        add("if-data", head + meas.format(name="m1", dt="UBYTE", extra=f'/begin IF_DATA {w} "{w}" /begin {w} /end {w}x /end IF_DATA', end="MEASUREMENT") + tail)
    return docs, meta


def run(tier, selftest):
    t0 = time.time()
    rep = vlib.Reporter(PID)
    binp = vlib.build_harness()
    thorough = tier == "thorough"
    # (a) lexer / soups
    res = vlib.tlc("MC_Lexer", cfg="MC_Lexer_T" if thorough else "MC_Lexer", workers=12, coverage=False, timeout=3400, heap="12g")
    if res.violation:
        rep.violation(f"lexer-spec:{res.violation}", "TLC: an invariant of Lexer.tla is violated", {"kind": "tlc"})
    lc = os.path.join(vlib.scratch(), "lexer_cases.ndjson")
    n_lex = 0
    with open(lc, "w") as f:
        for c in res.prints("CASE"):
            f.write(json.dumps(c, separators=(",", ":")) + "\n")
            n_lex += 1
    if n_lex < 50000:
        vlib.tool_error(f"only {n_lex} lexer inputs")
    lex_cases = None
    skip, lsum, nhang = 0, {"loads": 0, "cases": 0}, 0
    while True:
        rc, lines, err, hung = vlib.run_harness_watched(binp, ["lexer-replay", "--cases", lc, "--dir", os.path.join(vlib.scratch(), "lexdir"), "--loads", "--skip", skip], stall=20)
        for m in lines:
            if "mismatch" in m:
                rep.violation(f"lexer:{m['kind']}", m["mismatch"][:400], {"kind": "bytes", "case": m["case"]})
        if hung is None:
            if rc != 0 or not lines or "summary" not in lines[-1]:
                vlib.tool_error(f"lexer-replay failed rc={rc}: {err[-400:]}")
            lsum = {k: lsum.get(k, 0) + v for k, v in lines[-1]["summary"].items()}
            break
        # a load that does not return: the case is data, the run goes on behind it
        if lex_cases is None:
            lex_cases = [json.loads(l) for l in open(lc)]
        nhang += 1
        case = lex_cases[hung] if 0 <= hung < len(lex_cases) else {"bytes": []}
        rep.violation("load:hang:lexer-input", f"tokenizing / loading the input did not return (no progress for 20 s): bytes {case['bytes'][:60]}", {"kind": "bytes", "case": case})
        if hung < 0 or nhang >= 5:
            lsum = {"loads": 4 * max(hung, 0), "cases": max(hung, 0)}
            break
        skip = hung + 1
    # (b) parser mutations
    rng = random.Random(vlib.seed() * 3 + 3)
    elems = sorted(t for t in docgen.PATHS if t != "A2L_FILE")
    chosen = elems if thorough else rng.sample(elems, 12)
    docs, meta = [], []
    for e in chosen:
        for kind, i, text in mutations(docgen.document(e, docgen.best_version(e), target_mode="min" if not thorough else "max")):
            for strict in (True, False):
                docs.append((text, strict))
                meta.append({"e": e, "mutation": kind, "at": i})
    results = pc.run_loads(binp, docs, PID, want=("tokens",), timeout=3400)
    for i, r in enumerate(results):
        if "panic" in r or "tok_panic" in r:
            rep.violation(f"load:panic:{meta[i]['mutation']}", f"load panicked: {r.get('panic') or r.get('tok_panic')}", {"kind": "doc", "meta": meta[i], "text": docs[i][0], "strict": docs[i][1]})
    frag = pc.run_loads_fragment(binp, [d for d, s in docs[::2]], PID + "f")
    for i, r in enumerate(frag):
        if "panic" in r:
            rep.violation(f"load_fragment:panic:{meta[2 * i]['mutation']}", f"load_fragment panicked: {r['panic']}", {"kind": "doc", "meta": meta[2 * i], "text": docs[2 * i][0], "strict": False})
    # (documents with IF_DATA / A2ML are judged too: Parser.tla interprets IF_DATA through A2ml.tla; a mutation that hits
    # the A2ML text itself makes a definition this driver does not know - load_event then returns None)
    def a2ml_text_intact(t):
        return "A2ML" not in t or pc.DOCGEN_A2ML_TEXT in t
    events = [pc.load_event(r, s, None) if a2ml_text_intact(t) else None for r, (t, s) in zip(results, docs)]
    rejected, _, _, njudged = pc.judge_events(events, PID)
    for k, names in sorted(rejected.items()):
        r = results[k]
        rep.violation(f"parser:{'+'.join(names)}:{meta[k]['mutation']}",
                      f"{'strict' if docs[k][1] else 'lenient'} load of a mutated document disagrees with Parser.tla on {names} ({meta[k]}); observed {json.dumps(r.get('e') or [d[:2] for d in r.get('diags', [])])[:200]}",
                      {"kind": "doc", "meta": meta[k], "text": docs[k][0], "strict": docs[k][1]})
    # (b2) diagnostics embed token texts: tokens of characters outside ASCII at every byte alignment, at every place
    # where a diagnostic quotes the token (a byte-indexed cut of such a text must not split a character)
    udocs, umeta = unicode_documents()
    ures = pc.run_loads(binp, udocs, PID + "u", want=())
    for i, r in enumerate(ures):
        if "panic" in r:
            rep.violation(f"load:panic:unicode:{umeta[i]['site']}", f"load panicked on a non-ASCII token ({umeta[i]}): {r['panic']}", {"kind": "doc", "meta": umeta[i], "text": udocs[i][0], "strict": udocs[i][1]})
    ufrag = pc.run_loads_fragment(binp, [d for (d, s_), m in zip(udocs, umeta) if m.get("fragment") and not s_], PID + "uf")
    for r in ufrag:
        if "panic" in r:
            rep.violation("load_fragment:panic:unicode", f"load_fragment panicked on a non-ASCII token: {r['panic']}", {"kind": "doc", "meta": {}, "text": "", "strict": False})
    # (c) hostile A2ML, one process per case
    hostile = hostile_cases()
    hres = {}
    from concurrent.futures import ThreadPoolExecutor
    with ThreadPoolExecutor(max_workers=12) as ex:
        outcomes = list(ex.map(lambda ic: run_isolated(binp, ic[1], ic[0]), enumerate(hostile)))
    for c, (status, info) in zip(hostile, outcomes):
        hres[status] = hres.get(status, 0) + 1
        if status != "ok":
            rep.violation(f"a2ml:{status}:{c['name']}", f"hostile A2ML '{c['name']}' ({c['where']}, IF_DATA '{c['payload']}'): {status} {info[:200]}",
                          {"kind": "hostile", "case": c})
    # (d) random bytes
    nf = 300000 if thorough else 5000
    flines, fhangs = vlib.run_fuzz_watched(binp, vlib.seed() + 3, nf, os.path.join(vlib.scratch(), "fuzzdir"))
    for m in flines:
        rep.violation("load:panic:fuzz", m["mismatch"], {"kind": "bytes", "case": m["case"]})
    for i, data in fhangs:
        rep.violation("load:hang:fuzz", f"load() of random file {i} did not return (no progress for 20 s)", {"kind": "bytes", "case": {"fam": "fuzz", "i": i, "bytes": data}})
    cov = {
        "states": res.distinct,
        "transitions": res.generated,
        "traces_validated_against_impl": n_lex + njudged,
        "exhaustive": True,
        "evaluations": lsum["loads"] + len(docs) + len(frag) + 2 * len(hostile) + nf,
        "distinct_nontrivial": n_lex + len(docs) // 2 + len(hostile),
        "rule": "TLC-enumerated byte strings and token soups (tokenizer compared with Lexer.tla, four load entry points each), token-level mutations of positive documents (judged by Parser.tla (IF_DATA through A2ml.tla)), hostile A2ML x IF_DATA payloads in isolated processes, random byte files; non-trivial = every distinct input",
        "samples": [{"bytes": [47, 98, 101, 103, 105, 110, 32, 65, 50, 77, 76, 32, 34]}, {"mutation": meta[5], "text": docs[5][0][:200]}, hostile[4]],
        "lexer_inputs": n_lex,
        "loads_on_lexer_inputs": lsum["loads"],
        "mutated_documents": len(docs) // 2,
        "mutated_documents_judged_by_parser_spec": njudged,
        "hostile_a2ml_cases": len(hostile),
        "hostile_a2ml_status": hres,
        "random_byte_files": nf,
    }
    vlib.write_evidence(PID, tier, "model_checking", cov, [
        "a hang is only observable as a time-out (10 s per hostile case, 1000x the typical cost) or through the memory limit",
        "random byte inputs are exploration without a specification oracle (result class only)",
        "mutated documents that contain IF_DATA or A2ML are checked for 'no panic' only",
    ], time.time() - t0, rep.count_new)
    return rep.exit_code()


def replay(path):
    with open(path) as f:
        r = json.load(f)
    rep = vlib.Reporter(PID)
    binp = vlib.build_harness()
    case = r["case"]
    if case["kind"] == "hostile":
        status, info = run_isolated(binp, case["case"], 0)
        if status != "ok":
            rep.violation(f"a2ml:{status}", info, case)
    elif case["kind"] == "bytes":
        lc = os.path.join(vlib.scratch(), "replay.ndjson")
        c = case["case"]
        if "r" not in c:
            c = {"bytes": c["bytes"], "r": {"ok": True, "toks": []}}
        vlib.write_ndjson(lc, [c])
        rc, lines, err = vlib.run_harness(binp, ["lexer-replay", "--cases", lc, "--dir", os.path.join(vlib.scratch(), "lexdir"), "--loads"])
        for m in lines[:-1]:
            if m["kind"] == "panic" or "r" in case["case"]:
                rep.violation(f"lexer:{m['kind']}", m["mismatch"][:300], case)
    elif case["kind"] == "doc":
        results = pc.run_loads(binp, [(case["text"], case["strict"])], "replay", want=("tokens",))
        if "panic" in results[0]:
            rep.violation("load:panic", results[0]["panic"], case)
        fr = pc.run_loads_fragment(binp, [case["text"]], "replayf")
        if "panic" in fr[0]:
            rep.violation("load_fragment:panic", fr[0]["panic"], case)
    print("replay:", "violation reproduced" if rep.new else "no violation")
    return rep.exit_code()
