"""C12 - check(): limit plausibility follows data type and conversion.

B1  Limits.tla is the symbolic decision table (which raw endpoint of the data type maps to which
    physical limit under each conversion case, and when a report is due); TLC enumerates and
    sanity-checks the complete table: 5 element kinds x 11 data types x 12 conversion cases x
    4 placements of the declared limits.
B2  every row is instantiated with a grid of coefficients; the terms are evaluated in exact
    rational arithmetic (fractions.Fraction), the declared limits are placed clearly inside or
    clearly outside the physical range (1 % of the range and at least 10^3 x the documented
    tolerance), the document is run through the real check(), and a LimitCheckError for the
    element must be present exactly when the specification says a report is due.
The numeric instantiation is exploration; accuracy near the tolerance is not verified (the
property says "clearly").
"""
import json
import random
import time
from fractions import Fraction as F

import graphlib  # noqa
import vlib

PID = "C12"

RAW = {
    "UBYTE": (0, 255), "SBYTE": (-128, 127), "UWORD": (0, 65535), "SWORD": (-32768, 32767),
    "ULONG": (0, 4294967295), "SLONG": (-2147483648, 2147483647),
    "A_UINT64": (0, 18446744073709551615), "A_INT64": (-9223372036854775808, 9223372036854775807),
    "FLOAT16_IEEE": (F(-65504), F(65504)),
    "FLOAT32_IEEE": (F(-340282346638528859811704183484516925440), F(340282346638528859811704183484516925440)),
    "FLOAT64_IEEE": (-F(int(1.7976931348623157e308)), F(int(1.7976931348623157e308))),
}
MAGS = [F(1, 1000000), F(1, 1000), F(1), F(15, 2), F(1000), F(1000000)]


def fnum(x):
    """A2L literal of a rational (through the nearest double)"""
    v = float(x)
    return repr(v)


def instantiate(row, rng, n):
    """n numeric instances of one table row: (coefficients, physLo, physHi)"""
    out = []
    lo, hi = RAW[row["dt"]]
    lo, hi = F(lo), F(hi)
    conv = row["conv"]
    for _ in range(n):
        co = {}
        if conv.startswith("LINEAR"):
            a = rng.choice(MAGS) * (1 if conv == "LINEAR_POS" else -1 if conv == "LINEAR_NEG" else 0)
            b = rng.choice(MAGS) * rng.choice([1, -1])
            co = {"a": a, "b": b}
        elif conv.startswith("RATLIN"):
            # the slope of the inverse is f / b: both sign combinations of (f, b) occur
            f = rng.choice(MAGS) * rng.choice([1, -1])
            b = rng.choice(MAGS) * (1 if conv == "RATLIN_POS" else -1) * (1 if f > 0 else -1)
            c = rng.choice(MAGS) * rng.choice([1, -1, 0])
            co = {"a": F(0), "b": b, "c": c, "d": F(0), "e": F(0), "f": f}
        elif conv == "RATGEN":
            co = {"a": F(1), "b": F(2), "c": F(3), "d": rng.choice([F(0), F(1)]), "e": F(1), "f": F(5)}
            if rng.random() < 0.5:
                # a quadratic numerator over a constant denominator is not the linear special case either
                co = {"a": rng.choice([F(1), F(-2)]), "b": rng.choice([F(2), F(0)]), "c": F(3), "d": F(0), "e": F(0), "f": F(5)}

        def term(t):
            if t == "RawLo":
                return lo
            if t == "RawHi":
                return hi
            if t == "Const":
                return co["b"]
            if t.startswith("Lin("):
                x = lo if "RawLo" in t else hi
                return co["a"] * x + co["b"]
            if t.startswith("Inv("):
                x = lo if "RawLo" in t else hi
                return (co["f"] * x - co["c"]) / co["b"]
            return None
        plo, phi = term(row["physLo"]), term(row["physHi"])
        # intermediate results of the double arithmetic must stay finite for a "clear" case
        big = F(10) ** 308
        if conv.startswith("RATLIN") and any(abs(x / co["b"]) > big or abs(co["f"] * (x / co["b"])) > big for x in (lo, hi)):
            continue
        if conv.startswith("LINEAR") and any(abs(co["a"] * x) > big for x in (lo, hi)):
            continue
        if plo is not None and (abs(plo) > F(10) ** 308 or abs(phi) > F(10) ** 308) and row["dt"] != "FLOAT64_IEEE":
            continue            # would overflow a double: not a "clear" case
        out.append((co, plo, phi))
    return out


def place(row, plo, phi, edge=False):
    """declared (lower, upper): clearly inside / clearly outside the physical range.
    edge: inside = at the end of the range or 0.4 of the documented tolerance (1e-6 of the calculated limit) beyond it,
    outside = 10 tolerances beyond it (where the calculated limit is 0 the tolerance is 0: clearly outside instead)"""
    if plo is None:
        # unbounded conversion: any limits; use values far outside the raw range
        lo, hi = RAW[row["dt"]]
        if row["dt"] == "FLOAT64_IEEE":
            return F(lo), F(hi)
        return (F(lo) * 3 - 1000, F(hi) * 3 + 1000) if row["lower"] == "outside" or row["upper"] == "outside" else (F(lo), F(hi))
    rng_ = phi - plo
    margin = max(rng_ / 100, abs(plo) / 1000, abs(phi) / 1000, F(1, 1000))
    if edge and row["dt"] not in ("FLOAT32_IEEE", "FLOAT64_IEEE", "FLOAT16_IEEE", "A_UINT64", "A_INT64"):
        tol_lo, tol_hi = abs(plo) / 10 ** 6, abs(phi) / 10 ** 6
        lower = (plo - tol_lo * F(4, 10)) if row["lower"] == "inside" else (plo - tol_lo * 10 if tol_lo > 0 else plo - margin)
        upper = (phi + tol_hi * F(4, 10)) if row["upper"] == "inside" else (phi + tol_hi * 10 if tol_hi > 0 else phi + margin)
        return lower, upper
    lower = plo + rng_ / 4 if row["lower"] == "inside" else plo - margin
    upper = phi - rng_ / 4 if row["upper"] == "inside" else phi + margin
    return lower, upper


def compu_method(conv, co):
    if conv == "NONE":
        return "NO_COMPU_METHOD", ""
    if conv in ("IDENTICAL",):
        return "cm", '/begin COMPU_METHOD cm "" IDENTICAL "%6.2" "" /end COMPU_METHOD'
    if conv in ("TAB_INTP", "TAB_NOINTP"):
        return "cm", (f'/begin COMPU_METHOD cm "" {conv} "%6.2" "" COMPU_TAB_REF tab /end COMPU_METHOD '
                      f'/begin COMPU_TAB tab "" {conv} 2 0 0 1 1 /end COMPU_TAB')
    if conv == "TAB_VERB":
        return "cm", ('/begin COMPU_METHOD cm "" TAB_VERB "%6.2" "" COMPU_TAB_REF tab /end COMPU_METHOD '
                      '/begin COMPU_VTAB tab "" TAB_VERB 1 0 "zero" /end COMPU_VTAB')
    if conv == "FORM":
        return "cm", '/begin COMPU_METHOD cm "" FORM "%6.2" "" /begin FORMULA "X1*3" /end FORMULA /end COMPU_METHOD'
    if conv.startswith("LINEAR"):
        return "cm", f'/begin COMPU_METHOD cm "" LINEAR "%6.2" "" COEFFS_LINEAR {fnum(co["a"])} {fnum(co["b"])} /end COMPU_METHOD'
    cs = " ".join(fnum(co[k]) for k in "abcdef")
    return "cm", f'/begin COMPU_METHOD cm "" RAT_FUNC "%6.2" "" COEFFS {cs} /end COMPU_METHOD'


def document(row, co, lower, upper):
    cmname, cmtext = compu_method(row["conv"], co)
    dt = row["dt"]
    lo, hi = fnum(lower), fnum(upper)
    k = row["kind"]
    body = cmtext
    if k == "MEASUREMENT":
        body += f' /begin MEASUREMENT e1 "" {dt} {cmname} 1 1 {lo} {hi} /end MEASUREMENT'
    elif k == "TYPEDEF_MEASUREMENT":
        body += f' /begin TYPEDEF_MEASUREMENT e1 "" {dt} {cmname} 1 1 {lo} {hi} /end TYPEDEF_MEASUREMENT'
    elif k == "CHARACTERISTIC":
        body += (f' /begin RECORD_LAYOUT rl FNC_VALUES 1 {dt} ROW_DIR DIRECT /end RECORD_LAYOUT'
                 f' /begin CHARACTERISTIC e1 "" VALUE 0x0 rl 0 {cmname} {lo} {hi} /end CHARACTERISTIC')
    elif k == "AXIS_PTS":
        body += (f' /begin RECORD_LAYOUT rl AXIS_PTS_X 1 {dt} INDEX_INCR DIRECT /end RECORD_LAYOUT'
                 f' /begin AXIS_PTS e1 "" 0x0 NO_INPUT_QUANTITY rl 0 {cmname} 2 {lo} {hi} /end AXIS_PTS')
    elif k in ("AXIS_DESCR_2", "AXIS_DESCR_3", "AXIS_DESCR_4", "AXIS_DESCR_5"):
        # the standard axis is the 2nd / 3rd axis; the axes before it are FIX_AXIS; the record layout
        # describes the other positions with a different data type
        n = int(k[-1])
        other = "SBYTE" if dt == "UBYTE" else "UBYTE"
        names = ["X", "Y", "Z", "4", "5"]
        rl = " ".join(f"AXIS_PTS_{names[j]} {j + 2} {dt if j == n - 1 else other} INDEX_INCR DIRECT" for j in range(5))
        fix = " ".join("/begin AXIS_DESCR FIX_AXIS NO_INPUT_QUANTITY NO_COMPU_METHOD 2 0 10 FIX_AXIS_PAR 0 1 2 /end AXIS_DESCR" for _ in range(n - 1))
        ctype = {2: "MAP", 3: "CUBOID", 4: "CUBE_4", 5: "CUBE_5"}[n]
        body += (f' /begin RECORD_LAYOUT rl FNC_VALUES 1 UBYTE ROW_DIR DIRECT {rl} /end RECORD_LAYOUT'
                 f' /begin CHARACTERISTIC e1 "" {ctype} 0x0 rl 0 NO_COMPU_METHOD 0 255 {fix}'
                 f' /begin AXIS_DESCR STD_AXIS NO_INPUT_QUANTITY {cmname} 2 {lo} {hi} /end AXIS_DESCR /end CHARACTERISTIC')
    else:   # standard-axis AXIS_DESCR
        body += (f' /begin RECORD_LAYOUT rl FNC_VALUES 1 UBYTE ROW_DIR DIRECT AXIS_PTS_X 2 {dt} INDEX_INCR DIRECT /end RECORD_LAYOUT'
                 f' /begin CHARACTERISTIC e1 "" CURVE 0x0 rl 0 NO_COMPU_METHOD 0 255'
                 f' /begin AXIS_DESCR STD_AXIS NO_INPUT_QUANTITY {cmname} 2 {lo} {hi} /end AXIS_DESCR /end CHARACTERISTIC')
    return f'ASAP2_VERSION 1 71 /begin PROJECT p "" /begin MODULE m "" {body} /end MODULE /end PROJECT'


def reported(result, row):
    want_block = "AXIS_DESCR" if row["kind"].startswith("AXIS_DESCR") else row["kind"]
    for c in result["snaps"][1].get("check", []):
        if c["class"] == "LimitCheckError" and c.get("item_name") == "e1" and c.get("blockname") == want_block:
            return True
    return False


def run(tier, selftest):
    t0 = time.time()
    rep = vlib.Reporter(PID)
    binp = vlib.build_harness()
    thorough = tier == "thorough"
    res = vlib.tlc("MC_Limits", workers=8, coverage=False, timeout=900)
    if res.violation:
        rep.violation(f"limits-spec:{res.violation}", "TLC: the decision table of Limits.tla is not well formed", {"kind": "tlc"})
    rows = list(res.prints("CASE"))
    if len(rows) != 9 * 11 * 12 * 4:
        vlib.tool_error(f"decision table has {len(rows)} rows, expected 4752")
    rng = random.Random(vlib.seed() * 31337 + 12)
    per_row = 40 if thorough else 2
    cases, mo = [], []
    for row in rows:
        for n_inst, (co, plo, phi) in enumerate(instantiate(row, rng, per_row)):
            # every second instance puts the declared limits at the edge of the documented tolerance
            lower, upper = place(row, plo, phi, edge=(n_inst % 2 == 1))
            if abs(lower) > F(17, 10) * F(10) ** 308 or abs(upper) > F(17, 10) * F(10) ** 308:
                continue        # the declared limit itself is not representable: not a "clear" case
            i = len(cases)
            cases.append((row, co, lower, upper))
            mo.append({"id": i, "a": document(row, co, lower, upper), "ops": ["check"]})
    out = graphlib.run_ops(binp, mo, "limits")
    mism = 0
    for i, (row, co, lower, upper) in enumerate(cases):
        r = out.get(i)
        if r is None or "snaps" not in r:
            vlib.tool_error(f"generated document does not load ({row}): {(r or {}).get('load_a_error')}\n{mo[i]['a']}")
        sn = r["snaps"][1]
        if "check_panic" in sn or "panic" in sn:
            rep.violation(f"limits:panic:{row['kind']}", f"check() panicked: {sn.get('check_panic') or sn.get('panic')}", {"kind": "doc", "row": row, "a": mo[i]["a"]})
            continue
        got = reported(r, row)
        if got != row["report"]:
            mism += 1
            direction = "missing" if row["report"] else "spurious"
            rep.violation(f"limits:{direction}:{row['conv']}:{row['kind']}",
                          f"LimitCheckError {'expected but not reported' if row['report'] else 'reported but not due'}: {row['kind']} {row['dt']} {row['conv']} declared {fnum(lower)}..{fnum(upper)} (lower {row['lower']}, upper {row['upper']}); "
                          f"check said: {[c['text'] for c in sn.get('check', []) if c['class'] == 'LimitCheckError']}",
                          {"kind": "doc", "row": row, "a": mo[i]["a"]})
    binding = None
    if selftest or thorough:
        # flip the expectation of one row: the comparison must notice
        row = dict(next(r for r in rows if r["report"]))
        row["report"] = False
        co, plo, phi = instantiate(row, rng, 1)[0]
        lower, upper = place(row, plo, phi)
        o2 = graphlib.run_ops(binp, [{"id": 0, "a": document(row, co, lower, upper), "ops": ["check"]}], "selftest")
        binding = {"flipped_expectation_detected": reported(o2[0], row) != row["report"]}
        if not all(binding.values()):
            vlib.tool_error(f"binding selftest failed: {binding}")
    cov = {
        "states": res.distinct,
        "transitions": res.generated,
        "traces_validated_against_impl": len(cases),
        "exhaustive": True,
        "evaluations": len(cases),
        "distinct_nontrivial": sum(1 for c in cases if c[0]["report"]),
        "rule": "every row of the decision table (kind x data type x conversion case x placement) x seeded coefficient instances; non-trivial = a report is due",
        "samples": [rows[0], {"row": cases[len(cases) // 2][0], "document": mo[len(cases) // 2]["a"]}],
        "table_rows": len(rows),
        "instances_per_row": per_row,
        "replay_mismatches": mism,
    }
    if binding:
        cov["binding_mutations_rejected"] = binding
    vlib.write_evidence(PID, tier, "model_checking", cov, [
        "the case analysis is decided by Limits.tla; the numeric instantiation (exact rationals, limits placed clearly inside/outside) is exploration: accuracy near the documented tolerance is not verified",
        "instances whose physical limits exceed 1e300 are dropped (not 'clear' in double precision)",
        "RAT_FUNC linear special case requires b != 0 and f != 0",
    ], time.time() - t0, rep.count_new)
    return rep.exit_code()


def replay(path):
    with open(path) as f:
        r = json.load(f)
    rep = vlib.Reporter(PID)
    binp = vlib.build_harness()
    case = r["case"]
    if case.get("kind") == "tlc":
        res = vlib.tlc("MC_Limits", workers=8, coverage=False, timeout=900, expect_violation=True)
        if res.violation:
            rep.violation(f"limits-spec:{res.violation}", "TLC property violated", case)
    else:
        out = graphlib.run_ops(binp, [{"id": 0, "a": case["a"], "ops": ["check"]}], "replay")
        got = reported(out[0], case["row"])
        if got != case["row"]["report"]:
            rep.violation("limits:mismatch", f"LimitCheckError present={got}, specification says {case['row']['report']}", case)
    print("replay:", "violation reproduced" if rep.new else "no violation")
    return rep.exit_code()
