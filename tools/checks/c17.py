"""C17 - the loaded model does not depend on the file's text encoding.

B1  Decode.tla transcribes the detection cascade (UTF-32 -> UTF-16 -> UTF-8 -> ISO-8859-1, BOM
    strip) as a decision procedure over byte sequences; TLC checks Load(Encode(e, d)) = d for all
    10 encodings x all texts of 1..4 characters over {A, U+00E9, U+20AC, U+1F600} (ASCII first) x
    every length residue mod 4 - the heuristic itself is model-checked.
B2  (a) every byte string of length 0..4 over a 14-byte alphabet that separates all branch
        conditions: the hook decode_raw_bytes must return exactly the specification's decoding;
        the bytes, written to a file, must go through load() without a panic;
    (b) every round-trip case: the hook decodes to the text, and the text embedded in a real
        document (string, comment), encoded independently and written to a file, loads to a
        model equal to load_from_string of the document.
B3  seeded random byte files and byte-level mutations of encoded documents through load():
    never a panic.
"""
import json
import os
import time

import vlib

PID = "C17"


def sig_of(m):
    c = m["case"]
    if m["kind"] == "panic":
        return "decode:panic:" + c.get("fam", "?")
    if c.get("fam") == "rt":
        return f"decode:{m['kind']}:{c['enc']}"
    return f"decode:{m['kind']}:{c.get('which', '?')}"


def run_cases(binp, cases, rep, tag):
    p = os.path.join(vlib.scratch(), f"decode_cases_{tag}.ndjson")
    vlib.write_ndjson(p, cases)
    d = os.path.join(vlib.scratch(), "decode_files")
    rc, lines, err = vlib.run_harness(binp, ["decode-replay", "--cases", p, "--dir", d], timeout=1800)
    if rc != 0 or not lines or "summary" not in lines[-1]:
        vlib.tool_error(f"decode-replay failed rc={rc}: {err[-500:]}")
    for m in lines[:-1]:
        rep.violation(sig_of(m), m["mismatch"], {"kind": "case", "case": m["case"]})
    return lines[-1]["summary"]


def run(tier, selftest):
    t0 = time.time()
    rep = vlib.Reporter(PID)
    binp = vlib.build_harness()
    thorough = tier == "thorough"
    res = vlib.tlc("MC_Decode", cfg="MC_Decode_T" if thorough else "MC_Decode", workers=12, coverage=False, timeout=3000, heap="8g")
    if res.violation:
        rep.violation(f"decode-spec:{res.violation}", "TLC: the detection cascade of Decode.tla does not round-trip an encoded text", {"kind": "tlc"})
    cases = list(res.prints("CASE"))
    fams, which = {}, {}
    for c in cases:
        fams[c["fam"]] = fams.get(c["fam"], 0) + 1
        which[c["which"]] = which.get(c["which"], 0) + 1
    if set(which) != {"utf32", "utf16", "utf8", "latin1"} or set(fams) != {"rt", "bytes"}:
        vlib.tool_error(f"vacuity: branches of the cascade reached: {which}, families {fams}")
    summ = run_cases(binp, cases, rep, "mc")
    d = os.path.join(vlib.scratch(), "decode_files")
    nf = 500000 if thorough else 10000
    lines, fhangs = vlib.run_fuzz_watched(binp, vlib.seed(), nf, d)
    for m in lines:
        rep.violation("decode:panic:fuzz", m["mismatch"], {"kind": "case", "case": m["case"]})
    for i, data in fhangs:
        rep.violation("decode:hang:fuzz", f"load() of random file {i} did not return (no progress for 20 s)", {"kind": "case", "case": {"fam": "fuzz", "i": i, "bytes": data}})
    binding = None
    if selftest or thorough:
        c = json.loads(json.dumps(next(c for c in cases if c["fam"] == "bytes" and len(c["decoded"]) >= 1)))
        c["decoded"][0] += 1
        silent = vlib.Reporter("SELFTEST")
        silent.violation = lambda *a, **k: silent.new.append("x")
        run_cases(binp, [c], silent, "selftest")
        binding = {"corrupted_expected_decoding_detected": len(silent.new) > 0}
        if not all(binding.values()):
            vlib.tool_error(f"binding selftest failed: {binding}")
    cov = {
        "states": res.distinct,
        "transitions": res.generated,
        "traces_validated_against_impl": summ["cases"],
        "exhaustive": True,
        "evaluations": summ["cases"] + nf,
        "distinct_nontrivial": sum(1 for c in cases if c["which"] != "utf8" or any(b > 127 for b in c["bytes"])),
        "rule": "rt: 10 encodings x texts of 1..4 characters over 4 representative code points (ASCII first) x 0..3 trailing spaces; bytes: all byte strings of length 0..N over a 14-byte alphabet; non-trivial = not plain ASCII/UTF-8; plus seeded random byte files through load()",
        "samples": [cases[0], next(c for c in cases if c["which"] == "latin1"), next(c for c in cases if c["which"] == "utf32")],
        "families": fams,
        "cascade_branches": which,
        "files_loaded": summ["files_loaded"],
        "fuzz_files": nf,
        "replay_mismatches": summ["mismatches"],
    }
    if binding:
        cov["binding_mutations_rejected"] = binding
    vlib.write_evidence(PID, tier, "model_checking", cov, [
        "texts are built from four representative code points (1-, 2-, 3- and 4-byte UTF-8; BMP and non-BMP); contents inside a class are not enumerated",
        "the first character of every document is ASCII (precondition of the property)",
        "model equality is the library's == plus equal written text and equal number of log messages",
    ], time.time() - t0, rep.count_new)
    return rep.exit_code()


def replay(path):
    with open(path) as f:
        r = json.load(f)
    rep = vlib.Reporter(PID)
    binp = vlib.build_harness()
    case = r["case"]
    if case.get("kind") == "tlc":
        res = vlib.tlc("MC_Decode", workers=12, coverage=False, timeout=3000, expect_violation=True)
        if res.violation:
            rep.violation(f"decode-spec:{res.violation}", "TLC property violated", case)
    elif case["case"].get("fam") == "fuzz":
        d = os.path.join(vlib.scratch(), "decode_files")
        os.makedirs(d, exist_ok=True)
        c = {"fam": "bytes", "bytes": case["case"]["bytes"], "decoded": [], "which": "?"}
        # only the loader's totality is replayed for fuzz cases
        p = os.path.join(d, "x.a2l")
        open(p, "wb").write(bytes(case["case"]["bytes"]))
        summ = run_cases(binp, [c], vlib.Reporter("IGNORE"), "replay")
        rc, lines, err = vlib.run_harness(binp, ["decode-replay", "--cases", os.path.join(vlib.scratch(), "decode_cases_replay.ndjson"), "--dir", d])
        for m in lines[:-1]:
            if m["kind"] == "panic":
                rep.violation("decode:panic:fuzz", m["mismatch"], case)
    else:
        run_cases(binp, [case["case"]], rep, "replay")
    print("replay:", "violation reproduced" if rep.new else "no violation")
    return rep.exit_code()
