"""Concretiser: abstract case descriptors (element, deviation, index, version) -> A2L documents,
driven by grammar.json.  Every token text is distinct per position so that a parser that swaps two
parameters of equal type produces a visibly different tree."""
import a2ldoc

EL = a2ldoc.EL
ENUMS = a2ldoc.ENUMS
VERS = {150: ("1", "50"), 151: ("1", "51"), 160: ("1", "60"), 161: ("1", "61"), 170: ("1", "70"), 171: ("1", "71")}


def vnum(v):
    return None if v is None else int(round(float(v) * 100))


def in_version(item, ver, allow_deprecated=False):
    s, u = vnum(item.get("since")), vnum(item.get("until"))
    if s is not None and ver < s:
        return False
    if u is not None and ver > u and not allow_deprecated:
        return False
    return True


class Ctr:
    def __init__(self):
        self.n = 0

    def next(self):
        self.n += 1
        return self.n


def sample(ptype, ctr, ver, hexy=False):
    n = ctr.next()
    if ptype == "ident":
        return f"id_{n}"
    if ptype == "string":
        return f'"s{n}"'
    if ptype in ("uchar", "char"):
        return str(1 + n % 100)
    if ptype in a2ldoc.INT_BITS:
        return hex(0x100 + n) if hexy else str(100 + n)
    if ptype in ("float", "double"):
        return f"{n}.1"        # not exactly representable in binary: f32 and f64 store different values
    items = [i for i in ENUMS[ptype] if in_version(i, ver)]
    return (items or ENUMS[ptype])[n % len(items or ENUMS[ptype])]["item"]


def other_class(ptype):
    """a token of another lexical class (retype deviation)"""
    if ptype == "ident":
        return "77"
    if ptype == "string":
        return "78"
    if ptype in a2ldoc.INT_BITS or ptype in ("float", "double"):
        return '"notanumber"'
    return "NOT_AN_ENUM_ITEM"


def param_tokens(p, ctr, ver):
    if "seq" in p:
        out = []
        for _ in range(2):
            for q in p["seq"]:
                out.append(sample(q["type"], ctr, ver))
        return out
    if "array" in p:
        return [sample(p["type"], ctr, ver) for _ in range(p["array"])]
    if p["name"] == "position":
        # position-restricted items (RECORD_LAYOUT) are written in the order of their positions:
        # documents are generated in canonical order
        return [str(ctr.next())]
    return [sample(p["type"], ctr, ver, hexy=(ctr.n % 3 == 0))]


def special(tag):
    if tag == "IF_DATA":
        return ["/begin", "IF_DATA", "XCP", "1", "/end", "IF_DATA"]
    if tag == "A2ML":
        return ["/begin", "A2ML", "\n      block \"IF_DATA\" struct { int; };\n", "/end", "A2ML"]
    return None


def render(tag, ctr, ver, mode, hook=None, path=()):
    """lines (lists of token texts) of one element.
    mode: "max" = all parameters, every optional sub-element that exists in `ver` once (repeatable ones
    twice, rendered minimally); "min" = parameters and required sub-elements only.
    hook(tag, path, part, default) lets a deviation replace a part of the rendering."""
    sp = special(tag)
    if sp is not None:
        return [sp]
    el = EL[tag]
    block = el["form"] == "block"
    head = (["/begin"] if block else []) + [tag]
    params = []
    for i, p in enumerate(el["params"]):
        toks = param_tokens(p, ctr, ver)
        if tag == "ASAP2_VERSION":
            toks = [VERS[ver][i]]
        if hook:
            toks = hook(tag, path, ("param", i), toks)
        params.append(toks)
    lines = [head + [t for ts in params for t in ts]]
    for c in el["children"]:
        ctag = c["tag"]
        if ctag not in EL:
            continue
        want = 0
        if c["required"] or mode == "max":
            want = 2 if (c["mult"] == "many" and mode == "max") else 1
        if not in_version(c, ver) and not c["required"]:
            want = 0
        if hook:
            want = hook(tag, path, ("kidcount", ctag), want)
        for _ in range(want):
            sub = render(ctag, ctr, ver, "min", hook, path + (tag,))
            if hook:
                sub = hook(tag, path, ("kid", ctag), sub)
            lines += [["  "] + l for l in sub]
    if hook:
        lines = hook(tag, path, ("body", None), lines)
    if block:
        lines.append(["/end", tag])
    return lines


# parent map: how to reach every element from A2L_FILE
def _paths():
    paths = {"A2L_FILE": ("A2L_FILE",)}
    queue = ["A2L_FILE"]
    while queue:
        t = queue.pop(0)
        for c in EL[t]["children"]:
            if c["tag"] in EL and c["tag"] not in paths:
                paths[c["tag"]] = paths[t] + (c["tag"],)
                queue.append(c["tag"])
    return paths


PATHS = _paths()


def best_version(target):
    """the newest version in which the whole path to `target` exists without deprecation"""
    ver = 171
    path = PATHS[target]
    for i in range(1, len(path)):
        for c in EL[path[i - 1]]["children"]:
            if c["tag"] == path[i] and c.get("until"):
                ver = min(ver, vnum(c["until"]))
    return ver


def document(target, ver, hook=None, with_version=True, target_mode="max"):
    """a document in which `target` is rendered maximally inside minimal wrappers"""
    ctr = Ctr()
    path = PATHS[target]

    def wrap(i, parent_path):
        tag = path[i]
        if i == len(path) - 1:
            return render(tag, ctr, ver, target_mode, hook, parent_path)
        # minimal wrapper with the next path element as (additional) child
        nxt = path[i + 1]

        def wh(t, pth, part, default):
            if t == tag and pth == parent_path and part == ("kidcount", nxt):
                return 0      # rendered explicitly below
            return default
        lines = render(tag, ctr, ver, "min", wh, parent_path)
        inner = [["  "] + l for l in wrap(i + 1, parent_path + (tag,))]
        if EL[tag]["form"] == "block":
            return lines[:-1] + inner + lines[-1:]
        # A2L_FILE: the version (if it is the target) must come first
        return (inner + lines) if nxt in ("ASAP2_VERSION", "A2ML_VERSION") else (lines + inner)
    lines = wrap(0, ())
    # A2L_FILE is a keyword without a tag of its own
    lines = [l for l in lines if l != ["A2L_FILE"]]
    lines = [l[1:] if l and l[0] == "  " else l for l in lines]
    if with_version and target not in ("ASAP2_VERSION",):
        has = any("ASAP2_VERSION" in l for l in lines)
        if not has:
            lines = [["ASAP2_VERSION", VERS[ver][0], VERS[ver][1]]] + lines
    return lines


def text_of(lines):
    out = []
    for l in lines:
        ind = 0
        toks = list(l)
        while toks and toks[0] == "  ":
            ind += 1
            toks = toks[1:]
        out.append("  " * ind + " ".join(toks))
    return "\n".join(out) + "\n"
