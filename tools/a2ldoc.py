"""Documents for the parser-level checks: lexical token attributes, the mapping between the
generic tree of Parser.tla and the Debug tree of the real model, and value comparison
(number notation, string escapes) - the part that lies outside TLA+."""
import json
import math
import os
import re
import struct

VERIF = os.path.dirname(os.path.dirname(os.path.abspath(__file__)))
with open(os.path.join(VERIF, "grammar", "grammar.json")) as _f:
    G = json.load(_f)
EL = G["elements"]
ENUMS = G["enums"]

INT_BITS = {"char": (8, True), "int": (16, True), "long": (32, True), "int64": (64, True),
            "uchar": (8, False), "uint": (16, False), "ulong": (32, False), "uint64": (64, False)}
_FLOAT_RE = re.compile(r"^[+-]?((\d+(\.\d*)?|\.\d+)([eE][+-]?\d+)?|inf|infinity|nan)$", re.I)


def int_value(text):
    """(value, is_hex) as the documented syntax reads it, or None"""
    if len(text) > 2 and text[:2] in ("0x", "0X"):
        body = text[2:]
        if body.startswith("+"):
            body = body[1:]
        if re.fullmatch(r"[0-9a-fA-F]+", body):
            v = int(body, 16)
            return (v, True) if v < 2 ** 64 else None
        return None
    if re.fullmatch(r"[+-]?\d+", text):
        return int(text), False
    return None


def tok_attrs(ttype, text):
    if ttype == "id":
        return {"digit": text[:1].isdigit(), "long": len(text.encode()) > 1024}
    if ttype == "num":
        iv = int_value(text)
        fits = []
        if iv is not None:
            v, is_hex = iv
            for t, (bits, signed) in INT_BITS.items():
                if is_hex:
                    ok = 0 <= v < 2 ** bits
                elif signed:
                    ok = -(2 ** (bits - 1)) <= v < 2 ** (bits - 1)
                else:
                    ok = 0 <= v < 2 ** bits and not text.startswith("-")
                if ok:
                    fits.append(t)
        if text[:2] in ("0x", "0X"):
            fl = iv is not None
        else:
            # a float literal fits its field if it has the documented syntax and a finite value
            fl = bool(_FLOAT_RE.match(text)) and math.isfinite(float(text))
        val = iv[0] if iv is not None and 0 <= iv[0] < 2 ** 31 else -1
        return {"fits": fits, "float": fl, "val": val}
    return {"none": 0}


def tokens_event(tokens):
    import a2mlgen          # (the attributes of A2ml.tla - byte length of strings, f32 range - are a superset)
    return [{"t": t, "v": v, "line": l, "a": a2mlgen.tok_attrs(t, v)} for t, v, l in tokens]


# --------------------------------------------------------------------------------------------
# value comparison: token text (specification side) vs. stored value (Debug tree)
# --------------------------------------------------------------------------------------------
def unescape(tok):
    """content of a string token as the documented escape rules read it"""
    t = tok
    if t.startswith('"') and t.endswith('"') and len(t) >= 2:
        t = t[1:-1]
    out, i = [], 0
    while i < len(t):
        c = t[i]
        n = t[i + 1] if i + 1 < len(t) else ""
        if c in "\\\"" and n == '"':
            out.append('"')
            i += 2
        elif c == "\\" and n in ("'", "\\"):
            out.append(n)
            i += 2
        elif c == "\\" and n in "nrt":
            out.append({"n": "\n", "r": "\r", "t": "\t"}[n])
            i += 2
        else:
            out.append(c)
            i += 1
    return "".join(out)


def dbg_num(v):
    if isinstance(v, dict) and "_n" in v:
        s = v["_n"]
        return float(s.replace("inf", "inf"))
    return v


def value_eq(ptype, spec_v, real_v):
    """does the token text (spec side) denote the value the library stored?"""
    if ptype == "ident":
        return isinstance(real_v, dict) and real_v.get("_s") == spec_v
    if ptype == "string":
        want = unescape(spec_v) if spec_v.startswith('"') else spec_v
        return isinstance(real_v, dict) and real_v.get("_s") == want
    if ptype in INT_BITS:
        txt = spec_v["txt"]
        iv = int_value(txt)
        if iv is None:
            return False
        v, is_hex = iv
        bits, signed = INT_BITS[ptype]
        if is_hex and signed and v >= 2 ** (bits - 1):
            v -= 2 ** bits
        return dbg_num(real_v) == v
    if ptype in ("float", "double"):
        txt = spec_v["txt"]
        if txt[:2] in ("0x", "0X"):
            want = float(int_value(txt)[0])
        else:
            want = float(txt)
        got = dbg_num(real_v)
        # (the DSL type "float" is stored as f64, like "double")
        if isinstance(got, (int, float)):
            return float(got) == want or (math.isnan(want) and math.isnan(float(got)))
        return False
    # enum
    items = {i["item"]: i["variant"] for i in ENUMS[ptype]}
    return real_v == items.get(spec_v)


def field_of_param(name):
    return name


def compare_node(spec, real, path, out):
    """spec: [tag, params, kids] from Parser.tla; real: Debug object of the same element"""
    tag = spec["tag"]
    el = EL[tag]
    if tag == "IF_DATA":
        # params = [valid, value tree] of A2ml.tla; the stored generic tree must hold the values the tokens denote
        import a2mlgen
        valid, v = spec["params"][0], spec["params"][1]
        items = real.get("ifdata_items") if isinstance(real, dict) else None
        if v.get("k") == "absent":
            if items is not None:
                out.append(f"{path}: empty IF_DATA, the model has content")
            return
        if items is None:
            out.append(f"{path}: IF_DATA content missing in the model")
            return
        d = a2mlgen.value_diff(v, a2mlgen.norm_value(items), path, described=bool(valid))
        if d:
            out.append(d)
        return
    if tag == "A2ML":
        if not (isinstance(real, dict) and real.get("a2ml_text", {}).get("_s") == spec["params"][0]):
            out.append(f"{path}: a2ml_text differs")
        return
    if isinstance(real, str) and real == el["typename"] and not el["params"] and not el["children"]:
        return          # a keyword without content is a unit struct
    if not isinstance(real, dict):
        out.append(f"{path}: element {tag} missing in the model ({real!r})")
        return
    for p, sv in zip(el["params"], spec["params"]):
        rv = real.get(p["name"], "<no such field>")
        if "seq" in p:
            if not isinstance(rv, list) or len(rv) != len(sv):
                out.append(f"{path}.{p['name']}: sequence {sv} vs {rv}")
                continue
            for i, (s1, r1) in enumerate(zip(sv, rv)):
                if len(p["seq"]) == 1:
                    if not value_eq(p["seq"][0]["type"], s1, r1):
                        out.append(f"{path}.{p['name']}[{i}]: token {s1} vs stored {r1}")
                else:
                    for q, s2 in zip(p["seq"], s1):
                        r2 = r1.get(q["name"]) if isinstance(r1, dict) else None
                        if not value_eq(q["type"], s2, r2):
                            out.append(f"{path}.{p['name']}[{i}].{q['name']}: token {s2} vs stored {r2}")
        elif "array" in p:
            if not isinstance(rv, list) or len(rv) != len(sv) or not all(value_eq(p["type"], a, b) for a, b in zip(sv, rv)):
                out.append(f"{path}.{p['name']}: array {sv} vs {rv}")
        else:
            if not value_eq(p["type"], sv, rv):
                out.append(f"{path}.{p['name']}: token {sv} vs stored {rv}")
    # children: per tag, in order of appearance
    by_tag = {}
    for k in spec["kids"]:
        by_tag.setdefault(k["tag"], []).append(k)
    for c in el["children"]:
        ctag = c["tag"]
        rv = real.get(EL[ctag]["field"], "<no such field>")
        want = by_tag.get(ctag, [])
        if c["mult"] == "many":
            have = rv if isinstance(rv, list) else None
            if have is None or len(have) != len(want):
                out.append(f"{path}/{ctag}: {len(want)} occurrences in the document, model has {rv if have is None else len(have)}")
                continue
            for i, (s1, r1) in enumerate(zip(want, have)):
                compare_node(s1, r1, f"{path}/{ctag}[{i}]", out)
        else:
            if not want:
                if rv is not None and not (c["required"]):
                    out.append(f"{path}/{ctag}: absent in the document, present in the model")
            else:
                compare_node(want[-1], rv, f"{path}/{ctag}", out)


def compare_tree(spec_tree, real_tree):
    """returns a list of differences (empty = the model holds exactly what the document says)"""
    out = []
    compare_node(spec_tree, real_tree, "A2L_FILE", out)
    return out
