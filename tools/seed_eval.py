#!/usr/bin/env python3
"""Evaluate one seeded change: confirm it (compiles, existing tests pass, demo fails with / passes without)
in a scratch worktree, then run the given checks against /repo with the patch applied and undo it.
usage: seed_eval.py <seed-id> <worktree> <patch.diff> <demo.rs> <property> [more properties...]
Writes /verif/seeded/<seed-id>/{patch.diff,demo.rs,meta.json}."""
import json
import os
import shutil
import subprocess
import sys
import time

VERIF = os.path.dirname(os.path.dirname(os.path.abspath(__file__)))


def sh(cmd, cwd, timeout=1800):
    p = subprocess.run(cmd, cwd=cwd, shell=True, stdout=subprocess.PIPE, stderr=subprocess.STDOUT, text=True, timeout=timeout)
    return p.returncode, p.stdout


def main():
    sid, wt, patch, demo = sys.argv[1:5]
    props = sys.argv[5:]
    tgt = os.path.join(wt, "target")
    meta = {"seed": sid, "breaks": props, "ran": []}
    demo_name = "demo_" + sid.lower().replace("-", "_")
    demo_dst = os.path.join(wt, "a2lfile", "tests", demo_name + ".rs")
    sh("git checkout -- . && git clean -fdq a2lfile/tests", wt)
    crate = os.path.isdir(demo)          # a scratch crate that links the in-tree a2lmacros (C19) instead of a test file
    if crate:
        run_demo = f"cargo run --offline --quiet --manifest-path {demo}/Cargo.toml --target-dir {tgt} > /dev/null 2>&1; echo DEMO-EXIT=$?"
        rc0, out0 = sh(run_demo, wt)
        ok_without = "DEMO-EXIT=0" in out0
        rc, out = sh(f"git apply {patch}", wt)
        if rc != 0:
            print("patch does not apply:", out)
            sys.exit(2)
        rc1, out1 = sh(f"cargo test --workspace --no-fail-fast --offline --target-dir {tgt} 2>&1 | grep -E '^test result|FAILED|^error' ", wt)
        suite_ok = "FAILED" not in out1 and "error" not in out1 and "test result: ok" in out1
        rc2, out2 = sh(run_demo, wt)
        fails_with = "DEMO-EXIT=" in out2 and "DEMO-EXIT=0" not in out2
        sh("git checkout -- .", wt)
    else:
        os.makedirs(os.path.dirname(demo_dst), exist_ok=True)
        # without the change: demo passes
        shutil.copy(demo, demo_dst)
        rc0, out0 = sh(f"cargo test --offline --target-dir {tgt} -p a2lfile --test {demo_name} 2>&1 | tail -15", wt)
        ok_without = "test result: ok" in out0
        # with the change: compiles, suite passes, demo fails
        rc, out = sh(f"git apply {patch}", wt)
        if rc != 0:
            print("patch does not apply:", out)
            sys.exit(2)
        os.remove(demo_dst)
        rc1, out1 = sh(f"cargo test --workspace --no-fail-fast --offline --target-dir {tgt} 2>&1 | grep -E '^test result|FAILED|^error' ", wt)
        suite_ok = "FAILED" not in out1 and "error" not in out1 and "test result: ok" in out1
        shutil.copy(demo, demo_dst)
        rc2, out2 = sh(f"cargo test --offline --target-dir {tgt} -p a2lfile --test {demo_name} 2>&1 | tail -25", wt)
        fails_with = "test result: FAILED" in out2 or "panicked" in out2
        sh("git checkout -- . && git clean -fdq a2lfile/tests", wt)
    meta["confirmed"] = {"demo_passes_without_change": ok_without, "existing_suite_passes_with_change": suite_ok,
                         "demo_fails_with_change": fails_with}
    meta["ran"].append("cargo test --workspace --no-fail-fast --offline (with change); cargo test --test <demo> with and without change")
    print(json.dumps(meta["confirmed"]))
    # run the checks against /repo with the patch applied
    rc, out = sh(f"git -C /repo apply {patch}", "/repo")
    if rc != 0:
        print("patch does not apply to /repo:", out)
        sys.exit(2)
    results = {}
    try:
        for p in props:
            t0 = time.time()
            rc, out = sh(f"bin/check {p} --tier quick", VERIF, timeout=3600)
            viol = [l for l in out.splitlines() if l.startswith("VIOLATION")]
            results[p] = {"exit": rc, "violations": len(viol), "first": (out.splitlines()[:4] if viol else out.splitlines()[-3:]),
                          "wall_s": round(time.time() - t0, 1)}
            print(p, "exit", rc, "violations", len(viol))
    finally:
        sh("git -C /repo checkout -- .", "/repo")
    meta["check_results"] = results
    meta["detected_by"] = [p for p, r in results.items() if r["exit"] == 1]
    d = os.path.join(VERIF, "seeded", sid)
    os.makedirs(d, exist_ok=True)
    shutil.copy(patch, os.path.join(d, "patch.diff"))
    if os.path.isdir(demo):
        shutil.copytree(demo, os.path.join(d, "democrate"), dirs_exist_ok=True, ignore=shutil.ignore_patterns("target"))
    else:
        shutil.copy(demo, os.path.join(d, "demo.rs"))
    notes = os.path.join(os.path.dirname(patch), "notes.md")
    if os.path.exists(notes):
        meta["needs_to_manifest"] = open(notes).read()[:1500]
    with open(os.path.join(d, "meta.json"), "w") as f:
        json.dump(meta, f, indent=1)
    # rebuild the harness against the restored tree and restore the evidence files of the unchanged tree
    sh("cargo build --offline --quiet", os.path.join(VERIF, "harness"))
    sh("git checkout -- evidence", VERIF)


if __name__ == "__main__":
    main()
