#!/usr/bin/env python3
"""Parse the frozen A2L 1.7.1 grammar DSL (/verif/grammar/a2l_1_7_1.dsl, the body of the
a2l_specification! macro at the pinned commit) and emit /verif/grammar/grammar.json.

grammar.json:
  elements: { TAG: { form: block|keyword, params: [ {name, type} | {name, type, array: n} |
                     {name, seq: [ {name,type}, ... ]} ],
                     children: [ {tag, mult: one|many, required, since, until} ],   (DSL order)
                     field: rust field name when used as a child, typename: Rust type name } }
  enums:    { TypeName: [ {item, since, until, variant} ] }
  versions: ["1.50", "1.51", "1.60", "1.61", "1.70", "1.71"]
"""
import json
import os
import re
import sys

VERIF = os.path.dirname(os.path.dirname(os.path.abspath(__file__)))
DSL = os.path.join(VERIF, "grammar", "a2l_1_7_1.dsl")
OUT = os.path.join(VERIF, "grammar", "grammar.json")

SCALARS = {"ident", "string", "float", "double", "uint", "int", "ulong", "long", "int64", "uint64", "uchar", "char"}
RUST_RESERVED = {"abstract", "as", "async", "await", "become", "box", "break", "const", "continue", "crate", "do", "dyn",
                 "else", "enum", "extern", "false", "final", "fn", "for", "if", "impl", "in", "let", "loop", "macro", "match",
                 "mod", "move", "mut", "override", "priv", "pub", "ref", "return", "Self", "self", "static", "struct", "super",
                 "trait", "true", "try", "type", "typeof", "unsafe", "unsized", "use", "virtual", "where", "while", "yield"}


def typename(tag):
    if any(c.islower() for c in tag):
        return tag
    out, cap = [], True
    for c in tag:
        if c == "_":
            cap = True
            continue
        out.append(c if cap else c.lower())
        cap = False
    return "".join(out)


def varname(tag):
    lc = tag.lower()
    return "var_" + lc if lc in RUST_RESERVED else lc


def tokenize(text):
    text = re.sub(r"//[^\n]*", "", text)
    toks = re.findall(r"[A-Za-z_][A-Za-z_0-9]*|\d+\.\d+|\d+|->|\.\.|[{}\[\]()*!+/,]", text)
    return toks


class Parser:
    def __init__(self, toks):
        self.t = toks
        self.i = 0

    def peek(self, k=0):
        return self.t[self.i + k] if self.i + k < len(self.t) else None

    def next(self):
        v = self.t[self.i]
        self.i += 1
        return v

    def expect(self, v):
        got = self.next()
        if got != v:
            raise SystemExit(f"DSL parse error: expected {v!r}, got {got!r} at token {self.i}: {self.t[self.i-5:self.i+5]}")

    def version_range(self):
        since, until = None, None
        if self.peek() == "(":
            self.next()
            if self.peek() == "..":
                self.next()
                until = self.next()
            else:
                since = self.next()
                self.expect("..")
                if self.peek() != ")":
                    until = self.next()
            self.expect(")")
        return since, until

    def names(self):
        """NAME or NAME / _Y / _Z ... -> list of tags"""
        base = self.next()
        tags = [base]
        stem = None
        while self.peek() == "/":
            self.next()
            suf = self.next()
            if stem is None:
                # the first name ends with the first suffix, e.g. AXIS_PTS_X / _Y  or RIP_ADDR_W / _X
                m = re.match(r"^(.*)(_[A-Z0-9]+)$", base)
                stem = m.group(1)
            tags.append(stem + suf)
        return tags

    def body(self):
        params, children = [], []
        self.expect("{")
        while self.peek() != "}":
            if self.peek() == "[":
                self.next()
                self.expect("->")
                tags = self.names()
                self.expect("]")
                mult, required = "one", False
                while self.peek() in ("*", "!", "+"):
                    m = self.next()
                    if m == "*":
                        mult = "many"
                    elif m == "!":
                        required = True
                    elif m == "+":
                        mult, required = "many", True
                since, until = self.version_range()
                for tg in tags:
                    children.append({"tag": tg, "mult": mult, "required": required, "since": since, "until": until})
            elif self.peek() == "{":
                self.next()
                seq = []
                while self.peek() != "}":
                    ty = self.next()
                    nm = self.next()
                    seq.append({"name": nm, "type": ty})
                self.expect("}")
                self.expect("*")
                nm = self.next()
                params.append({"name": nm, "seq": seq})
            else:
                ty = self.next()
                arr = None
                if self.peek() == "[":
                    self.next()
                    arr = int(self.next())
                    self.expect("]")
                nm = self.next()
                p = {"name": nm, "type": ty}
                if arr is not None:
                    p["array"] = arr
                params.append(p)
        self.expect("}")
        return params, children

    def parse(self):
        self.expect("a2l_specification")
        self.expect("!")
        self.expect("{")
        elements, enums = {}, {}
        while self.peek() != "}":
            kw = self.next()
            if kw == "enum":
                name = self.next()
                self.expect("{")
                items = []
                while self.peek() != "}":
                    it = self.next()
                    since, until = self.version_range()
                    if self.peek() == ",":
                        self.next()
                    items.append({"item": it, "since": since, "until": until, "variant": enum_variant(it)})
                self.expect("}")
                enums[name] = items
            elif kw in ("block", "keyword"):
                tags = self.names()
                params, children = self.body()
                for tg in tags:
                    elements[tg] = {"form": kw, "params": params, "children": children, "typename": typename(tg), "field": varname(tg)}
            else:
                raise SystemExit(f"DSL parse error: unexpected {kw!r}")
        return elements, enums


def enum_variant(item):
    # a2lmacros: enum items become CamelCase variants; items starting with a digit get a leading underscore
    t = typename(item)
    if t and t[0].isdigit():
        t = "_" + t
    return t


def load():
    with open(DSL) as f:
        toks = tokenize(f.read())
    elements, enums = Parser(toks).parse()
    # IF_DATA and A2ML get special treatment in the code generator
    return {"elements": elements, "enums": enums, "versions": ["1.50", "1.51", "1.60", "1.61", "1.70", "1.71"]}


def ident_fields(g):
    """all ident-typed fields: (owner tag, field name, is_list)"""
    out = []
    for tag, e in g["elements"].items():
        for p in e["params"]:
            if "seq" in p:
                for q in p["seq"]:
                    if q["type"] == "ident":
                        out.append((tag, p["name"] if len(p["seq"]) == 1 else p["name"] + "." + q["name"], True))
            elif p["type"] == "ident":
                out.append((tag, p["name"], False))
    return out


def main():
    g = load()
    js = json.dumps(g, indent=1, sort_keys=True)
    if "--check" in sys.argv:
        cur = open(OUT).read() if os.path.exists(OUT) else ""
        if cur != js:
            print("grammar.json is stale: run tools/gen_grammar.py")
            sys.exit(2)
        return
    with open(OUT, "w") as f:
        f.write(js)
    print(f"grammar.json: {len(g['elements'])} elements, {len(g['enums'])} enums, {len(ident_fields(g))} ident fields")


if __name__ == "__main__":
    main()


# --------------------------------------------------------------------------------------------
# Grammar.tla
# --------------------------------------------------------------------------------------------
def _q(s):
    return '"' + s + '"'


def _ver(v):
    return "0" if v is None else str(int(round(float(v) * 100)))


def _param(p):
    if "seq" in p:
        fields = ", ".join(f"[name |-> {_q(q['name'])}, type |-> {_q(q['type'])}]" for q in p["seq"])
        return f"[name |-> {_q(p['name'])}, kind |-> \"seq\", type |-> \"\", n |-> 0, fields |-> <<{fields}>>]"
    if "array" in p:
        return f"[name |-> {_q(p['name'])}, kind |-> \"array\", type |-> {_q(p['type'])}, n |-> {p['array']}, fields |-> <<>>]"
    return f"[name |-> {_q(p['name'])}, kind |-> \"scalar\", type |-> {_q(p['type'])}, n |-> 0, fields |-> <<>>]"


def grammar_tla(g):
    L = []
    L.append("------------------------------- MODULE Grammar -------------------------------")
    L.append("(* GENERATED by tools/gen_grammar.py from grammar/a2l_1_7_1.dsl (the frozen A2L 1.7.1 grammar) - do not edit.")
    L.append("   Elem[tag] = [form, params, kids]; a param is [name, kind in {scalar, array, seq}, type, n, fields];")
    L.append("   a kid is [tag, many, req, since, until] (versions as integers 150..171, 0 = unbounded);")
    L.append("   Enum[type] = sequence of [item, since, until]. *)")
    L.append("EXTENDS TLC")
    tags = sorted(g["elements"])
    rows = []
    for t in tags:
        e = g["elements"][t]
        params = ", ".join(_param(p) for p in e["params"])
        kids = ", ".join(f"[tag |-> {_q(c['tag'])}, many |-> {'TRUE' if c['mult'] == 'many' else 'FALSE'}, req |-> {'TRUE' if c['required'] else 'FALSE'}, "
                         f"since |-> {_ver(c['since'])}, until |-> {_ver(c['until'])}]" for c in e["children"])
        rows.append(f"  {_q(t)} :> [form |-> {_q(e['form'])}, params |-> <<{params}>>, kids |-> <<{kids}>>]")
    L.append("Elem ==\n" + " @@\n".join(rows))
    rows = []
    for n in sorted(g["enums"]):
        items = ", ".join(f"[item |-> {_q(i['item'])}, since |-> {_ver(i['since'])}, until |-> {_ver(i['until'])}]" for i in g["enums"][n])
        rows.append(f"  {_q(n)} :> <<{items}>>")
    L.append("Enum ==\n" + " @@\n".join(rows))
    L.append("ScalarTypes == {" + ", ".join(_q(s) for s in sorted(SCALARS)) + "}")
    L.append("IntTypes == {\"char\", \"int\", \"long\", \"int64\", \"uchar\", \"uint\", \"ulong\", \"uint64\"}")
    L.append("Versions == {150, 151, 160, 161, 170, 171}")
    L.append("=============================================================================")
    return "\n".join(L) + "\n"


def main2():
    g = load()
    out = os.path.join(VERIF, "spec", "Grammar.tla")
    t = grammar_tla(g)
    if "--check" in sys.argv:
        cur = open(out).read() if os.path.exists(out) else ""
        if cur != t:
            print("spec/Grammar.tla is stale: run tools/gen_grammar.py")
            sys.exit(2)
    else:
        open(out, "w").write(t)
        print("wrote", out)


if __name__ == "__main__":
    main2()
