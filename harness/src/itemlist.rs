//! C13: ItemList conformance.
//!  replay: every transition exported by MC_ItemList is executed on real ItemLists of three element
//!          types and the complete observation is compared with the specification's.
//!  record: long random histories are executed and logged as ndjson for Trace_ItemList.
use crate::util::*;
use a2lfile::*;
use serde_json::{json, Map, Value};

pub trait Elem: A2lObjectName + A2lObjectNameSetter + Clone + PartialEq {
    fn make(name: &str) -> Self;
}
impl Elem for Unit {
    fn make(name: &str) -> Self {
        Unit::new(name.to_string(), format!("long {name}"), "disp".to_string(), UnitType::Derived)
    }
}
impl Elem for Measurement {
    fn make(name: &str) -> Self {
        Measurement::new(name.to_string(), format!("long {name}"), DataType::Ubyte, "NO_COMPU_METHOD".to_string(), 1, 1.0, 0.0, 255.0)
    }
}
impl Elem for Group {
    fn make(name: &str) -> Self {
        Group::new(name.to_string(), format!("long {name}"))
    }
}

/// complete observation of the list through its public API.
/// Err(..) = the API contradicts itself (e.g. len() != number of iterated items)
pub fn observe<T: Elem>(l: &ItemList<T>, alphabet: &[String]) -> Result<Value, String> {
    let order: Vec<String> = l.iter().map(|e| e.get_name().to_string()).collect();
    if l.len() != order.len() {
        return Err(format!("len() = {} but iter() yields {}", l.len(), order.len()));
    }
    if l.is_empty() != order.is_empty() {
        return Err("is_empty() disagrees with iter()".into());
    }
    if l.first().map(|e| e.get_name().to_string()) != order.first().cloned() {
        return Err("first() disagrees with iter()".into());
    }
    if l.last().map(|e| e.get_name().to_string()) != order.last().cloned() {
        return Err("last() disagrees with iter()".into());
    }
    for (i, n) in order.iter().enumerate() {
        if l[i].get_name() != n {
            return Err(format!("Index<usize>[{i}] disagrees with iter()"));
        }
    }
    let (mut cnt, mut cnt2) = (0, 0);
    for _ in l {
        cnt += 1;
    }
    for _ in l.clone().into_iter() {
        cnt2 += 1;
    }
    if cnt != order.len() || cnt2 != order.len() {
        return Err("IntoIterator disagrees with iter()".into());
    }
    let mut keys: Vec<String> = l.keys().cloned().collect();
    keys.sort();
    let mut idx = Map::new();
    let mut probe: Vec<String> = alphabet.to_vec();
    probe.extend(keys.iter().cloned());
    probe.extend(order.iter().cloned());
    probe.sort();
    probe.dedup();
    for k in &probe {
        let is_key = keys.binary_search(k).is_ok();
        if l.contains_key(k) != is_key {
            return Err(format!("contains_key({k}) disagrees with keys()"));
        }
        match l.index(k) {
            Some(i) => {
                if !is_key {
                    return Err(format!("index({k}) is Some but {k} is not in keys()"));
                }
                // get(k) must return the element at the position the list reports
                match guarded(|| l.get(k).map(|e| e.get_name().to_string())) {
                    Ok(Some(n)) => {
                        if i >= order.len() || order[i] != n {
                            return Err(format!("get({k}) returns {n}, not the element at index({k}) = {i}"));
                        }
                        if &n != k {
                            return Err(format!("get({k}) returns an element named {n}"));
                        }
                    }
                    Ok(None) => return Err(format!("index({k}) is Some but get({k}) is None")),
                    Err(p) => return Err(format!("get({k}) panicked: {p}")),
                }
                idx.insert(k.clone(), json!(i));
            }
            None => {
                if is_key {
                    return Err(format!("{k} in keys() but index({k}) is None"));
                }
                if l.get(k).is_some() {
                    return Err(format!("index({k}) is None but get({k}) is Some"));
                }
            }
        }
    }
    Ok(json!({"order": order, "idx": Value::Object(idx)}))
}

fn strs(v: &Value) -> Vec<String> {
    v.as_array().map(|a| a.iter().map(|x| x.as_str().unwrap().to_string()).collect()).unwrap_or_default()
}

/// apply one operation (as exported by the spec) and return the return value as the spec writes it
pub fn apply<T: Elem>(l: &mut ItemList<T>, op: &Value) -> String {
    let name = |r: Option<T>| r.map(|e| e.get_name().to_string()).unwrap_or_else(|| "-".to_string());
    match op["op"].as_str().unwrap() {
        "push" => {
            l.push(T::make(op["n"].as_str().unwrap()));
            "-".into()
        }
        "pop" => name(l.pop()),
        "swap_remove" => name(l.swap_remove(op["key"].as_str().unwrap())),
        "swap_remove_idx" => name(l.swap_remove_idx(op["i"].as_u64().unwrap() as usize)),
        "retain" => {
            let keep = strs(&op["keep"]);
            l.retain(|e| keep.iter().any(|k| k == e.get_name()));
            "-".into()
        }
        "retain_rename" => {
            // the predicate renames an item it keeps
            let keep = strs(&op["keep"]);
            let (x, n) = (op["x"].as_str().unwrap().to_string(), op["n"].as_str().unwrap().to_string());
            l.retain(|e| {
                let k = keep.iter().any(|k| k == e.get_name());
                if e.get_name() == x {
                    e.set_name(n.clone());
                }
                k
            });
            "-".into()
        }
        "truncate" => {
            l.truncate(op["k"].as_u64().unwrap() as usize);
            "-".into()
        }
        "clear" => {
            l.clear();
            "-".into()
        }
        "rename" => {
            l.rename_item(op["i"].as_u64().unwrap() as usize, op["n"].as_str().unwrap());
            "-".into()
        }
        "extend" => {
            // iterators of every kind of size hint: exact, a lower bound of 0 (filter), an inexact chain
            let ns = strs(&op["ns"]);
            match ns.len() % 3 {
                0 => l.extend(ns.iter().map(|n| T::make(n))),
                1 => l.extend(ns.iter().filter(|_| true).map(|n| T::make(n))),
                _ => {
                    let (a, b) = ns.split_at(ns.len() / 2);
                    l.extend(a.iter().map(|n| T::make(n)).chain(b.iter().filter(|_| true).map(|n| T::make(n))));
                }
            }
            "-".into()
        }
        "collect" => {
            let ns = strs(&op["ns"]);
            if ns.len() % 2 == 0 {
                *l = ns.iter().map(|n| T::make(n)).collect();
            } else {
                *l = ns.iter().filter(|_| true).map(|n| T::make(n)).collect();
            }
            "-".into()
        }
        "sort_by" => {
            if op["dir"] == "asc" {
                l.sort_by(|a, b| a.get_name().cmp(b.get_name()));
            } else {
                l.sort_by(|a, b| b.get_name().cmp(a.get_name()));
            }
            "-".into()
        }
        other => {
            eprintln!("unknown op {other}");
            std::process::exit(2)
        }
    }
}

fn norm_idx(v: &Value) -> Value {
    // the spec prints an empty function as []
    match v {
        Value::Array(a) if a.is_empty() => json!({}),
        other => other.clone(),
    }
}

fn replay_one<T: Elem>(case: &Value, alphabet: &[String]) -> Result<(), String> {
    let mut l: ItemList<T> = ItemList::new();
    for n in strs(&case["from"]) {
        l.push(T::make(&n));
    }
    // content check: every element keeps its own content through the operation
    let before: Vec<T> = l.iter().cloned().collect();
    let op = &case["op"];
    let ret = guarded(|| apply(&mut l, op)).map_err(|p| format!("panic: {p}"))?;
    let want_ret = case["ret"].as_str().unwrap_or("-");
    if ret != want_ret {
        return Err(format!("return value {ret}, specification says {want_ret}"));
    }
    let obs = observe(&l, alphabet)?;
    let want = json!({"order": case["to"]["order"], "idx": norm_idx(&case["to"]["idx"])});
    if obs != want {
        return Err(format!("observation {obs} differs from specification {want}"));
    }
    // elements that were neither renamed nor new are unchanged
    if op["op"] != "rename" {
        for e in l.iter() {
            if let Some(b) = before.iter().find(|b| b.get_name() == e.get_name()) {
                if b != e {
                    return Err(format!("content of {} changed", e.get_name()));
                }
            }
        }
    }
    Ok(())
}

pub fn replay(args: &Args) {
    let cases = read_json_lines(args.req("cases"));
    let alphabet: Vec<String> = args.get("alphabet").unwrap_or("a,b,c,d").split(',').map(|s| s.to_string()).collect();
    let mut out = Out::stdout();
    let mut n = 0u64;
    let mut bad = 0u64;
    for case in &cases {
        for (ty, r) in [
            ("Unit", replay_one::<Unit>(case, &alphabet)),
            ("Measurement", replay_one::<Measurement>(case, &alphabet)),
            ("Group", replay_one::<Group>(case, &alphabet)),
        ] {
            n += 1;
            if let Err(why) = r {
                bad += 1;
                out.line(&json!({"mismatch": why, "elem_type": ty, "case": case}));
            }
        }
    }
    out.line(&json!({"summary": {"executions": n, "cases": cases.len(), "mismatches": bad}}));
}

/// random history on one list; every event carries the operation, its result and the full observation
fn record_one<T: Elem>(rng: &mut Rng, steps: usize, nnames: usize, case: u64, out: &mut Out) -> u64 {
    let alphabet: Vec<String> = (0..nnames).map(|i| format!("n{i:02}")).collect();
    let mut l: ItemList<T> = ItemList::new();
    out.line(&json!({"ev": "reset", "case": case, "alphabet": alphabet, "elem_type": std::any::type_name::<T>().rsplit("::").next().unwrap()}));
    let mut events = 1;
    for _ in 0..steps {
        let present: Vec<String> = l.iter().map(|e| e.get_name().to_string()).collect();
        let fresh: Vec<String> = alphabet.iter().filter(|n| !present.contains(n)).cloned().collect();
        let len = present.len();
        let op = match rng.below(14) {
            0 | 1 | 2 if !fresh.is_empty() => json!({"op": "push", "n": rng.pick(&fresh)}),
            3 => json!({"op": "pop"}),
            4 | 5 => {
                // present or absent key
                let k = if rng.chance(4, 5) && len > 0 { rng.pick(&present).clone() } else { rng.pick(&alphabet).clone() };
                json!({"op": "swap_remove", "key": k})
            }
            6 | 7 => json!({"op": "swap_remove_idx", "i": rng.below(len + 2)}),
            8 => {
                let keep: Vec<String> = alphabet.iter().filter(|_| rng.chance(3, 4)).cloned().collect();
                json!({"op": "retain", "keep": keep})
            }
            9 => json!({"op": "truncate", "k": if rng.chance(1, 2) { len + rng.below(2) } else { rng.below(len + 1) }}),
            10 => json!({"op": "sort_by", "dir": if rng.chance(1, 2) { "asc" } else { "desc" }}),
            11 if !fresh.is_empty() => json!({"op": "rename", "i": rng.below(len + 2), "n": rng.pick(&fresh)}),
            12 if !fresh.is_empty() => {
                let k = 1 + rng.below(fresh.len().min(5));
                let mut f = fresh.clone();
                let mut ns = vec![];
                for _ in 0..k {
                    let i = rng.below(f.len());
                    ns.push(f.swap_remove(i));
                }
                json!({"op": "extend", "ns": ns})
            }
            13 if rng.chance(1, 6) => json!({"op": "clear"}),
            13 if rng.chance(1, 5) => {
                let mut f = alphabet.clone();
                let k = rng.below(f.len().min(12));
                let mut ns = vec![];
                for _ in 0..k {
                    let i = rng.below(f.len());
                    ns.push(f.swap_remove(i));
                }
                json!({"op": "collect", "ns": ns})
            }
            _ if !fresh.is_empty() => json!({"op": "push", "n": rng.pick(&fresh)}),
            _ => json!({"op": "pop"}),
        };
        let (ev, stop) = exec_logged(&mut l, &op, &alphabet);
        out.line(&ev);
        events += 1;
        if stop {
            break;
        }
    }
    events
}

/// execute one op and build its trace event (op + result + full observation)
fn exec_logged<T: Elem>(l: &mut ItemList<T>, op: &Value, alphabet: &[String]) -> (Value, bool) {
    let res = guarded(|| apply(l, op));
    let mut ev = op.clone();
    let m = ev.as_object_mut().unwrap();
    let opname = m.remove("op").unwrap();
    m.insert("ev".into(), opname);
    match res {
        Ok(ret) => {
            m.insert("ret".into(), json!(ret));
            m.insert("panic".into(), json!(false));
            match observe(l, alphabet) {
                Ok(o) => {
                    m.insert("obs".into(), o);
                }
                Err(why) => {
                    m.insert("obs".into(), json!({"order": [], "idx": {}}));
                    m.insert("incoherent".into(), json!(why));
                }
            }
        }
        Err(p) => {
            m.insert("ret".into(), json!("-"));
            m.insert("panic".into(), json!(true));
            m.insert("panic_msg".into(), json!(p));
            m.insert("obs".into(), json!({"order": [], "idx": {}}));
        }
    }
    let stop = ev["panic"] == true || ev.get("incoherent").is_some();
    (ev, stop)
}

fn run_script<T: Elem>(ops: &[Value], alphabet: &[String], out: &mut Out) -> u64 {
    let mut l: ItemList<T> = ItemList::new();
    let mut n = 0;
    for op in ops {
        let (ev, stop) = exec_logged(&mut l, op, alphabet);
        out.line(&ev);
        n += 1;
        if stop {
            break;
        }
    }
    n
}

pub fn record(args: &Args) {
    if let Some(script) = args.get("script") {
        // replay mode: a fixed operation sequence (first line: {"alphabet": [...], "elem_type": ".."})
        let lines = read_json_lines(script);
        let alphabet = strs(&lines[0]["alphabet"]);
        let mut out = Out::file(args.req("out"));
        out.line(&json!({"ev": "reset", "case": 0, "alphabet": alphabet}));
        let ops = &lines[1..];
        let n = match lines[0]["elem_type"].as_str().unwrap_or("Unit") {
            "Measurement" => run_script::<Measurement>(ops, &alphabet, &mut out),
            "Group" => run_script::<Group>(ops, &alphabet, &mut out),
            _ => run_script::<Unit>(ops, &alphabet, &mut out),
        };
        out.flush();
        println!("{}", json!({"summary": {"traces": 1, "events": n + 1}}));
        return;
    }
    let seed = args.num("seed", 1);
    let traces = args.num("traces", 10);
    let steps = args.num("steps", 200) as usize;
    let nnames = args.num("names", 16) as usize;
    let mut out = Out::file(args.req("out"));
    let mut rng = Rng::new(seed);
    let mut events = 0;
    for t in 0..traces {
        events += match t % 3 {
            0 => record_one::<Unit>(&mut rng, steps, nnames, t, &mut out),
            1 => record_one::<Measurement>(&mut rng, steps, nnames, t, &mut out),
            _ => record_one::<Group>(&mut rng, steps, nnames, t, &mut out),
        };
    }
    out.flush();
    println!("{}", json!({"summary": {"traces": traces, "events": events}}));
}
