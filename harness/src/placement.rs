//! C15 / C14: placement of module children in the written output.
//!  placement-replay: every transition exported by MC_Placement (states without comments) is
//!                    constructed through the public API (new element + get_layout_mut), the
//!                    operation is applied and uids, list order and written order are compared.
//!  placement-record: random histories on loaded files (with comments, real merge_modules),
//!                    logged as ndjson for Trace_Placement.
use crate::model::*;
use crate::util::*;
use a2lfile::*;
use serde_json::{json, Map, Value};

const SPEC_KINDS: [&str; 3] = ["COMPU_METHOD", "MEASUREMENT", "UNIT"];
// triples of real list kinds that preserve both orders of the specification's three kinds:
// alphabetical tag order a < b < c (writer tie-break) and sort()'s emission order b, a, c
const TRIPLES: [[usize; 3]; 9] =
    [[3, 11, 19], [0, 2, 19], [1, 10, 12], [4, 11, 13], [7, 18, 19], [8, 14, 19], [9, 15, 19], [5, 10, 16], [6, 11, 17]];

fn real_kind(spec_kind: &str, triple: usize) -> &'static str {
    let i = SPEC_KINDS.iter().position(|k| *k == spec_kind).expect("spec kind");
    LIST_KINDS[TRIPLES[triple][i]]
}

fn ids(v: &Value) -> Vec<usize> {
    v.as_array().map(|a| a.iter().map(|x| x.as_u64().unwrap() as usize).collect()).unwrap_or_default()
}

/// (kind, rank, uid, line) lists + written order of the real model
fn observe_model(a2l: &mut A2lFile, kinds: &[&str]) -> (Vec<Vec<ChildObs>>, Vec<(String, String)>) {
    let module = &mut a2l.project.module[mi()];
    let lists = kinds.iter().map(|k| observe_list(module, k)).collect();
    let text = a2l.write_to_string();
    (lists, written_children(&text))
}

fn written_json(a2l: &mut A2lFile, kinds: &[&str], triple: usize) -> Value {
    // observed written order in the vocabulary of the specification: [[spec kind, name rank]]
    let (_, written) = observe_model(a2l, kinds);
    Value::Array(
        written
            .iter()
            .map(|(k, n)| {
                let sk = kinds.iter().position(|x| x == k).map(|i| SPEC_KINDS[i]).unwrap_or("?");
                let _ = triple;
                json!([sk, rank_of_name(n)])
            })
            .collect(),
    )
}

fn replay_one(case: &Value, triple: usize, observed: &mut Map<String, Value>) -> Result<bool, String> {
    let from = &case["from"];
    let e_from = from["E"].as_array().cloned().unwrap_or_default();
    let e_to = case["to"]["E"].as_array().cloned().unwrap_or_default();
    if e_from.iter().chain(e_to.iter()).any(|e| e["cmt"] == true) {
        return Ok(false); // comments cannot be constructed through the API; covered by trace validation
    }
    let mut a2l = a2lfile::new();
    {
        let module = &mut a2l.project.module[mi()];
        for sk in SPEC_KINDS {
            let rk = real_kind(sk, triple);
            for id in ids(&from["lists"][sk]) {
                let e = &e_from[id - 1];
                push_new(module, rk, &name_of_rank(e["name"].as_u64().unwrap()));
                set_last_layout(module, rk, e["uid"].as_u64().unwrap() as u32, e["line"].as_u64().unwrap() as u32);
            }
        }
    }
    // the specification's written order of the from-state must already agree (checks WriterOrder itself)
    let kinds: Vec<&str> = SPEC_KINDS.iter().map(|k| real_kind(k, triple)).collect();
    let check_state = |a2l: &mut A2lFile, st: &Value, e: &Vec<Value>, what: &str| -> Result<(), String> {
        let (lists, written) = observe_model(a2l, &kinds);
        for (i, sk) in SPEC_KINDS.iter().enumerate() {
            let want: Vec<(String, u64, u64)> = ids(&st["lists"][*sk])
                .iter()
                .map(|id| {
                    let x = &e[id - 1];
                    (name_of_rank(x["name"].as_u64().unwrap()), x["uid"].as_u64().unwrap(), x["line"].as_u64().unwrap())
                })
                .collect();
            let got: Vec<(String, u64, u64)> = lists[i].iter().map(|c| (c.name.clone(), c.uid as u64, c.line as u64)).collect();
            if want != got {
                return Err(format!("{what}: list {} is {:?}, specification says {:?}", kinds[i], got, want));
            }
        }
        let want_w: Vec<(String, String)> = ids(&st["written"])
            .iter()
            .map(|id| {
                let x = &e[id - 1];
                (real_kind(x["kind"].as_str().unwrap(), triple).to_string(), name_of_rank(x["name"].as_u64().unwrap()))
            })
            .collect();
        if want_w != written {
            return Err(format!("{what}: written order is {:?}, specification says {:?}", written, want_w));
        }
        Ok(())
    };
    observed.insert("before".into(), written_json(&mut a2l, &kinds, triple));
    check_state(&mut a2l, from, &e_from, "before")?;
    let snapshot = a2l.clone();
    let op = &case["op"];
    let opname = op["op"].as_str().unwrap();
    let res = guarded(|| {
        let module = &mut a2l.project.module[mi()];
        match opname {
            "push_new" => push_new(module, real_kind(op["kind"].as_str().unwrap(), triple), &name_of_rank(op["name"].as_u64().unwrap())),
            "merge_in" => {
                let rk = real_kind(op["kind"].as_str().unwrap(), triple);
                push_new(module, rk, &name_of_rank(op["name"].as_u64().unwrap()));
                set_last_layout(module, rk, 0, op["line"].as_u64().unwrap() as u32);
            }
            "sort_new_items" => a2l.sort_new_items(),
            "sort" => a2l.sort(),
            other => panic!("unknown op {other}"),
        }
    });
    let want_panic = case["panic"] == true;
    match res {
        Err(p) => {
            if want_panic {
                return Ok(true);
            }
            return Err(format!("panic: {p}"));
        }
        Ok(()) => {
            if want_panic {
                return Err("specification predicts an overflow panic, the code did not panic".into());
            }
        }
    }
    observed.insert("after".into(), written_json(&mut a2l, &kinds, triple));
    if opname == "sort" {
        if let Err(why) = sort_relations(&snapshot, &mut a2l) {
            observed.insert("relation".into(), json!(why.clone()));
            return Err(format!("C14 relation: {why}"));
        }
    }
    check_state(&mut a2l, &case["to"], &e_to, "after")?;
    Ok(true)
}

/// the relations C14 states, evaluated directly on the real objects (no prediction involved)
pub fn sort_relations(before: &A2lFile, after: &mut A2lFile) -> Result<(), String> {
    // same elements with unchanged content in every list: sorting a copy of the original lists
    // by name through the ItemList API must give a model equal (==) to the sorted one
    let mut b = before.clone();
    b.project.module.sort_by(|x, y| x.get_name().cmp(y.get_name()));
    for (mi, mb) in b.project.module.iter_mut().enumerate() {
        for k in LIST_KINDS {
            let names: Vec<String> = observe_list(mb, k).into_iter().map(|c| c.name).collect();
            if mi < after.project.module.len() {
                per_kind_inner(k, names, &mut after.project.module[mi])?;
            }
            per_kind!(k, mb, |l| l.sort_by(|x, y| x.get_name().cmp(y.get_name())));
        }
        mb.user_rights.sort_by(|x, y| x.user_level_id.cmp(&y.user_level_id));
    }
    if b != *after {
        return Err("content changed: the sorted model is not equal (==) to the original with its lists sorted by name".into());
    }
    let text1 = after.write_to_string();
    // grouped by kind, ascending names inside a kind
    let w = written_children(&text1);
    let elems: Vec<&(String, String)> = w.iter().filter(|(k, _)| k != "#").collect();
    let mut seen: Vec<&str> = vec![];
    for i in 0..elems.len() {
        let k = elems[i].0.as_str();
        if i > 0 && elems[i - 1].0 == k {
            if k != "IF_DATA" && elems[i - 1].1.as_bytes() > elems[i].1.as_bytes() {
                return Err(format!("written file: {k} {} before {}", elems[i - 1].1, elems[i].1));
            }
        } else {
            if seen.contains(&k) {
                return Err(format!("written file: elements of kind {k} are not contiguous"));
            }
            seen.push(k);
        }
    }
    // reload: equal model, same order
    match a2lfile::load_from_string(&text1, None, false) {
        Ok((mut re, _)) => {
            if re != *after {
                return Err("reloaded model differs from the sorted model".into());
            }
            if written_children(&re.write_to_string()) != w {
                return Err("reloaded model is written in a different order".into());
            }
            re.sort();
            if re.write_to_string() != text1 {
                return Err("sorting the reloaded model changes the text".into());
            }
        }
        Err(e) => return Err(format!("written text of the sorted model does not load: {e}")),
    }
    // idempotent
    let mut twice = after.clone();
    twice.sort();
    if twice.write_to_string() != text1 {
        return Err("sorting a second time changes the written text".into());
    }
    Ok(())
}

fn per_kind_inner(k: &str, names_before: Vec<String>, ma: &mut Module) -> Result<(), String> {
    let mut nb = names_before;
    let mut na: Vec<String> = observe_list(ma, k).into_iter().map(|c| c.name).collect();
    let sorted_after = na.clone();
    nb.sort();
    na.sort();
    if nb != na {
        return Err(format!("list {k} holds different elements after sort(): {nb:?} vs {na:?}"));
    }
    let mut expect = sorted_after.clone();
    expect.sort_by(|a, b| a.as_bytes().cmp(b.as_bytes()));
    if expect != sorted_after {
        return Err(format!("list {k} is not in ascending name order after sort(): {sorted_after:?}"));
    }
    Ok(())
}

pub fn replay(args: &Args) {
    let cases = read_json_lines(args.req("cases"));
    let mut out = Out::stdout();
    let (mut n, mut bad, mut skipped) = (0u64, 0u64, 0u64);
    for (i, case) in cases.iter().enumerate() {
        let mut observed = Map::new();
        match replay_one(case, i % TRIPLES.len(), &mut observed) {
            Ok(true) => n += 1,
            Ok(false) => skipped += 1,
            Err(why) => {
                n += 1;
                bad += 1;
                out.line(&json!({"mismatch": why, "triple": i % TRIPLES.len(), "case": case, "observed": Value::Object(observed)}));
            }
        }
    }
    out.line(&json!({"summary": {"executions": n, "skipped_with_comments": skipped, "cases": cases.len(), "mismatches": bad}}));
}

// ------------------------------------------------------------------------------------------
// recording
// ------------------------------------------------------------------------------------------
struct Rec {
    a2l: A2lFile,
    kinds: Vec<&'static str>,
    next_rank: u64,
}

fn file_text(children: &[(String, String)], with_version: bool) -> String {
    // children: (kind or "#", name or comment text)
    let mut t = String::new();
    if with_version {
        t.push_str("ASAP2_VERSION 1 71\n");
    }
    t.push_str("/begin PROJECT p \"\"\n");
    if mi() == 1 {
        // a MODULE in front that holds elements of the same names in another order, a comment and an unused helper
        t.push_str("  /begin MODULE decoy \"\"\n");
        for (k, n) in children.iter().rev() {
            if k != "#" && LIST_KINDS.contains(&k.as_str()) {
                t.push_str(&format!("    {}\n", elem_text(k, n)));
            }
        }
        t.push_str("    /* decoy */\n  /end MODULE\n");
    }
    t.push_str("  /begin MODULE m \"\"\n");
    for (k, n) in children {
        if k == "#" {
            t.push_str(&format!("    {n}\n"));
        } else {
            t.push_str(&format!("    {}\n", elem_text(k, n)));
        }
    }
    t.push_str("  /end MODULE\n/end PROJECT\n");
    t
}

fn obs_event(rec: &mut Rec, mut ev: Map<String, Value>) -> Value {
    let kinds = rec.kinds.clone();
    let (lists, written) = observe_model(&mut rec.a2l, &kinds);
    let mut lobj = Map::new();
    for (i, k) in kinds.iter().enumerate() {
        lobj.insert(
            k.to_string(),
            Value::Array(lists[i].iter().map(|c| json!([rank_of_name(&c.name), c.uid, c.line])).collect()),
        );
    }
    ev.insert("lists".into(), Value::Object(lobj));
    // every direct child of the MODULE in written order, also the ones outside the placement model
    // (optional singletons, IF_DATA, USER_RIGHTS): [kind, name or comment text]
    ev.insert("all".into(), Value::Array(written.iter().map(|(k, n)| json!([k, n])).collect()));
    ev.insert(
        "written".into(),
        Value::Array(
            written
                .iter()
                .filter(|(k, _)| k == "#" || LIST_KINDS.contains(&k.as_str()))
                .map(|(k, n)| {
                    if k == "#" {
                        let idx: u64 = n.trim_start_matches("/* c").trim_end_matches(" */").parse().unwrap_or(0);
                        json!(["#", idx])
                    } else {
                        json!([k, rank_of_name(n)])
                    }
                })
                .collect(),
        ),
    );
    Value::Object(ev)
}

static REMOVE: std::sync::atomic::AtomicBool = std::sync::atomic::AtomicBool::new(false);

fn record_one(rng: &mut Rng, case: u64, steps: usize, init: usize, extras: bool, sort_prob: u64, out: &mut Out) -> u64 {
    // choose 3..5 list kinds
    let nk = 3 + rng.below(3);
    let mut pool: Vec<&'static str> = LIST_KINDS.to_vec();
    let mut kinds = vec![];
    for _ in 0..nk {
        let i = rng.below(pool.len());
        kinds.push(pool.swap_remove(i));
    }
    kinds.sort();
    let mut next_rank = 1u64;
    let mut ncomments = 0u64;
    let mut children = vec![];
    let mut nifdata = 0u64;
    let mut singles: Vec<&str> = vec!["MOD_COMMON", "MOD_PAR", "VARIANT_CODING"];
    for _ in 0..init {
        if extras && rng.chance(1, 8) {
            match rng.below(3) {
                0 if !singles.is_empty() => {
                    let i = rng.below(singles.len());
                    children.push((singles.swap_remove(i).to_string(), String::new()));
                }
                1 => {
                    nifdata += 1;
                    children.push(("IF_DATA".to_string(), format!("V{nifdata}")));
                }
                _ => {
                    children.push(("USER_RIGHTS".to_string(), format!("user{}", children.len())));
                }
            }
        } else if rng.chance(1, 6) {
            ncomments += 1;
            children.push(("#".to_string(), format!("/* c{ncomments} */")));
        } else {
            children.push((rng.pick(&kinds).to_string(), name_of_rank(next_rank)));
            next_rank += 1;
        }
    }
    let text = file_text(&children, true);
    let (a2l, _) = a2lfile::load_from_string(&text, None, true).expect("generated file loads");
    let mut rec = Rec { a2l, kinds: kinds.clone(), next_rank };
    let mut events = 0;
    let mut ev = Map::new();
    ev.insert("ev".into(), json!("load"));
    ev.insert("case".into(), json!(case));
    ev.insert("kinds".into(), json!(kinds));
    ev.insert("ncomments".into(), json!(ncomments));
    out.line(&obs_event(&mut rec, ev));
    events += 1;
    for _ in 0..steps {
        let mut ev = Map::new();
        let dice = if REMOVE.load(std::sync::atomic::Ordering::Relaxed) && rng.chance(1, 6) {
            11
        } else if rng.chance(sort_prob, 100) {
            10
        } else {
            rng.below(10)
        };
        match dice {
            11 => {
                // remove one element by name (ItemList::swap_remove: the last element of the list takes its place)
                let k = *rng.pick(&rec.kinds);
                let names: Vec<String> = observe_list(&mut rec.a2l.project.module[mi()], k).into_iter().map(|c| c.name).collect();
                if names.is_empty() {
                    ev.insert("ev".into(), json!("write"));
                } else {
                    let victim = names[rng.below(names.len())].clone();
                    let module = &mut rec.a2l.project.module[mi()];
                    per_kind!(k, module, |l| {
                        l.swap_remove(&victim);
                    });
                    ev.insert("ev".into(), json!("remove"));
                    ev.insert("kind".into(), json!(k));
                    ev.insert("name".into(), json!(rank_of_name(&victim)));
                    ev.insert("name_text".into(), json!(victim));
                }
            }
            10 => {
                let before = rec.a2l.clone();
                let r = guarded(|| rec.a2l.sort());
                ev.insert("ev".into(), json!("sort"));
                ev.insert("nifdata".into(), json!(nifdata));
                ev.insert("panic".into(), json!(r.is_err()));
                if r.is_ok() {
                    if let Err(why) = sort_relations(&before, &mut rec.a2l) {
                        ev.insert("relation_violated".into(), json!(why));
                    }
                }
            }
            0..=3 => {
                let k = *rng.pick(&rec.kinds);
                let r = rec.next_rank;
                rec.next_rank += 1;
                push_new(&mut rec.a2l.project.module[mi()], k, &name_of_rank(r));
                ev.insert("ev".into(), json!("push_new"));
                ev.insert("kind".into(), json!(k));
                ev.insert("name".into(), json!(r));
            }
            4 | 5 => {
                // real merge of a second file with fresh names (and sometimes an identical twin)
                let m = 1 + rng.below(4);
                let mut ch = vec![];
                for _ in 0..m {
                    ch.push((rng.pick(&rec.kinds).to_string(), name_of_rank(rec.next_rank)));
                    rec.next_rank += 1;
                }
                let t2 = file_text(&ch, true);
                let (mut other, _) = a2lfile::load_from_string(&t2, None, true).expect("merge file loads");
                let r = guarded(|| {
                    if mi() == 0 {
                        rec.a2l.merge_modules(&mut other)
                    } else {
                        rec.a2l.project.module[mi()].merge(&mut other.project.module[mi()])
                    }
                });
                ev.insert("ev".into(), json!("merge"));
                ev.insert("panic".into(), json!(r.is_err()));
            }
            9 if extras && rng.chance(1, 2) => {
                // a new child of a kind outside the placement model: USER_RIGHTS or IF_DATA
                let module = &mut rec.a2l.project.module[mi()];
                if module.variant_coding.is_none() && rng.chance(1, 3) {
                    module.variant_coding = Some(a2lfile::VariantCoding::new());
                    ev.insert("ev".into(), json!("push_new"));
                    ev.insert("kind".into(), json!("VARIANT_CODING"));
                    ev.insert("name".into(), json!(""));
                } else if rng.chance(1, 2) {
                    let id = format!("newuser{}", rec.next_rank);
                    rec.next_rank += 1;
                    module.user_rights.push(a2lfile::UserRights::new(id.clone()));
                    ev.insert("ev".into(), json!("push_new"));
                    ev.insert("kind".into(), json!("USER_RIGHTS"));
                    ev.insert("name".into(), json!(id));
                } else {
                    let tag = format!("NV{}", rec.next_rank);
                    rec.next_rank += 1;
                    let frag = a2lfile::load_fragment(&format!("/begin IF_DATA {tag} 1 2 /end IF_DATA"), None).expect("fragment loads");
                    let mut d = frag.if_data.into_iter().next().expect("one IF_DATA");
                    d.get_layout_mut().uid = 0;
                    d.get_layout_mut().line = 0;
                    module.if_data.push(d);
                    ev.insert("ev".into(), json!("push_new"));
                    ev.insert("kind".into(), json!("IF_DATA"));
                    ev.insert("name".into(), json!(tag));
                }
            }
            6..=8 => {
                let r = guarded(|| rec.a2l.sort_new_items());
                ev.insert("ev".into(), json!("sort_new_items"));
                ev.insert("panic".into(), json!(r.is_err()));
                if let Err(p) = r {
                    ev.insert("panic_msg".into(), json!(p));
                    out.line(&Value::Object(ev));
                    return events + 1;
                }
            }
            _ => {
                ev.insert("ev".into(), json!("write"));
            }
        }
        out.line(&obs_event(&mut rec, ev));
        events += 1;
    }
    events
}

/// the pure sequence of k consecutive sort_new_items calls with a write after each (D13)
fn record_repeat(case: u64, calls: usize, nchildren: usize, out: &mut Out) -> u64 {
    let kinds: Vec<&'static str> = vec!["COMPU_METHOD", "MEASUREMENT", "UNIT"];
    let mut children = vec![];
    for i in 0..nchildren {
        children.push((kinds[i % 3].to_string(), name_of_rank(i as u64 + 1)));
    }
    let text = file_text(&children, true);
    let (a2l, _) = a2lfile::load_from_string(&text, None, true).expect("generated file loads");
    let mut rec = Rec { a2l, kinds: kinds.clone(), next_rank: nchildren as u64 + 1 };
    let mut ev = Map::new();
    ev.insert("ev".into(), json!("load"));
    ev.insert("case".into(), json!(case));
    ev.insert("kinds".into(), json!(kinds));
    ev.insert("ncomments".into(), json!(0));
    out.line(&obs_event(&mut rec, ev));
    let mut events = 1;
    for i in 0..calls {
        if i % 4 == 0 {
            let k = rec.kinds[i / 4 % 3];
            let r = rec.next_rank;
            rec.next_rank += 1;
            push_new(&mut rec.a2l.project.module[mi()], k, &name_of_rank(r));
            let mut ev = Map::new();
            ev.insert("ev".into(), json!("push_new"));
            ev.insert("kind".into(), json!(k));
            ev.insert("name".into(), json!(r));
            out.line(&obs_event(&mut rec, ev));
            events += 1;
        }
        let r = guarded(|| rec.a2l.sort_new_items());
        let mut ev = Map::new();
        ev.insert("ev".into(), json!("sort_new_items"));
        ev.insert("panic".into(), json!(r.is_err()));
        if let Err(p) = r {
            ev.insert("panic_msg".into(), json!(p));
            out.line(&Value::Object(ev));
            return events + 1;
        }
        out.line(&obs_event(&mut rec, ev));
        events += 1;
    }
    events
}

pub fn record(args: &Args) {
    let seed = args.num("seed", 1);
    let traces = args.num("traces", 10);
    let steps = args.num("steps", 60) as usize;
    let init = args.num("init", 8) as usize;
    let repeat = args.num("repeat", 0) as usize;
    let extras = args.num("extras", 0) != 0;
    let sort_prob = args.num("sortprob", 0);
    MODULE_INDEX.store(args.num("second", 0) as usize, std::sync::atomic::Ordering::Relaxed);
    REMOVE.store(args.num("remove", 0) != 0, std::sync::atomic::Ordering::Relaxed);
    let mut out = Out::file(args.req("out"));
    let mut rng = Rng::new(seed);
    let mut events = 0;
    for t in 0..traces {
        events += record_one(&mut rng, t, steps, if t % 4 == 3 { init * 6 } else { init }, extras, sort_prob, &mut out);
    }
    let mut ntr = traces;
    if repeat > 0 {
        events += record_repeat(traces, repeat, 2, &mut out);
        events += record_repeat(traces + 1, repeat, 50, &mut out);
        ntr += 2;
    }
    out.flush();
    println!("{}", json!({"summary": {"traces": ntr, "events": events}}));
}
