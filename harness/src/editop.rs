//! edit-op (C05 edit locality, C01 API-built models): load a document, apply edits through the public API
//! and report the written text before and after each edit together with the result of loading the
//! written text again.
//! case: {"id", "text", "cumulative": bool, "edits": [{"op": "push"|"remove"|"set_longid"|"set_bitmask", "kind", "name", "value"}]}
//!   cumulative = false: every edit is applied to a fresh copy of the loaded model
//!   cumulative = true : the edits are applied one after the other; "before" is the text after the previous edit
use crate::model::*;
use crate::util::*;
use a2lfile::*;
use serde_json::{json, Value};

fn apply(module: &mut Module, e: &Value) -> Result<(), String> {
    let kind = e["kind"].as_str().unwrap_or("");
    let name = e["name"].as_str().unwrap_or("");
    match e["op"].as_str().unwrap_or("") {
        "push" => {
            push_new(module, kind, name);
            Ok(())
        }
        "remove" => per_kind!(kind, module, |l| {
            match l.swap_remove(name) {
                Some(_) => Ok(()),
                None => Err(format!("no {kind} {name}")),
            }
        }),
        "remove_ordered" => per_kind!(kind, module, |l| {
            // remove while keeping the order of the rest: retain
            let before = l.len();
            l.retain(|x| x.get_name() != name);
            if l.len() + 1 == before { Ok(()) } else { Err(format!("no {kind} {name}")) }
        }),
        "set_longid" => {
            let v = e["value"].as_str().unwrap_or("edited").to_string();
            macro_rules! set {
                ($list:ident) => {
                    match module.$list.get_mut(name) {
                        Some(x) => {
                            x.long_identifier = v;
                            Ok(())
                        }
                        None => Err(format!("no {kind} {name}")),
                    }
                };
            }
            match kind {
                "AXIS_PTS" => set!(axis_pts),
                "BLOB" => set!(blob),
                "CHARACTERISTIC" => set!(characteristic),
                "COMPU_METHOD" => set!(compu_method),
                "COMPU_TAB" => set!(compu_tab),
                "COMPU_VTAB" => set!(compu_vtab),
                "COMPU_VTAB_RANGE" => set!(compu_vtab_range),
                "FRAME" => set!(frame),
                "FUNCTION" => set!(function),
                "GROUP" => set!(group),
                "INSTANCE" => set!(instance),
                "MEASUREMENT" => set!(measurement),
                "TYPEDEF_AXIS" => set!(typedef_axis),
                "TYPEDEF_BLOB" => set!(typedef_blob),
                "TYPEDEF_CHARACTERISTIC" => set!(typedef_characteristic),
                "TYPEDEF_MEASUREMENT" => set!(typedef_measurement),
                "TYPEDEF_STRUCTURE" => set!(typedef_structure),
                "UNIT" => set!(unit),
                other => Err(format!("set_longid: kind {other} has no long identifier")),
            }
        }
        "set_bitmask" => {
            let v = e["value"].as_u64().unwrap_or(0xff);
            match kind {
                "MEASUREMENT" => match module.measurement.get_mut(name) {
                    Some(x) => {
                        x.bit_mask = Some(BitMask::new(v));
                        Ok(())
                    }
                    None => Err(format!("no {kind} {name}")),
                },
                "CHARACTERISTIC" => match module.characteristic.get_mut(name) {
                    Some(x) => {
                        x.bit_mask = Some(BitMask::new(v));
                        Ok(())
                    }
                    None => Err(format!("no {kind} {name}")),
                },
                other => Err(format!("set_bitmask: kind {other}")),
            }
        }
        "set_ecu_address" | "add_annotation" | "set_format" => {
            let op = e["op"].as_str().unwrap_or("");
            macro_rules! edit {
                ($list:ident) => {
                    match module.$list.get_mut(name) {
                        Some(x) => {
                            match op {
                                "set_ecu_address" => x.ecu_address_extension = Some(EcuAddressExtension::new(2)),
                                "set_format" => x.format = Some(Format::new("%8.3".to_string())),
                                _ => {
                                    let mut a = Annotation::new();
                                    a.annotation_label = Some(AnnotationLabel::new("added through the API".to_string()));
                                    let mut t = AnnotationText::new();
                                    t.annotation_text_list.push("first line".to_string());
                                    t.annotation_text_list.push("second line".to_string());
                                    a.annotation_text = Some(t);
                                    x.annotation.push(a);
                                }
                            }
                            Ok(())
                        }
                        None => Err(format!("no {kind} {name}")),
                    }
                };
            }
            match kind {
                "MEASUREMENT" => edit!(measurement),
                "CHARACTERISTIC" => edit!(characteristic),
                other => Err(format!("{op}: kind {other}")),
            }
        }
        "append_member" => {
            // one more name at the end of a member list (created if the group has none)
            let v = e["value"].as_str().unwrap_or("").to_string();
            match module.group.get_mut(name) {
                Some(g) => {
                    if g.ref_measurement.is_none() {
                        g.ref_measurement = Some(RefMeasurement::new());
                    }
                    g.ref_measurement.as_mut().unwrap().identifier_list.push(v);
                    Ok(())
                }
                None => Err(format!("no GROUP {name}")),
            }
        }
        other => Err(format!("unknown op {other}")),
    }
}

fn one_edit(model: &mut A2lFile, e: &Value, before: &str) -> Value {
    let mut r = json!({"edit": e, "before": before});
    let res = guarded(|| {
        if model.project.module.is_empty() {
            Err("no module".to_string())
        } else {
            apply(&mut model.project.module[0], e)
        }
    });
    match res {
        Err(p) => {
            r["panic"] = json!(p);
            return r;
        }
        Ok(Err(msg)) => {
            r["error"] = json!(msg);
            return r;
        }
        Ok(Ok(())) => {}
    }
    let after = match guarded(|| model.write_to_string()) {
        Ok(t) => t,
        Err(p) => {
            r["panic"] = json!(format!("write: {p}"));
            return r;
        }
    };
    match guarded(|| a2lfile::load_from_string(&after, None, false)) {
        Ok(Ok((re, log))) => {
            r["reload"] = json!("ok");
            r["reload_eq"] = json!(re == *model);
            r["reload_diags"] = json!(log.len());
            r["text_fix"] = json!(re.write_to_string() == after);
        }
        Ok(Err(err)) => {
            r["reload"] = json!("err");
            r["reload_error"] = json!(err.to_string());
        }
        Err(p) => {
            r["reload"] = json!("panic");
            r["reload_error"] = json!(p);
        }
    }
    r["after"] = json!(after);
    r
}

fn run_case(case: &Value) -> Value {
    let text = case["text"].as_str().unwrap_or("");
    let mut out = json!({"id": case["id"]});
    let (a2l, log) = match guarded(|| a2lfile::load_from_string(text, None, false)) {
        Ok(Ok(x)) => x,
        Ok(Err(e)) => {
            out["error"] = json!(e.to_string());
            return out;
        }
        Err(p) => {
            out["panic"] = json!(p);
            return out;
        }
    };
    out["diags"] = json!(log.len());
    let t0 = a2l.write_to_string();
    out["written"] = json!(t0);
    let cumulative = case["cumulative"].as_bool().unwrap_or(false);
    let mut results = vec![];
    let mut cur = a2l.clone();
    let mut before = t0.clone();
    for e in case["edits"].as_array().cloned().unwrap_or_default() {
        if cumulative {
            let r = one_edit(&mut cur, &e, &before);
            if let Some(a) = r["after"].as_str() {
                before = a.to_string();
            }
            results.push(r);
        } else {
            let mut m = a2l.clone();
            results.push(one_edit(&mut m, &e, &t0));
        }
    }
    out["results"] = Value::Array(results);
    out
}

pub fn run(args: &Args) {
    let cases = read_json_lines(args.req("cases"));
    let mut out = Out::file(args.req("out"));
    let mut n = 0;
    let skip = args.num("skip", 0) as usize;
    for (ci, case) in cases.iter().enumerate() {
        if ci < skip {
            continue;
        }
        progress(ci);
        let r = match guarded(|| run_case(case)) {
            Ok(v) => v,
            Err(p) => json!({"id": case["id"], "panic": p}),
        };
        out.line(&r);
        out.flush();
        n += 1;
    }
    out.flush();
    println!("{}", json!({"summary": {"cases": n}}));
}
