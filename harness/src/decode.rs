//! C17: encoding independence.
//!  decode-replay: cases exported by MC_Decode.
//!     bytes: the hook decode_raw_bytes must return the code points the specification computes;
//!            the same bytes written to a file must load without a panic.
//!     rt   : (a) hook: strip_bom(decode_raw_bytes(bytes)) == doc
//!            (b) the text is embedded in a real document (first string, first comment), the
//!                document is encoded independently (Rust std) and written to a file;
//!                a2lfile::load(file) must equal a2lfile::load_from_string(document).
use crate::util::*;
use serde_json::{json, Value};

fn encode(enc: &str, text: &str) -> Vec<u8> {
    let with_bom = enc.ends_with("bom");
    let t: String = if with_bom { format!("\u{feff}{text}") } else { text.to_string() };
    match enc {
        "utf8" | "utf8bom" => t.into_bytes(),
        "utf16le" | "utf16lebom" => t.encode_utf16().flat_map(|u| u.to_le_bytes()).collect(),
        "utf16be" | "utf16bebom" => t.encode_utf16().flat_map(|u| u.to_be_bytes()).collect(),
        "utf32le" | "utf32lebom" => t.chars().flat_map(|c| (c as u32).to_le_bytes()).collect(),
        "utf32be" | "utf32bebom" => t.chars().flat_map(|c| (c as u32).to_be_bytes()).collect(),
        other => panic!("unknown encoding {other}"),
    }
}

fn bytes_of(v: &Value) -> Vec<u8> {
    v.as_array().map(|a| a.iter().map(|x| x.as_u64().unwrap() as u8).collect()).unwrap_or_default()
}
fn cps_of(v: &Value) -> Vec<u32> {
    v.as_array().map(|a| a.iter().map(|x| x.as_u64().unwrap() as u32).collect()).unwrap_or_default()
}

fn load_outcome(path: &std::path::Path) -> Result<String, String> {
    match guarded(|| a2lfile::load(path, None, false)) {
        Ok(Ok((a, log))) => Ok(format!("ok:{}:{}", log.len(), a.project.module.len())),
        Ok(Err(e)) => Ok(format!("err:{e}")),
        Err(p) => Err(p),
    }
}

pub fn replay(args: &Args) {
    let cases = read_json_lines(args.req("cases"));
    let dir = std::path::PathBuf::from(args.req("dir"));
    std::fs::create_dir_all(&dir).unwrap();
    let file = dir.join("case.a2l");
    let mut out = Out::stdout();
    let (mut n, mut bad, mut loads) = (0u64, 0u64, 0u64);
    for case in &cases {
        n += 1;
        let bytes = bytes_of(&case["bytes"]);
        let got: Vec<u32> = match guarded(|| a2lfile::verif::decode_raw_bytes(&bytes)) {
            Ok(s) => s.chars().map(|c| c as u32).collect(),
            Err(p) => {
                bad += 1;
                out.line(&json!({"mismatch": format!("decode_raw_bytes panicked: {p}"), "kind": "panic", "case": case}));
                continue;
            }
        };
        if case["fam"] == "bytes" {
            let want = cps_of(&case["decoded"]);
            if got != want {
                bad += 1;
                out.line(&json!({"mismatch": format!("decode_raw_bytes gives {:?}, specification ({}) gives {:?}", got, case["which"], want), "kind": "decode", "case": case}));
                continue;
            }
            // totality of the loader on the same bytes
            std::fs::write(&file, &bytes).unwrap();
            loads += 1;
            if let Err(p) = load_outcome(&file) {
                bad += 1;
                out.line(&json!({"mismatch": format!("load panicked: {p}"), "kind": "panic", "case": case}));
            }
        } else {
            let doc = cps_of(&case["doc"]);
            let stripped: Vec<u32> = if got.first() == Some(&0xfeff) { got[1..].to_vec() } else { got.clone() };
            if stripped != doc {
                bad += 1;
                out.line(&json!({"mismatch": format!("decoded text {:?} differs from the encoded text {:?}", stripped, doc), "kind": "roundtrip", "case": case}));
                continue;
            }
            // embedded in a real document
            let enc = case["enc"].as_str().unwrap();
            let text: String = doc.iter().map(|c| char::from_u32(*c).unwrap()).collect();
            let inner = text.trim_end();
            let pad = " ".repeat(text.len() - inner.len());
            let document = format!(
                "ASAP2_VERSION 1 71\n/begin PROJECT p \"{inner}\"\n/* {inner} */\n  /begin MODULE m \"{inner}\"\n  /end MODULE\n/end PROJECT\n{pad}"
            );
            std::fs::write(&file, encode(enc, &document)).unwrap();
            loads += 1;
            let from_file = guarded(|| a2lfile::load(&file, None, true));
            let from_str = guarded(|| a2lfile::load_from_string(&document, None, true));
            match (from_file, from_str) {
                (Ok(Ok((a, la))), Ok(Ok((b, lb)))) => {
                    if a != b || la.len() != lb.len() || a.write_to_string() != b.write_to_string() {
                        bad += 1;
                        out.line(&json!({"mismatch": "model loaded from the encoded file differs from the model loaded from the string", "kind": "model", "case": case}));
                    }
                }
                (Ok(Err(e)), Ok(Ok(_))) => {
                    bad += 1;
                    out.line(&json!({"mismatch": format!("encoded file does not load: {e}"), "kind": "model", "case": case}));
                }
                (Err(p), _) | (_, Err(p)) => {
                    bad += 1;
                    out.line(&json!({"mismatch": format!("panic: {p}"), "kind": "panic", "case": case}));
                }
                (_, Ok(Err(e))) => {
                    eprintln!("generated document does not load from string: {e}");
                    std::process::exit(2);
                }
            }
            // the same for a fragment file: load_fragment_file(encoded file) == load_fragment(text)
            let fragment = format!("/begin MEASUREMENT m1 \"{inner}\" UBYTE NO_COMPU_METHOD 1 1 0 255 /end MEASUREMENT\n/* {inner} */\n{pad}");
            std::fs::write(&file, encode(enc, &fragment)).unwrap();
            loads += 1;
            match (guarded(|| a2lfile::load_fragment_file(&file, None)), guarded(|| a2lfile::load_fragment(&fragment, None))) {
                (Ok(Ok(a)), Ok(Ok(b))) => {
                    if a != b {
                        bad += 1;
                        out.line(&json!({"mismatch": "module loaded from the encoded fragment file differs from the module loaded from the string", "kind": "model", "case": case}));
                    }
                }
                (Ok(Err(e)), Ok(Ok(_))) => {
                    bad += 1;
                    out.line(&json!({"mismatch": format!("encoded fragment file does not load: {e}"), "kind": "model", "case": case}));
                }
                (Err(p), _) | (_, Err(p)) => {
                    bad += 1;
                    out.line(&json!({"mismatch": format!("panic: {p}"), "kind": "panic", "case": case}));
                }
                (_, Ok(Err(e))) => {
                    eprintln!("generated fragment does not load from string: {e}");
                    std::process::exit(2);
                }
            }
        }
    }
    let _ = std::fs::remove_file(&file);
    out.line(&json!({"summary": {"cases": n, "mismatches": bad, "files_loaded": loads}}));
}

/// random byte files through load(): result class only, never a panic
pub fn fuzz(args: &Args) {
    let mut rng = Rng::new(args.num("seed", 1));
    let n = args.num("n", 1000);
    let dir = std::path::PathBuf::from(args.req("dir"));
    std::fs::create_dir_all(&dir).unwrap();
    let file = dir.join("fuzz.a2l");
    let mut out = Out::stdout();
    let mut bad = 0u64;
    let seeds: [&[u8]; 4] = [
        b"ASAP2_VERSION 1 71 /begin PROJECT p \"\" /begin MODULE m \"\" /end MODULE /end PROJECT",
        b"\xff\xfeA\x00S\x00A\x00P\x002\x00",
        b"\x00\x00\xfe\xff\x00\x00\x00A",
        b"/begin A2ML \xe2\x82\xac /end A2ML",
    ];
    let skip = args.num("skip", 0);
    for i in 0..n {
        progress(i as usize);
        let mut bytes: Vec<u8> = if rng.chance(1, 2) {
            (0..rng.below(64)).map(|_| rng.next() as u8).collect()
        } else {
            let mut b = seeds[rng.below(seeds.len())].to_vec();
            for _ in 0..1 + rng.below(4) {
                if b.is_empty() {
                    break;
                }
                let p = rng.below(b.len());
                match rng.below(3) {
                    0 => b[p] = rng.next() as u8,
                    1 => {
                        b.remove(p);
                    }
                    _ => b.insert(p, [0u8, 0xff, 0xfe, 0x80, 0xd8][rng.below(5)]),
                }
            }
            b
        };
        if rng.chance(1, 8) {
            bytes.truncate(rng.below(bytes.len() + 1));
        }
        if i < skip {
            continue; // the random sequence is the same, the files in front of `skip` were run before
        }
        std::fs::write(&file, &bytes).unwrap();
        if let Err(p) = load_outcome(&file) {
            bad += 1;
            out.line(&json!({"mismatch": format!("load panicked: {p}"), "kind": "panic", "case": {"fam": "fuzz", "i": i, "bytes": bytes}}));
        }
    }
    let _ = std::fs::remove_file(&file);
    out.line(&json!({"summary": {"cases": n, "mismatches": bad}}));
}
