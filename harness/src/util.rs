//! shared helpers: deterministic RNG, panic capture, JSON line IO
use serde_json::Value;
use std::io::{BufRead, Write};
use std::panic::{catch_unwind, AssertUnwindSafe};

pub struct Rng(pub u64);
impl Rng {
    pub fn new(seed: u64) -> Self {
        Rng(seed.wrapping_mul(0x9E3779B97F4A7C15) ^ 0xD1B54A32D192ED03)
    }
    pub fn next(&mut self) -> u64 {
        // splitmix64
        self.0 = self.0.wrapping_add(0x9E3779B97F4A7C15);
        let mut z = self.0;
        z = (z ^ (z >> 30)).wrapping_mul(0xBF58476D1CE4E5B9);
        z = (z ^ (z >> 27)).wrapping_mul(0x94D049BB133111EB);
        z ^ (z >> 31)
    }
    pub fn below(&mut self, n: usize) -> usize {
        if n == 0 {
            0
        } else {
            (self.next() % (n as u64)) as usize
        }
    }
    pub fn chance(&mut self, num: u64, den: u64) -> bool {
        self.next() % den < num
    }
    pub fn pick<'a, T>(&mut self, v: &'a [T]) -> &'a T {
        &v[self.below(v.len())]
    }
}

/// run f, turning a panic into Err(message)
pub fn guarded<T>(f: impl FnOnce() -> T) -> Result<T, String> {
    match catch_unwind(AssertUnwindSafe(f)) {
        Ok(v) => Ok(v),
        Err(e) => {
            let msg = if let Some(s) = e.downcast_ref::<&str>() {
                (*s).to_string()
            } else if let Some(s) = e.downcast_ref::<String>() {
                s.clone()
            } else {
                "panic".to_string()
            };
            Err(msg)
        }
    }
}

pub fn quiet_panics() {
    std::panic::set_hook(Box::new(|_| {}));
}

pub fn read_json_lines(path: &str) -> Vec<Value> {
    let f = std::fs::File::open(path).unwrap_or_else(|e| {
        eprintln!("cannot open {path}: {e}");
        std::process::exit(2)
    });
    let mut out = Vec::new();
    for line in std::io::BufReader::new(f).lines() {
        let line = line.unwrap();
        let t = line.trim();
        if t.is_empty() {
            continue;
        }
        match serde_json::from_str::<Value>(t) {
            Ok(v) => out.push(v),
            Err(e) => {
                eprintln!("bad json line in {path}: {e}: {t}");
                std::process::exit(2)
            }
        }
    }
    out
}

pub struct Out {
    w: std::io::BufWriter<Box<dyn Write>>,
}
impl Out {
    pub fn stdout() -> Self {
        Out { w: std::io::BufWriter::new(Box::new(std::io::stdout())) }
    }
    pub fn file(path: &str) -> Self {
        let f = std::fs::File::create(path).unwrap_or_else(|e| {
            eprintln!("cannot create {path}: {e}");
            std::process::exit(2)
        });
        Out { w: std::io::BufWriter::new(Box::new(f)) }
    }
    pub fn line(&mut self, v: &Value) {
        serde_json::to_writer(&mut self.w, v).unwrap();
        self.w.write_all(b"\n").unwrap();
    }
    pub fn flush(&mut self) {
        self.w.flush().unwrap();
    }
}
impl Drop for Out {
    fn drop(&mut self) {
        let _ = self.w.flush();
    }
}

/// command line: --key value pairs after the subcommand
pub struct Args(pub Vec<String>);
impl Args {
    pub fn get(&self, key: &str) -> Option<&str> {
        let k = format!("--{key}");
        self.0.iter().position(|a| *a == k).and_then(|i| self.0.get(i + 1)).map(|s| s.as_str())
    }
    pub fn req(&self, key: &str) -> &str {
        self.get(key).unwrap_or_else(|| {
            eprintln!("missing --{key}");
            std::process::exit(2)
        })
    }
    pub fn num(&self, key: &str, default: u64) -> u64 {
        self.get(key).map(|s| s.parse().expect("number")).unwrap_or(default)
    }
    pub fn flag(&self, key: &str) -> bool {
        let k = format!("--{key}");
        self.0.iter().any(|a| *a == k)
    }
}

/// hang localisation: the index of the case that is about to run is written (fixed width, in place) to the
/// file named by A2LVERIF_PROGRESS; a watchdog in the driver kills the process when the file stops changing
pub fn progress(n: usize) {
    use std::os::unix::fs::FileExt;
    use std::sync::{Mutex, OnceLock};
    static FILE: OnceLock<Mutex<Option<std::fs::File>>> = OnceLock::new();
    let cell = FILE.get_or_init(|| Mutex::new(std::env::var("A2LVERIF_PROGRESS").ok().and_then(|p| std::fs::File::create(p).ok())));
    if let Ok(guard) = cell.lock() {
        if let Some(f) = guard.as_ref() {
            let _ = f.write_at(format!("{n:>12}\n").as_bytes(), 0);
        }
    }
}
