//! load-op: load documents (strict / lenient) and report everything the parser-level checks need:
//! the token stream of the real tokenizer (hook), the outcome (error class + line, or diagnostics
//! + Debug tree), the written text, and the result of reloading it.
//! case: {"id", "text", "strict", "a2ml": text|null, "want": ["tokens","tree","write","cycle"]}
use crate::debug_tree::parse_debug;
use crate::lexer::tok_error;
use crate::util::*;
use a2lfile::{A2lError, A2lObjectName};
use serde_json::{json, Value};

fn line_of(text: &str) -> i64 {
    // "<file>:<line>: message"
    let mut parts = text.splitn(3, ':');
    let _file = parts.next();
    parts.next().and_then(|l| l.trim().parse::<i64>().ok()).unwrap_or(-1)
}

pub fn err_class(e: &A2lError) -> Value {
    match e {
        A2lError::ParserError { parser_error } => {
            let dbg = format!("{parser_error:?}");
            let class: String = dbg.chars().take_while(|c| c.is_alphanumeric()).collect();
            json!([class, line_of(&parser_error.to_string()), parser_error.to_string()])
        }
        A2lError::TokenizerError { tokenizer_error } => {
            let (c, l) = tok_error(tokenizer_error);
            json!([c, l, tokenizer_error.to_string()])
        }
        A2lError::EmptyFileError { .. } => json!(["EmptyFileError", 0, e.to_string()]),
        A2lError::InvalidBuiltinA2mlSpec { .. } => json!(["InvalidBuiltinA2mlSpec", 0, e.to_string()]),
        other => json!(["Other", -1, other.to_string()]),
    }
}

/// every IF_DATA block of the model, by site (the eleven places where the grammar allows IF_DATA)
fn ifdata_sites(a2l: &a2lfile::A2lFile) -> Vec<Value> {
    let mut out = vec![];
    let mut add = |site: &str, owner: String, list: &Vec<a2lfile::IfData>| {
        for (i, d) in list.iter().enumerate() {
            let items = match &d.ifdata_items {
                Some(it) => parse_debug(&format!("{it:?}")).unwrap_or_else(|e| json!({"_parse_error": e})),
                None => Value::Null,
            };
            out.push(json!({"site": site, "owner": owner, "idx": i, "valid": d.ifdata_valid, "items": items}));
        }
    };
    for (mi, m) in a2l.project.module.iter().enumerate() {
        add("MODULE", format!("{mi}"), &m.if_data);
        if let Some(mp) = &m.mod_par {
            for (i, x) in mp.memory_layout.iter().enumerate() {
                add("MEMORY_LAYOUT", format!("{mi}/{i}"), &x.if_data);
            }
            for x in &mp.memory_segment {
                add("MEMORY_SEGMENT", format!("{mi}/{}", x.get_name()), &x.if_data);
            }
        }
        for x in &m.axis_pts {
            add("AXIS_PTS", format!("{mi}/{}", x.get_name()), &x.if_data);
        }
        for x in &m.blob {
            add("BLOB", format!("{mi}/{}", x.get_name()), &x.if_data);
        }
        for x in &m.characteristic {
            add("CHARACTERISTIC", format!("{mi}/{}", x.get_name()), &x.if_data);
        }
        for x in &m.frame {
            add("FRAME", format!("{mi}/{}", x.get_name()), &x.if_data);
        }
        for x in &m.function {
            add("FUNCTION", format!("{mi}/{}", x.get_name()), &x.if_data);
        }
        for x in &m.group {
            add("GROUP", format!("{mi}/{}", x.get_name()), &x.if_data);
        }
        for x in &m.instance {
            add("INSTANCE", format!("{mi}/{}", x.get_name()), &x.if_data);
        }
        for x in &m.measurement {
            add("MEASUREMENT", format!("{mi}/{}", x.get_name()), &x.if_data);
        }
    }
    out
}

fn run_case(case: &Value) -> Value {
    let text = case["text"].as_str().unwrap_or("");
    let strict = case["strict"].as_bool().unwrap_or(false);
    let a2ml = case["a2ml"].as_str().map(|s| s.to_string());
    let want: Vec<&str> = case["want"].as_array().map(|a| a.iter().filter_map(|x| x.as_str()).collect()).unwrap_or_default();
    let mut out = json!({"id": case["id"]});
    if want.contains(&"tokens") {
        match guarded(|| a2lfile::verif::tokenize(std::path::Path::new(""), text)) {
            Ok(Ok((toks, _))) => out["tokens"] = Value::Array(toks.iter().map(|(t, v, l, _)| json!([t, v, l])).collect()),
            Ok(Err(e)) => {
                let (c, l) = tok_error(&e);
                out["tok_error"] = json!([c, l]);
            }
            Err(p) => out["tok_panic"] = json!(p),
        }
    }
    if want.contains(&"a2mltree") {
        // the A2ML hook: type tree of a definition given as text
        for (key, field) in [("a2ml", "a2mltree_builtin"), ("a2ml_infile", "a2mltree_infile")] {
            if let Some(t) = case[key].as_str() {
                out[field] = match guarded(|| a2lfile::verif::parse_a2ml(t)) {
                    Ok(Ok(dbg)) => json!({"ok": true, "tree": parse_debug(&dbg).unwrap_or_else(|e| json!({"_parse_error": e}))}),
                    Ok(Err(e)) => json!({"ok": false, "error": e}),
                    Err(p) => json!({"panic": p}),
                };
            }
        }
    }
    if case["fragment"].as_bool().unwrap_or(false) {
        if want.contains(&"tokens") {
            // the token stream load_fragment works on
            let wrapped = format!(r#"fragment "" {text} /end MODULE"#);
            if let Ok(Ok((toks, _))) = guarded(|| a2lfile::verif::tokenize(std::path::Path::new(""), &wrapped)) {
                out["tokens"] = Value::Array(toks.iter().map(|(t, v, l, _)| json!([t, v, l])).collect());
            }
        }
        if want.contains(&"fragfile") {
            // load_fragment_file(path) is load_fragment of the decoded content of the file
            let dir = std::env::temp_dir().join(format!("a2lverif_frag_{}", std::process::id()));
            let _ = std::fs::create_dir_all(&dir);
            let path = dir.join("fragment.a2l");
            let _ = std::fs::write(&path, text);
            let a = guarded(|| a2lfile::load_fragment(text, a2ml.clone()));
            let b = guarded(|| a2lfile::load_fragment_file(&path, a2ml.clone()));
            out["fragfile_same"] = json!(match (&a, &b) {
                (Ok(Ok(x)), Ok(Ok(y))) => x == y && format!("{x:?}") == format!("{y:?}"),
                (Ok(Err(x)), Ok(Err(y))) => err_class(x)[0] == err_class(y)[0] && err_class(x)[1] == err_class(y)[1],
                (Err(_), Err(_)) => true,
                _ => false,
            });
            let _ = std::fs::remove_dir_all(&dir);
        }
        match guarded(|| a2lfile::load_fragment(text, a2ml.clone())) {
            Err(p) => out["panic"] = json!(p),
            Ok(Ok(module)) => {
                out["ok"] = json!(true);
                out["diags"] = json!([]);
                if want.contains(&"tree") {
                    out["tree"] = parse_debug(&format!("{module:#?}")).unwrap_or_else(|e| json!({"_parse_error": e}));
                }
            }
            Ok(Err(e)) => {
                out["ok"] = json!(false);
                out["e"] = err_class(&e);
            }
        }
        return out;
    }
    match guarded(|| a2lfile::load_from_string(text, a2ml.clone(), strict)) {
        Err(p) => {
            out["panic"] = json!(p);
        }
        Ok(Err(e)) => {
            out["ok"] = json!(false);
            out["e"] = err_class(&e);
        }
        Ok(Ok((a2l, log))) => {
            out["ok"] = json!(true);
            out["diags"] = Value::Array(log.iter().map(err_class).collect());
            if want.contains(&"ifdata") {
                out["ifdata"] = Value::Array(ifdata_sites(&a2l));
            }
            if want.contains(&"cleanup") {
                let mut c = a2l.clone();
                match guarded(move || {
                    c.ifdata_cleanup();
                    (ifdata_sites(&c), c.write_to_string())
                }) {
                    Ok((sites, text)) => {
                        out["after_cleanup"] = Value::Array(sites);
                        out["written_after_cleanup"] = json!(text);
                    }
                    Err(p) => out["cleanup_panic"] = json!(p),
                }
            }
            if want.contains(&"tree") {
                out["tree"] = parse_debug(&format!("{a2l:#?}")).unwrap_or_else(|e| json!({"_parse_error": e}));
            }
            if let Some(t2) = case["text2"].as_str() {
                // a second document that differs in one token: does == see the difference?
                out["pair"] = match guarded(|| a2lfile::load_from_string(t2, a2ml.clone(), strict)) {
                    Ok(Ok((b, _))) => json!({"loads": true, "eq": a2l == b, "eq_rev": b == a2l, "dbg_eq": format!("{a2l:?}") == format!("{b:?}")}),
                    Ok(Err(e)) => json!({"loads": false, "error": e.to_string()}),
                    Err(p) => json!({"loads": false, "panic": p}),
                };
            }
            if want.contains(&"file") {
                // A2lFile::write(path, banner) and load(path)
                let dir = std::env::temp_dir().join(format!("a2lverif_file_{}", std::process::id()));
                let _ = std::fs::create_dir_all(&dir);
                let path = dir.join("written.a2l");
                out["file"] = match guarded(|| {
                    a2l.write(&path, Some("written by the verification harness")).map_err(|e| e.to_string())?;
                    let text = std::fs::read_to_string(&path).map_err(|e| e.to_string())?;
                    let (re, log) = a2lfile::load(&path, a2ml.clone(), strict).map_err(|e| e.to_string())?;
                    // ... and writing what was loaded with the same banner gives the same file again: equal up to the blanks
                    // between the banner and the first token the first time (the writer puts a blank in front of a first
                    // token that stood on line 1), byte for byte from then on
                    let path2 = dir.join("written2.a2l");
                    re.write(&path2, Some("written by the verification harness")).map_err(|e| e.to_string())?;
                    let text2 = std::fs::read_to_string(&path2).map_err(|e| e.to_string())?;
                    let (re2, _) = a2lfile::load(&path2, a2ml.clone(), strict).map_err(|e| e.to_string())?;
                    re2.write(&path2, Some("written by the verification harness")).map_err(|e| e.to_string())?;
                    let text3 = std::fs::read_to_string(&path2).map_err(|e| e.to_string())?;
                    // without a banner the file holds the text of write_to_string
                    let path3 = dir.join("written3.a2l");
                    a2l.write(&path3, None).map_err(|e| e.to_string())?;
                    if std::fs::read_to_string(&path3).map_err(|e| e.to_string())? != a2l.write_to_string() {
                        return Err("write(path, None) does not write the text of write_to_string".to_string());
                    }
                    Ok::<_, String>((text.starts_with("/* written by the verification harness */"), re == a2l, log.len(), text3 == text2 && text2.trim_start_matches("/* written by the verification harness */").trim_start() == text.trim_start_matches("/* written by the verification harness */").trim_start()))
                }) {
                    Ok(Ok((banner, eq, nlog, fix))) => json!({"ok": true, "banner_first": banner, "model_eq": eq, "diags": nlog, "text_fix": fix}),
                    Ok(Err(e)) => json!({"ok": false, "error": e}),
                    Err(p) => json!({"ok": false, "panic": p}),
                };
                let _ = std::fs::remove_dir_all(&dir);
            }
            if want.contains(&"write") || want.contains(&"cycle") {
                match guarded(|| a2l.write_to_string()) {
                    Ok(t1) => {
                        if want.contains(&"cycle") {
                            let mut texts = vec![t1.clone()];
                            let mut cur = t1.clone();
                            let mut cyc = vec![];
                            for _ in 0..3 {
                                match guarded(|| a2lfile::load_from_string(&cur, a2ml.clone(), strict)) {
                                    Ok(Ok((re, relog))) => {
                                        let eq = re == a2l;
                                        let t = re.write_to_string();
                                        cyc.push(json!({"load": "ok", "model_eq": eq, "text_eq": t == cur, "diags": relog.len()}));
                                        cur = t.clone();
                                        texts.push(t);
                                    }
                                    Ok(Err(e)) => {
                                        cyc.push(json!({"load": "err", "error": e.to_string()}));
                                        break;
                                    }
                                    Err(p) => {
                                        cyc.push(json!({"load": "panic", "error": p}));
                                        break;
                                    }
                                }
                            }
                            out["cycle"] = Value::Array(cyc);
                        }
                        out["written"] = json!(t1);
                    }
                    Err(p) => out["write_panic"] = json!(p),
                }
            }
        }
    }
    out
}

pub fn run(args: &Args) {
    let cases = read_json_lines(args.req("cases"));
    let mut out = Out::file(args.req("out"));
    let mut n = 0;
    let skip = args.num("skip", 0) as usize;
    for (ci, case) in cases.iter().enumerate() {
        if ci < skip {
            continue;
        }
        progress(ci);
        let r = match guarded(|| run_case(case)) {
            Ok(v) => v,
            Err(p) => json!({"id": case["id"], "panic": p}),
        };
        out.line(&r);
        out.flush();
        n += 1;
    }
    out.flush();
    println!("{}", json!({"summary": {"cases": n}}));
}
