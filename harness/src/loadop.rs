//! load-op: load documents (strict / lenient) and report everything the parser-level checks need:
//! the token stream of the real tokenizer (hook), the outcome (error class + line, or diagnostics
//! + Debug tree), the written text, and the result of reloading it.
//! case: {"id", "text", "strict", "a2ml": text|null, "want": ["tokens","tree","write","cycle"]}
use crate::debug_tree::parse_debug;
use crate::lexer::tok_error;
use crate::util::*;
use a2lfile::A2lError;
use serde_json::{json, Value};

fn line_of(text: &str) -> i64 {
    // "<file>:<line>: message"
    let mut parts = text.splitn(3, ':');
    let _file = parts.next();
    parts.next().and_then(|l| l.trim().parse::<i64>().ok()).unwrap_or(-1)
}

pub fn err_class(e: &A2lError) -> Value {
    match e {
        A2lError::ParserError { parser_error } => {
            let dbg = format!("{parser_error:?}");
            let class: String = dbg.chars().take_while(|c| c.is_alphanumeric()).collect();
            json!([class, line_of(&parser_error.to_string()), parser_error.to_string()])
        }
        A2lError::TokenizerError { tokenizer_error } => {
            let (c, l) = tok_error(tokenizer_error);
            json!([c, l, tokenizer_error.to_string()])
        }
        A2lError::EmptyFileError { .. } => json!(["EmptyFileError", 0, e.to_string()]),
        A2lError::InvalidBuiltinA2mlSpec { .. } => json!(["InvalidBuiltinA2mlSpec", 0, e.to_string()]),
        other => json!(["Other", -1, other.to_string()]),
    }
}

fn run_case(case: &Value) -> Value {
    let text = case["text"].as_str().unwrap_or("");
    let strict = case["strict"].as_bool().unwrap_or(false);
    let a2ml = case["a2ml"].as_str().map(|s| s.to_string());
    let want: Vec<&str> = case["want"].as_array().map(|a| a.iter().filter_map(|x| x.as_str()).collect()).unwrap_or_default();
    let mut out = json!({"id": case["id"]});
    if want.contains(&"tokens") {
        match guarded(|| a2lfile::verif::tokenize(std::path::Path::new(""), text)) {
            Ok(Ok((toks, _))) => out["tokens"] = Value::Array(toks.iter().map(|(t, v, l, _)| json!([t, v, l])).collect()),
            Ok(Err(e)) => {
                let (c, l) = tok_error(&e);
                out["tok_error"] = json!([c, l]);
            }
            Err(p) => out["tok_panic"] = json!(p),
        }
    }
    if case["fragment"].as_bool().unwrap_or(false) {
        match guarded(|| a2lfile::load_fragment(text, a2ml.clone())) {
            Err(p) => out["panic"] = json!(p),
            Ok(Ok(_)) => out["ok"] = json!(true),
            Ok(Err(e)) => {
                out["ok"] = json!(false);
                out["e"] = err_class(&e);
            }
        }
        return out;
    }
    match guarded(|| a2lfile::load_from_string(text, a2ml.clone(), strict)) {
        Err(p) => {
            out["panic"] = json!(p);
        }
        Ok(Err(e)) => {
            out["ok"] = json!(false);
            out["e"] = err_class(&e);
        }
        Ok(Ok((a2l, log))) => {
            out["ok"] = json!(true);
            out["diags"] = Value::Array(log.iter().map(err_class).collect());
            if want.contains(&"tree") {
                out["tree"] = parse_debug(&format!("{a2l:#?}")).unwrap_or_else(|e| json!({"_parse_error": e}));
            }
            if want.contains(&"write") || want.contains(&"cycle") {
                match guarded(|| a2l.write_to_string()) {
                    Ok(t1) => {
                        if want.contains(&"cycle") {
                            let mut texts = vec![t1.clone()];
                            let mut cur = t1.clone();
                            let mut cyc = vec![];
                            for _ in 0..3 {
                                match guarded(|| a2lfile::load_from_string(&cur, a2ml.clone(), false)) {
                                    Ok(Ok((re, relog))) => {
                                        let eq = re == a2l;
                                        let t = re.write_to_string();
                                        cyc.push(json!({"load": "ok", "model_eq": eq, "text_eq": t == cur, "diags": relog.len()}));
                                        cur = t.clone();
                                        texts.push(t);
                                    }
                                    Ok(Err(e)) => {
                                        cyc.push(json!({"load": "err", "error": e.to_string()}));
                                        break;
                                    }
                                    Err(p) => {
                                        cyc.push(json!({"load": "panic", "error": p}));
                                        break;
                                    }
                                }
                            }
                            out["cycle"] = Value::Array(cyc);
                        }
                        out["written"] = json!(t1);
                    }
                    Err(p) => out["write_panic"] = json!(p),
                }
            }
        }
    }
    out
}

pub fn run(args: &Args) {
    let cases = read_json_lines(args.req("cases"));
    let mut out = Out::file(args.req("out"));
    let mut n = 0;
    for case in &cases {
        let r = match guarded(|| run_case(case)) {
            Ok(v) => v,
            Err(p) => json!({"id": case["id"], "panic": p}),
        };
        out.line(&r);
        out.flush();
        n += 1;
    }
    out.flush();
    println!("{}", json!({"summary": {"cases": n}}));
}
