//! model-op: generic executor for cases on whole models (C08-C11 and others).
//! A case is {"id", "a": text, "b": text|null, "ops": ["merge"|"cleanup"|"check"|"sort"|"sort_new_items"|
//! "ifdata_cleanup"|"merge_includes"|"write_reload", ...], "strict": bool, "a2ml": text|null}.
//! For every case the Debug tree of the model (and of B) after loading and after each op is
//! emitted together with the reports of check(); panics are data.
use crate::debug_tree::parse_debug;
use crate::util::*;
use a2lfile::*;
use serde_json::{json, Value};

pub fn err_json(e: &A2lError) -> Value {
    let class = match e {
        A2lError::FileOpenError { .. } => "FileOpenError",
        A2lError::FileReadError { .. } => "FileReadError",
        A2lError::EmptyFileError { .. } => "EmptyFileError",
        A2lError::InvalidBuiltinA2mlSpec { .. } => "InvalidBuiltinA2mlSpec",
        A2lError::TokenizerError { .. } => "TokenizerError",
        A2lError::ParserError { .. } => "ParserError",
        A2lError::FileWriteError { .. } => "FileWriteError",
        A2lError::NameCollisionError { .. } => "NameCollisionError",
        A2lError::NameCollisionError2 { .. } => "NameCollisionError2",
        A2lError::CrossReferenceError { .. } => "CrossReferenceError",
        A2lError::LimitCheckError { .. } => "LimitCheckError",
        A2lError::GroupStructureError { .. } => "GroupStructureError",
        A2lError::ContentError { .. } => "ContentError",
        _ => "Other",
    };
    let mut v = json!({"class": class, "text": e.to_string()});
    match e {
        A2lError::CrossReferenceError { source_type, source_name, source_line, target_type, target_name } => {
            v["source_type"] = json!(source_type);
            v["source_name"] = json!(source_name);
            v["source_line"] = json!(source_line);
            v["target_type"] = json!(target_type);
            v["target_name"] = json!(target_name);
        }
        A2lError::LimitCheckError { item_name, blockname, lower_limit, upper_limit, calculated_lower_limit, calculated_upper_limit, .. } => {
            v["item_name"] = json!(item_name);
            v["blockname"] = json!(blockname);
            v["limits"] = json!([lower_limit, upper_limit, calculated_lower_limit, calculated_upper_limit]);
        }
        A2lError::ParserError { parser_error } => {
            v["sub"] = json!(format!("{parser_error:?}").split(|c: char| !c.is_alphanumeric()).next().unwrap_or(""));
        }
        A2lError::TokenizerError { tokenizer_error } => {
            v["sub"] = json!(format!("{tokenizer_error:?}").split(|c: char| !c.is_alphanumeric()).next().unwrap_or(""));
        }
        _ => {}
    }
    v
}

pub fn tree_of(a2l: &A2lFile) -> Value {
    match parse_debug(&format!("{a2l:#?}")) {
        Ok(v) => v,
        Err(e) => json!({"_parse_error": e}),
    }
}

fn load(text: &str, a2ml: Option<String>, strict: bool) -> Result<(A2lFile, Vec<A2lError>), String> {
    match guarded(|| a2lfile::load_from_string(text, a2ml, strict)) {
        Ok(Ok(x)) => Ok(x),
        Ok(Err(e)) => Err(format!("load error: {e}")),
        Err(p) => Err(format!("panic in load: {p}")),
    }
}

fn run_case(case: &Value) -> Value {
    let strict = case["strict"].as_bool().unwrap_or(false);
    let a2ml = case["a2ml"].as_str().map(|s| s.to_string());
    let mut out = json!({"id": case["id"]});
    let (mut a, log_a) = match load(case["a"].as_str().unwrap_or(""), a2ml.clone(), strict) {
        Ok(x) => x,
        Err(e) => {
            out["load_a_error"] = json!(e);
            return out;
        }
    };
    out["load_a_log"] = Value::Array(log_a.iter().map(err_json).collect());
    let mut b = None;
    if let Some(bt) = case["b"].as_str() {
        match load(bt, a2ml.clone(), strict) {
            Ok((bb, log_b)) => {
                out["load_b_log"] = Value::Array(log_b.iter().map(err_json).collect());
                out["b_tree"] = tree_of(&bb);
                out["b_check"] = Value::Array(bb.check().iter().map(err_json).collect());
                b = Some(bb);
            }
            Err(e) => {
                out["load_b_error"] = json!(e);
                return out;
            }
        }
    }
    let want_text = case["want_text"].as_bool().unwrap_or(false);
    let mut snaps = vec![];
    let snap = |a: &A2lFile, op: &str, panic: Option<String>| -> Value {
        let mut s = json!({"op": op, "tree": tree_of(a)});
        match guarded(|| a.check()) {
            Ok(rep) => s["check"] = Value::Array(rep.iter().map(err_json).collect()),
            Err(p) => s["check_panic"] = json!(p),
        }
        if let Some(p) = panic {
            s["panic"] = json!(p);
        }
        if want_text {
            s["text"] = json!(a.write_to_string());
        }
        s
    };
    snaps.push(snap(&a, "load", None));
    for op in case["ops"].as_array().cloned().unwrap_or_default() {
        let opn = op.as_str().unwrap_or("");
        let before = a.clone();
        let r = guarded(|| match opn {
            "merge" => {
                if let Some(bb) = b.as_mut() {
                    a.merge_modules(bb);
                }
            }
            "cleanup" => a.cleanup(),
            "ifdata_cleanup" => a.ifdata_cleanup(),
            "sort" => a.sort(),
            "sort_new_items" => a.sort_new_items(),
            "merge_includes" => a.merge_includes(),
            "check" => {
                let _ = a.check();
            }
            "write_reload" => {
                let t = a.write_to_string();
                match a2lfile::load_from_string(&t, a2ml.clone(), false) {
                    Ok((re, _)) => a = re,
                    Err(e) => panic!("written text does not load: {e}"),
                }
            }
            other => panic!("unknown op {other}"),
        });
        let mut s = snap(&a, opn, r.err());
        if opn == "check" {
            s["pure"] = json!(before == a);
        }
        snaps.push(s);
    }
    out["snaps"] = Value::Array(snaps);
    out
}

pub fn run(args: &Args) {
    let cases = read_json_lines(args.req("cases"));
    let mut out = Out::file(args.req("out"));
    let mut n = 0;
    for case in &cases {
        let r = match guarded(|| run_case(case)) {
            Ok(v) => v,
            Err(p) => json!({"id": case["id"], "harness_panic": p}),
        };
        out.line(&r);
        n += 1;
    }
    out.flush();
    println!("{}", json!({"summary": {"cases": n}}));
}
