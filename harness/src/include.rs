//! C16: /include transparency. One case = a directory tree prepared by the driver:
//!   {"id", "main": path, "flat": text, "outdir": dir with a copy of the include files (main missing)}
//! Reports the relations of the property evaluated on the real library.
use crate::util::*;
use a2lfile::A2lObject;
use serde_json::{json, Value};

fn run_case(case: &Value) -> Value {
    let main = case["main"].as_str().unwrap();
    let flat = case["flat"].as_str().unwrap_or("");
    let mut out = json!({"id": case["id"]});
    let strict = !case["lenient"].as_bool().unwrap_or(false);
    let loaded = match guarded(|| a2lfile::load(main, None, strict)) {
        Ok(Ok((a, log))) => {
            out["load"] = json!("ok");
            out["log"] = json!(log.len());
            out["log_texts"] = Value::Array(log.iter().map(|e| json!(e.to_string())).collect());
            a
        }
        Ok(Err(e)) => {
            out["load"] = json!("err");
            out["error"] = json!(e.to_string());
            return out;
        }
        Err(p) => {
            out["load"] = json!("panic");
            out["error"] = json!(p);
            return out;
        }
    };
    if flat.is_empty() {
        return out;
    }
    let (flat_model, _) = match a2lfile::load_from_string(flat, None, true) {
        Ok(x) => x,
        Err(e) => {
            out["flat_error"] = json!(e.to_string());
            return out;
        }
    };
    out["eq_flat"] = json!(loaded == flat_model);
    let mut merged = loaded.clone();
    merged.merge_includes();
    out["eq_flat_after_merge_includes"] = json!(merged == flat_model);
    // write the main file next to a copy of the include files and load it again
    let text = loaded.write_to_string();
    out["written"] = json!(text);
    let outdir = std::path::PathBuf::from(case["outdir"].as_str().unwrap());
    let outmain = outdir.join("main.a2l");
    match guarded(|| loaded.write(&outmain, None)) {
        Ok(Ok(())) => match guarded(|| a2lfile::load(&outmain, None, true)) {
            Ok(Ok((re, _))) => {
                out["reload"] = json!("ok");
                out["eq_reload"] = json!(re == loaded);
                out["eq_reload_flat"] = json!(re == flat_model || {
                    let mut r2 = re.clone();
                    r2.merge_includes();
                    r2 == flat_model
                });
            }
            Ok(Err(e)) => {
                out["reload"] = json!("err");
                out["reload_error"] = json!(e.to_string());
            }
            Err(p) => {
                out["reload"] = json!("panic");
                out["reload_error"] = json!(p);
            }
        },
        Ok(Err(e)) => out["write_error"] = json!(e.to_string()),
        Err(p) => out["write_error"] = json!(format!("panic: {p}")),
    }
    // merge_includes: self-contained output
    let mtext = merged.write_to_string();
    out["merged_has_directive"] = json!(mtext.contains("/include"));
    match a2lfile::load_from_string(&mtext, None, true) {
        Ok((m2, _)) => out["eq_merged_reload"] = json!(m2 == merged && m2 == flat_model),
        Err(e) => out["merged_reload_error"] = json!(e.to_string()),
    }
    out
}

pub fn run(args: &Args) {
    let cases = read_json_lines(args.req("cases"));
    let mut out = Out::stdout();
    for case in &cases {
        let r = match guarded(|| run_case(case)) {
            Ok(v) => v,
            Err(p) => json!({"id": case["id"], "load": "panic", "error": p}),
        };
        out.line(&r);
        out.flush();
    }
}
