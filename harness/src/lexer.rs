//! C03 (lexical part): the real tokenizer (hook a2lfile::verif::tokenize) against Lexer.tla.
use crate::util::*;
use a2lfile::TokenizerError;
use serde_json::{json, Value};

pub fn tok_error(e: &TokenizerError) -> (&'static str, u32) {
    match e {
        TokenizerError::IncludeFileError { line, .. } => ("IncludeFileError", *line),
        TokenizerError::IncompleteIncludeError { line, .. } => ("IncompleteIncludeError", *line),
        TokenizerError::InvalidA2lToken { line, .. } => ("InvalidA2lToken", *line),
        TokenizerError::InvalidNumericalConstant { line, .. } => ("InvalidNumericalConstant", *line),
        TokenizerError::UnclosedComment { line, .. } => ("UnclosedComment", *line),
        TokenizerError::UnclosedString { line, .. } => ("UnclosedString", *line),
        TokenizerError::MissingWhitespace { line, .. } => ("MissingWhitespace", *line),
        _ => ("Other", 0),
    }
}

pub fn replay(args: &Args) {
    let cases = read_json_lines(args.req("cases"));
    let dir = std::path::PathBuf::from(args.req("dir"));
    std::fs::create_dir_all(&dir).unwrap();
    let path = dir.join("lexer_input.a2l");
    let mut out = Out::stdout();
    let (mut n, mut bad, mut nloads) = (0u64, 0u64, 0u64);
    let loads = args.flag("loads");
    let skip = args.num("skip", 0) as usize;
    for (ci, case) in cases.iter().enumerate() {
        if ci < skip {
            continue;
        }
        progress(ci);
        n += 1;
        let bytes: Vec<u8> = case["bytes"].as_array().map(|a| a.iter().map(|x| x.as_u64().unwrap() as u8).collect()).unwrap_or_default();
        let text = match String::from_utf8(bytes.clone()) {
            Ok(t) => t,
            Err(_) => {
                eprintln!("generated input is not valid UTF-8");
                std::process::exit(2);
            }
        };
        // C03: every entry point terminates with Ok or Err on this input, whatever the tokenizer says
        if loads {
            let spec = Some("block \"IF_DATA\" taggedunion if_data { \"X\" struct { uint; }; };".to_string());
            for (what, r) in [
                ("load_from_string(strict)", guarded(|| a2lfile::load_from_string(&text, None, true).is_ok())),
                ("load_from_string(lenient)", guarded(|| a2lfile::load_from_string(&text, None, false).is_ok())),
                ("load_from_string(lenient, a2ml spec)", guarded(|| a2lfile::load_from_string(&text, spec.clone(), false).is_ok())),
                ("load_fragment", guarded(|| a2lfile::load_fragment(&text, None).is_ok())),
            ] {
                nloads += 1;
                if let Err(p) = r {
                    bad += 1;
                    out.line(&json!({"mismatch": format!("{what} panicked: {p}"), "kind": "panic", "case": case}));
                }
            }
        }
        let want = &case["r"];
        match guarded(|| a2lfile::verif::tokenize(&path, &text)) {
            Err(p) => {
                bad += 1;
                out.line(&json!({"mismatch": format!("panic: {p}"), "kind": "panic", "case": case}));
            }
            Ok(Err(e)) => {
                let (class, line) = tok_error(&e);
                if want["ok"] == true || want["err"] != class || want["line"] != line {
                    bad += 1;
                    out.line(&json!({"mismatch": format!("tokenizer error {class} on line {line}, specification says {}", want), "kind": "error", "case": case}));
                }
            }
            Ok(Ok((toks, _))) => {
                if want["ok"] != true {
                    bad += 1;
                    out.line(&json!({"mismatch": format!("tokenizer accepts the input ({} tokens), specification says {}", toks.len(), want), "kind": "accepts", "case": case}));
                    continue;
                }
                let wt = want["toks"].as_array().cloned().unwrap_or_default();
                let got: Vec<Value> = toks.iter().map(|(t, txt, line, _)| json!([t, txt, line])).collect();
                let exp: Vec<Value> = wt
                    .iter()
                    .map(|w| {
                        let (s, e) = (w["s"].as_u64().unwrap() as usize, w["e"].as_u64().unwrap() as usize);
                        json!([w["t"], String::from_utf8_lossy(&bytes[s..e]), w["line"]])
                    })
                    .collect();
                if got != exp {
                    bad += 1;
                    out.line(&json!({"mismatch": format!("tokens {:?}, specification says {:?}", got, exp), "kind": "tokens", "case": case}));
                }
            }
        }
    }
    out.line(&json!({"summary": {"cases": n, "mismatches": bad, "loads": nloads}}));
}
