//! Parser for Rust `{:#?}` / `{:?}` output -> serde_json::Value (a generic tree keyed by field names).
//!   Name { f: v, .. }   -> {"_t": "Name", "f": v, ..}
//!   Name(a, b)          -> {"_t": "Name", "_": [a, b]}     except Some(x) -> x
//!   Name                -> "Name"                          except None -> null, true/false -> bool
//!   [a, b] / (a, b)     -> [a, b]
//!   {k: v, ..}          -> {"_map": [[k, v], ..]} sorted by the JSON text of k (HashMap order is arbitrary)
//!   "str"               -> "str" (unescaped) wrapped as {"_s": "str"} so that it cannot be confused with a unit variant
//!   numbers             -> JSON number when integral and small, else {"_n": "text"}
//! ItemList { items, map } is reduced to its items.
use serde_json::{json, Map, Value};

pub struct P<'a> {
    s: &'a [u8],
    i: usize,
}

pub fn parse_debug(text: &str) -> Result<Value, String> {
    let mut p = P { s: text.as_bytes(), i: 0 };
    let v = p.value()?;
    p.ws();
    if p.i != p.s.len() {
        return Err(format!("trailing data at {}", p.i));
    }
    Ok(v)
}

impl<'a> P<'a> {
    fn ws(&mut self) {
        while self.i < self.s.len() && (self.s[self.i] as char).is_whitespace() {
            self.i += 1;
        }
    }
    fn peek(&mut self) -> u8 {
        self.ws();
        if self.i < self.s.len() {
            self.s[self.i]
        } else {
            0
        }
    }
    fn eat(&mut self, c: u8) -> Result<(), String> {
        if self.peek() == c {
            self.i += 1;
            Ok(())
        } else {
            let found = self.peek() as char;
            Err(format!("expected '{}' at {} (found '{}')", c as char, self.i, found))
        }
    }
    fn ident(&mut self) -> String {
        self.ws();
        let st = self.i;
        while self.i < self.s.len() && (self.s[self.i].is_ascii_alphanumeric() || self.s[self.i] == b'_') {
            self.i += 1;
        }
        String::from_utf8_lossy(&self.s[st..self.i]).to_string()
    }
    fn string(&mut self) -> Result<String, String> {
        // at opening quote
        self.i += 1;
        let mut out = String::new();
        let text = std::str::from_utf8(&self.s[self.i..]).map_err(|e| e.to_string())?;
        let mut chars = text.char_indices();
        while let Some((off, c)) = chars.next() {
            match c {
                '"' => {
                    self.i += off + 1;
                    return Ok(out);
                }
                '\\' => {
                    let (_, e) = chars.next().ok_or("bad escape")?;
                    match e {
                        'n' => out.push('\n'),
                        'r' => out.push('\r'),
                        't' => out.push('\t'),
                        '0' => out.push('\0'),
                        '\\' => out.push('\\'),
                        '\'' => out.push('\''),
                        '"' => out.push('"'),
                        'u' => {
                            // \u{XXXX}
                            let mut hex = String::new();
                            chars.next(); // {
                            for (_, h) in chars.by_ref() {
                                if h == '}' {
                                    break;
                                }
                                hex.push(h);
                            }
                            let cp = u32::from_str_radix(&hex, 16).map_err(|e| e.to_string())?;
                            out.push(char::from_u32(cp).unwrap_or('\u{fffd}'));
                        }
                        'x' => {
                            let (_, a) = chars.next().ok_or("bad \\x")?;
                            let (_, b) = chars.next().ok_or("bad \\x")?;
                            let cp = u32::from_str_radix(&format!("{a}{b}"), 16).map_err(|e| e.to_string())?;
                            out.push(char::from_u32(cp).unwrap_or('\u{fffd}'));
                        }
                        other => return Err(format!("unknown escape \\{other}")),
                    }
                }
                c => out.push(c),
            }
        }
        Err("unterminated string".into())
    }
    fn seq(&mut self, close: u8) -> Result<Vec<Value>, String> {
        let mut items = vec![];
        loop {
            if self.peek() == close {
                self.i += 1;
                return Ok(items);
            }
            items.push(self.value()?);
            if self.peek() == b',' {
                self.i += 1;
            }
        }
    }
    pub fn value(&mut self) -> Result<Value, String> {
        let c = self.peek();
        match c {
            b'"' => Ok(json!({"_s": self.string()?})),
            b'[' => {
                self.i += 1;
                Ok(Value::Array(self.seq(b']')?))
            }
            b'(' => {
                self.i += 1;
                Ok(Value::Array(self.seq(b')')?))
            }
            b'{' => {
                self.i += 1;
                let mut pairs: Vec<(String, Value)> = vec![];
                loop {
                    if self.peek() == b'}' {
                        self.i += 1;
                        break;
                    }
                    let k = self.value()?;
                    self.eat(b':')?;
                    let v = self.value()?;
                    pairs.push((k.to_string(), json!([k, v])));
                    if self.peek() == b',' {
                        self.i += 1;
                    }
                }
                pairs.sort_by(|a, b| a.0.cmp(&b.0));
                Ok(json!({"_map": pairs.into_iter().map(|p| p.1).collect::<Vec<_>>()}))
            }
            b'-' | b'0'..=b'9' => {
                let st = self.i;
                self.i += 1;
                while self.i < self.s.len()
                    && (self.s[self.i].is_ascii_alphanumeric() || matches!(self.s[self.i], b'.' | b'-' | b'+' | b'_'))
                {
                    self.i += 1;
                }
                let t = String::from_utf8_lossy(&self.s[st..self.i]).to_string();
                if t == "-" {
                    // "-inf"
                    let id = self.ident();
                    return Ok(json!({"_n": format!("-{id}")}));
                }
                if let Ok(n) = t.parse::<i64>() {
                    Ok(json!(n))
                } else if let Ok(n) = t.parse::<u64>() {
                    Ok(json!(n))
                } else {
                    Ok(json!({"_n": t}))
                }
            }
            b'\'' => {
                // char literal
                let st = self.i;
                self.i += 1;
                while self.i < self.s.len() && self.s[self.i] != b'\'' {
                    if self.s[self.i] == b'\\' {
                        self.i += 1;
                    }
                    self.i += 1;
                }
                self.i += 1;
                Ok(json!({"_c": String::from_utf8_lossy(&self.s[st..self.i]).to_string()}))
            }
            _ => {
                let id = self.ident();
                if id.is_empty() {
                    return Err(format!("unexpected '{}' at {}", c as char, self.i));
                }
                match self.peek() {
                    b'{' => {
                        self.i += 1;
                        let mut m = Map::new();
                        m.insert("_t".into(), json!(id));
                        loop {
                            if self.peek() == b'}' {
                                self.i += 1;
                                break;
                            }
                            if self.peek() == b'.' {
                                // ".." of finish_non_exhaustive
                                while self.peek() == b'.' {
                                    self.i += 1;
                                }
                                continue;
                            }
                            let f = self.ident();
                            self.eat(b':')?;
                            let v = self.value()?;
                            m.insert(f, v);
                            if self.peek() == b',' {
                                self.i += 1;
                            }
                        }
                        if id == "ItemList" {
                            return Ok(m.remove("items").unwrap_or(json!([])));
                        }
                        Ok(Value::Object(m))
                    }
                    b'(' => {
                        self.i += 1;
                        let items = self.seq(b')')?;
                        if id == "Some" && items.len() == 1 {
                            return Ok(items.into_iter().next().unwrap());
                        }
                        Ok(json!({"_t": id, "_": items}))
                    }
                    _ => Ok(match id.as_str() {
                        "None" => Value::Null,
                        "true" => json!(true),
                        "false" => json!(false),
                        "inf" | "NaN" => json!({"_n": id}),
                        _ => json!(id),
                    }),
                }
            }
        }
    }
}
