//! helpers to build and inspect real a2lfile models generically by list kind (tag)
use a2lfile::*;

pub const LIST_KINDS: [&str; 20] = [
    "AXIS_PTS", "BLOB", "CHARACTERISTIC", "COMPU_METHOD", "COMPU_TAB", "COMPU_VTAB", "COMPU_VTAB_RANGE", "FRAME",
    "FUNCTION", "GROUP", "INSTANCE", "MEASUREMENT", "RECORD_LAYOUT", "TRANSFORMER", "TYPEDEF_AXIS", "TYPEDEF_BLOB",
    "TYPEDEF_CHARACTERISTIC", "TYPEDEF_MEASUREMENT", "TYPEDEF_STRUCTURE", "UNIT",
];

/// one module child as seen through the public API
#[derive(Debug, Clone, PartialEq)]
pub struct ChildObs {
    pub kind: String,
    pub name: String,
    pub uid: u32,
    pub line: u32,
}

fn s(x: &str) -> String {
    x.to_string()
}

/// minimal A2L text of one element of the given list kind (used to create *loaded* elements)
pub fn elem_text(kind: &str, name: &str) -> String {
    match kind {
        "AXIS_PTS" => format!("/begin AXIS_PTS {name} \"\" 0x0 NO_INPUT_QUANTITY rl 0 NO_COMPU_METHOD 2 0 100 /end AXIS_PTS"),
        "BLOB" => format!("/begin BLOB {name} \"\" 0x0 4 /end BLOB"),
        "CHARACTERISTIC" => format!("/begin CHARACTERISTIC {name} \"\" VALUE 0x0 rl 0 NO_COMPU_METHOD 0 100 /end CHARACTERISTIC"),
        "COMPU_METHOD" => format!("/begin COMPU_METHOD {name} \"\" IDENTICAL \"%4.2\" \"\" /end COMPU_METHOD"),
        "COMPU_TAB" => format!("/begin COMPU_TAB {name} \"\" TAB_INTP 0 /end COMPU_TAB"),
        "COMPU_VTAB" => format!("/begin COMPU_VTAB {name} \"\" TAB_VERB 0 /end COMPU_VTAB"),
        "COMPU_VTAB_RANGE" => format!("/begin COMPU_VTAB_RANGE {name} \"\" 0 /end COMPU_VTAB_RANGE"),
        "FRAME" => format!("/begin FRAME {name} \"\" 1 2 /end FRAME"),
        "FUNCTION" => format!("/begin FUNCTION {name} \"\" /end FUNCTION"),
        "GROUP" => format!("/begin GROUP {name} \"\" /end GROUP"),
        "INSTANCE" => format!("/begin INSTANCE {name} \"\" td 0x0 /end INSTANCE"),
        "MEASUREMENT" => format!("/begin MEASUREMENT {name} \"\" UBYTE NO_COMPU_METHOD 1 1 0 255 /end MEASUREMENT"),
        "RECORD_LAYOUT" => format!("/begin RECORD_LAYOUT {name} /end RECORD_LAYOUT"),
        "TRANSFORMER" => format!("/begin TRANSFORMER {name} \"1\" \"a\" \"b\" 1 ON_CHANGE NO_INVERSE_TRANSFORMER /end TRANSFORMER"),
        "TYPEDEF_AXIS" => format!("/begin TYPEDEF_AXIS {name} \"\" NO_INPUT_QUANTITY rl 0 NO_COMPU_METHOD 2 0 100 /end TYPEDEF_AXIS"),
        "TYPEDEF_BLOB" => format!("/begin TYPEDEF_BLOB {name} \"\" 4 /end TYPEDEF_BLOB"),
        "TYPEDEF_CHARACTERISTIC" => format!("/begin TYPEDEF_CHARACTERISTIC {name} \"\" VALUE rl 0 NO_COMPU_METHOD 0 100 /end TYPEDEF_CHARACTERISTIC"),
        "TYPEDEF_MEASUREMENT" => format!("/begin TYPEDEF_MEASUREMENT {name} \"\" UBYTE NO_COMPU_METHOD 1 1 0 255 /end TYPEDEF_MEASUREMENT"),
        "TYPEDEF_STRUCTURE" => format!("/begin TYPEDEF_STRUCTURE {name} \"\" 4 /end TYPEDEF_STRUCTURE"),
        "UNIT" => format!("/begin UNIT {name} \"\" \"u\" DERIVED /end UNIT"),
        // module children that are not ItemLists (projected out of the placement observations)
        "MOD_COMMON" => "/begin MOD_COMMON \"\" BYTE_ORDER MSB_LAST /end MOD_COMMON".to_string(),
        "MOD_PAR" => "/begin MOD_PAR \"\" /end MOD_PAR".to_string(),
        "IF_DATA" => format!("/begin IF_DATA {name} 1 2 /end IF_DATA"),
        "USER_RIGHTS" => format!("/begin USER_RIGHTS {name} /end USER_RIGHTS"),
        "VARIANT_CODING" => "/begin VARIANT_CODING /end VARIANT_CODING".to_string(),
        other => panic!("elem_text: unknown kind {other}"),
    }
}

macro_rules! per_kind {
    ($kind:expr, $module:expr, |$l:ident| $body:expr) => {
        match $kind {
            "AXIS_PTS" => { let $l = &mut $module.axis_pts; $body }
            "BLOB" => { let $l = &mut $module.blob; $body }
            "CHARACTERISTIC" => { let $l = &mut $module.characteristic; $body }
            "COMPU_METHOD" => { let $l = &mut $module.compu_method; $body }
            "COMPU_TAB" => { let $l = &mut $module.compu_tab; $body }
            "COMPU_VTAB" => { let $l = &mut $module.compu_vtab; $body }
            "COMPU_VTAB_RANGE" => { let $l = &mut $module.compu_vtab_range; $body }
            "FRAME" => { let $l = &mut $module.frame; $body }
            "FUNCTION" => { let $l = &mut $module.function; $body }
            "GROUP" => { let $l = &mut $module.group; $body }
            "INSTANCE" => { let $l = &mut $module.instance; $body }
            "MEASUREMENT" => { let $l = &mut $module.measurement; $body }
            "RECORD_LAYOUT" => { let $l = &mut $module.record_layout; $body }
            "TRANSFORMER" => { let $l = &mut $module.transformer; $body }
            "TYPEDEF_AXIS" => { let $l = &mut $module.typedef_axis; $body }
            "TYPEDEF_BLOB" => { let $l = &mut $module.typedef_blob; $body }
            "TYPEDEF_CHARACTERISTIC" => { let $l = &mut $module.typedef_characteristic; $body }
            "TYPEDEF_MEASUREMENT" => { let $l = &mut $module.typedef_measurement; $body }
            "TYPEDEF_STRUCTURE" => { let $l = &mut $module.typedef_structure; $body }
            "UNIT" => { let $l = &mut $module.unit; $body }
            other => panic!("unknown list kind {other}"),
        }
    };
}
pub(crate) use per_kind;

/// push a new (API-constructed) element of the given kind; returns nothing
pub fn push_new(module: &mut Module, kind: &str, name: &str) {
    let n = s(name);
    let e = String::new;
    match kind {
        "AXIS_PTS" => module.axis_pts.push(AxisPts::new(n, e(), 0, s("NO_INPUT_QUANTITY"), s("rl"), 0.0, s("NO_COMPU_METHOD"), 2, 0.0, 100.0)),
        "BLOB" => module.blob.push(Blob::new(n, e(), 0, 4)),
        "CHARACTERISTIC" => module.characteristic.push(Characteristic::new(n, e(), CharacteristicType::Value, 0, s("rl"), 0.0, s("NO_COMPU_METHOD"), 0.0, 100.0)),
        "COMPU_METHOD" => module.compu_method.push(CompuMethod::new(n, e(), ConversionType::Identical, s("%4.2"), e())),
        "COMPU_TAB" => module.compu_tab.push(CompuTab::new(n, e(), ConversionType::TabIntp, 0)),
        "COMPU_VTAB" => module.compu_vtab.push(CompuVtab::new(n, e(), ConversionType::TabVerb, 0)),
        "COMPU_VTAB_RANGE" => module.compu_vtab_range.push(CompuVtabRange::new(n, e(), 0)),
        "FRAME" => module.frame.push(Frame::new(n, e(), 1, 2)),
        "FUNCTION" => module.function.push(Function::new(n, e())),
        "GROUP" => module.group.push(Group::new(n, e())),
        "INSTANCE" => module.instance.push(Instance::new(n, e(), s("td"), 0)),
        "MEASUREMENT" => module.measurement.push(Measurement::new(n, e(), DataType::Ubyte, s("NO_COMPU_METHOD"), 1, 1.0, 0.0, 255.0)),
        "RECORD_LAYOUT" => module.record_layout.push(RecordLayout::new(n)),
        "TRANSFORMER" => module.transformer.push(Transformer::new(n, s("1"), s("a"), s("b"), 1, TransformerTrigger::OnChange, s("NO_INVERSE_TRANSFORMER"))),
        "TYPEDEF_AXIS" => module.typedef_axis.push(TypedefAxis::new(n, e(), s("NO_INPUT_QUANTITY"), s("rl"), 0.0, s("NO_COMPU_METHOD"), 2, 0.0, 100.0)),
        "TYPEDEF_BLOB" => module.typedef_blob.push(TypedefBlob::new(n, e(), 4)),
        "TYPEDEF_CHARACTERISTIC" => module.typedef_characteristic.push(TypedefCharacteristic::new(n, e(), CharacteristicType::Value, s("rl"), 0.0, s("NO_COMPU_METHOD"), 0.0, 100.0)),
        "TYPEDEF_MEASUREMENT" => module.typedef_measurement.push(TypedefMeasurement::new(n, e(), DataType::Ubyte, s("NO_COMPU_METHOD"), 1, 1.0, 0.0, 255.0)),
        "TYPEDEF_STRUCTURE" => module.typedef_structure.push(TypedefStructure::new(n, e(), 4)),
        "UNIT" => module.unit.push(Unit::new(n, e(), s("u"), UnitType::Derived)),
        other => panic!("push_new: unknown kind {other}"),
    }
}

/// set uid and line of the last element of a list (used to construct a specification state)
pub fn set_last_layout(module: &mut Module, kind: &str, uid: u32, line: u32) {
    per_kind!(kind, module, |l| {
        let idx = l.len() - 1;
        let lay = l[idx].get_layout_mut();
        lay.uid = uid;
        lay.line = line;
    })
}

/// observe one list: (name, uid, line) in list order
pub fn observe_list(module: &mut Module, kind: &str) -> Vec<ChildObs> {
    per_kind!(kind, module, |l| {
        l.iter()
            .map(|e| ChildObs { kind: kind.to_string(), name: e.get_name().to_string(), uid: e.get_layout().uid, line: e.get_layout().line })
            .collect()
    })
}

/// the `/begin KIND name` sequence of the module-level children (and comments) in written text.
/// Only depth-1 children of MODULE are reported. Comments are reported as ("#", text).
/// index of the MODULE that the placement histories work on (1 when a decoy MODULE stands in front)
pub static MODULE_INDEX: std::sync::atomic::AtomicUsize = std::sync::atomic::AtomicUsize::new(0);
pub fn mi() -> usize {
    MODULE_INDEX.load(std::sync::atomic::Ordering::Relaxed)
}

/// the direct children of the MODULE number mi() in written order
pub fn written_children(text: &str) -> Vec<(String, String)> {
    let mut out = Vec::new();
    let mut depth = 0i32; // depth inside MODULE
    let mut in_module = false;
    let mut skip_module = false;
    let mut nmodule = 0;
    let toks = simple_tokens(text);
    let mut i = 0;
    while i < toks.len() {
        let t = &toks[i];
        if t == "/begin" {
            let tag = toks.get(i + 1).cloned().unwrap_or_default();
            if tag == "MODULE" && !in_module {
                in_module = true;
                skip_module = nmodule != mi();
                nmodule += 1;
                depth = 0;
                i += 2;
                continue;
            }
            if in_module {
                if depth == 0 && !skip_module {
                    let name = toks.get(i + 2).cloned().unwrap_or_default();
                    out.push((tag, name));
                }
                depth += 1;
            }
            i += 2;
            continue;
        }
        if t == "/end" {
            if in_module {
                if depth == 0 {
                    in_module = false;
                } else {
                    depth -= 1;
                }
            }
            i += 2;
            continue;
        }
        if in_module && !skip_module && depth == 0 && (t.starts_with("/*") || t.starts_with("//")) {
            out.push(("#".to_string(), t.clone()));
        }
        i += 1;
    }
    out
}

/// whitespace tokenizer for *written* text: strings and comments are single tokens
pub fn simple_tokens(text: &str) -> Vec<String> {
    let b = text.as_bytes();
    let mut out = Vec::new();
    let mut i = 0;
    while i < b.len() {
        let c = b[i];
        if c.is_ascii_whitespace() {
            i += 1;
        } else if c == b'"' {
            let st = i;
            i += 1;
            while i < b.len() {
                if b[i] == b'\\' {
                    i += 2;
                    continue;
                }
                if b[i] == b'"' {
                    if i + 1 < b.len() && b[i + 1] == b'"' {
                        i += 2;
                        continue;
                    }
                    break;
                }
                i += 1;
            }
            i = (i + 1).min(b.len());
            out.push(String::from_utf8_lossy(&b[st..i]).to_string());
        } else if c == b'/' && i + 1 < b.len() && b[i + 1] == b'*' {
            let st = i;
            i += 2;
            while i + 1 < b.len() && !(b[i] == b'*' && b[i + 1] == b'/') {
                i += 1;
            }
            i = (i + 2).min(b.len());
            out.push(String::from_utf8_lossy(&b[st..i]).to_string());
        } else if c == b'/' && i + 1 < b.len() && b[i + 1] == b'/' {
            let st = i;
            while i < b.len() && b[i] != b'\n' {
                i += 1;
            }
            out.push(String::from_utf8_lossy(&b[st..i]).to_string());
        } else {
            let st = i;
            while i < b.len() && !b[i].is_ascii_whitespace() {
                i += 1;
            }
            out.push(String::from_utf8_lossy(&b[st..i]).to_string());
        }
    }
    out
}

/// names whose documented (byte-wise) alphabetical order is the order of the ranks, written with characters of
/// different classes: a digit, an upper-case letter, the underscore, lower-case letters (0 < E < _ < e < r < z),
/// so that an ordering which ignores case or treats the underscore differently shows
const NAME_DIGITS: [char; 6] = ['0', 'E', '_', 'e', 'r', 'z'];
/// (the last part is the number 10 for even ranks and 9 for odd ranks: byte-wise "..10" < "..9", a numeric or
/// "natural" order would say the opposite)
pub fn name_of_rank(rank: u64) -> String {
    let mut r = rank / 2;
    let mut tail = Vec::new();
    for _ in 0..6 {
        tail.push(NAME_DIGITS[(r % 6) as usize]);
        r /= 6;
    }
    tail.reverse();
    format!("N{}.{}", tail.into_iter().collect::<String>(), if rank % 2 == 0 { "10" } else { "9" })
}
pub fn rank_of_name(name: &str) -> u64 {
    let Some(t) = name.strip_prefix('N') else { return 99999 };
    let Some((head, num)) = t.split_once('.') else { return 99999 };
    let mut r = 0u64;
    for c in head.chars() {
        match NAME_DIGITS.iter().position(|d| *d == c) {
            Some(i) => r = r * 6 + i as u64,
            None => return 99999,
        }
    }
    match num {
        "10" => r * 2,
        "9" => r * 2 + 1,
        _ => 99999,
    }
}
