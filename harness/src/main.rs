mod debug_tree;
mod include;
mod decode;
mod editop;
mod itemlist;
mod lexer;
mod loadop;
mod modelop;
mod model;
mod placement;
mod typed_specs;
mod typedop;
mod util;

fn main() {
    let argv: Vec<String> = std::env::args().collect();
    if argv.len() < 2 {
        eprintln!("usage: a2lverif <subcommand> [--key value]...");
        std::process::exit(2);
    }
    let args = util::Args(argv[2..].to_vec());
    util::quiet_panics();
    match argv[1].as_str() {
        "itemlist-replay" => itemlist::replay(&args),
        "itemlist-record" => itemlist::record(&args),
        "decode-replay" => decode::replay(&args),
        "decode-fuzz" => decode::fuzz(&args),
        "include-op" => include::run(&args),
        "lexer-replay" => lexer::replay(&args),
        "load-op" => loadop::run(&args),
        "model-op" => modelop::run(&args),
        "edit-op" => editop::run(&args),
        "typed-op" => typedop::run(&args),
        "placement-replay" => placement::replay(&args),
        "placement-record" => placement::record(&args),
        other => {
            eprintln!("unknown subcommand {other}");
            std::process::exit(2);
        }
    }
}
