fn main() {
    let t = r#"ASAP2_VERSION 1 71
/begin PROJECT p ""
 /begin MODULE m ""
  /* c */
  /begin MEASUREMENT m1 "x" UBYTE cm 1 1.5 0 255 ECU_ADDRESS 0x10 /begin IF_DATA X 1 /end IF_DATA /end MEASUREMENT
  /begin UNIT u "" "u" DERIVED REF_UNIT v /end UNIT
 /end MODULE
/end PROJECT"#;
    let (a, _) = a2lfile::load_from_string(t, None, false).unwrap();
    println!("{:#?}", a);
}
