---------------------------- MODULE MC_LayoutCases ----------------------------
(* Layout patterns applied to real elements (C05, C01, C02): a pattern changes the gap (number of line
   breaks) at up to two token boundaries of the element, chosen by relative position, and optionally
   inserts a comment in a block-level gap.  The patterns are enumerated here; MC_Layout checks the
   offset scheme itself on abstract documents. *)
EXTENDS Integers, Sequences, Json, TLC

VARIABLE sc
Pos == 0..9                     \* relative position of a boundary inside the element (tenths)
Gaps == {0, 1, 2, 17, 40}        \* (line breaks; also far more than any fixed buffer of blanks or breaks would hold)
Comments == {"none", "line", "block1", "block2", "block3"}
Families == {"oneline", "tokenperline", "blanklines", "crlf", "asis"}

Init == sc = [stage |-> 0]
Next == \/ sc.stage = 0 /\ \E f \in Families, c \in Comments : sc' = [stage |-> 1, fam |-> f, cmt |-> c]
        \/ sc.stage = 1 /\ \E p1 \in Pos, g1 \in Gaps, p2 \in Pos, g2 \in Gaps, cp \in 0..3 :
               p1 <= p2 /\ sc' = [stage |-> 2, fam |-> sc.fam, cmt |-> sc.cmt, p1 |-> p1, g1 |-> g1, p2 |-> p2, g2 |-> g2, cpos |-> cp]
Spec == Init /\ [][Next]_sc
Emit == sc.stage = 2 => PrintT(<<"CASE", ToJson(sc)>>)
=============================================================================
