------------------------------- MODULE Include -------------------------------
(***************************************************************************)
(* /include resolution (tokenizer.rs: tokenize, loader.rs:                 *)
(* make_include_filename) and its reproduction by the writer (writer.rs:   *)
(* add_group, BlockInfo.incfile).                                          *)
(*                                                                         *)
(* A file is [name, place, quoted, sep, items]; an item is an element      *)
(* [k |-> "e", id] or an include [k |-> "inc", f |-> file].  `place` says  *)
(* where the file lives relative to the INCLUDING file: "same" directory,  *)
(* "sub" directory or "subsub" directory; the directive names it with      *)
(* that relative path, quoted or not, with separator sep.                  *)
(*                                                                         *)
(* Ideal semantics (what C16 states):                                      *)
(*   Flatten(f)    the element sequence of the file with includes inlined  *)
(*   MainItems(f)  what writing the model back must produce for the main   *)
(*                 file: its own elements inline and one directive per     *)
(*                 DIRECT include, in place (nested includes stay inside   *)
(*                 the include files, which are not rewritten)             *)
(* Implementation-shaped writer (ImplMainItems): every element remembers   *)
(* the file it came from; `Attribution` says which file that is for an     *)
(* element of a nested include: "innermost" (the pinned code) or           *)
(* "outermost" (the direct include of the main file).                      *)
(***************************************************************************)
EXTENDS Naturals, Sequences, TLC

CONSTANT Attribution     \* "innermost" | "outermost"

RECURSIVE Flatten(_)
Flatten(f) ==
    LET RECURSIVE go(_)
        go(items) == IF items = <<>> THEN <<>>
                     ELSE LET it == Head(items) IN
                          (IF it.k = "e" THEN <<it.id>> ELSE Flatten(it.f)) \o go(Tail(items))
    IN go(f.items)

\* the same, remembering for each element the chain of include files it was reached through
RECURSIVE FlattenVia(_, _)
FlattenVia(f, chain) ==
    LET RECURSIVE go(_)
        go(items) == IF items = <<>> THEN <<>>
                     ELSE LET it == Head(items) IN
                          (IF it.k = "e" THEN <<[id |-> it.id, via |-> chain]>>
                           ELSE FlattenVia(it.f, Append(chain, it.f.name))) \o go(Tail(items))
    IN go(f.items)

\* ideal main file after load + write: own elements and direct directives
MainItems(f) == [i \in 1..Len(f.items) |->
                    IF f.items[i].k = "e" THEN [k |-> "e", id |-> f.items[i].id]
                    ELSE [k |-> "dir", name |-> f.items[i].f.name]]

\* implementation-shaped: walk the flattened elements; an element that came from an include file
\* is not written; instead a directive naming its attributed file is written the first time that
\* file is seen
RECURSIVE ImplWalk(_, _)
ImplWalk(es, seen) ==
    IF es = <<>> THEN <<>>
    ELSE LET e == Head(es) IN
         IF e.via = <<>> THEN <<[k |-> "e", id |-> e.id]>> \o ImplWalk(Tail(es), seen)
         ELSE LET file == IF Attribution = "innermost" THEN e.via[Len(e.via)] ELSE e.via[1] IN
              IF file \in seen THEN ImplWalk(Tail(es), seen)
              ELSE <<[k |-> "dir", name |-> file]>> \o ImplWalk(Tail(es), seen \cup {file})
ImplMainItems(f) == ImplWalk(FlattenVia(f, <<>>), {})

\* reloading a written main file: its directives resolve to the (unchanged) include files
FileByName(f, n) ==
    LET RECURSIVE find(_)
        find(items) == IF items = <<>> THEN <<>>
                       ELSE LET it == Head(items) IN
                            IF it.k = "inc" THEN (IF it.f.name = n THEN <<it.f>> ELSE find(it.f.items) \o find(Tail(items)))
                            ELSE find(Tail(items))
    IN find(f.items)
RECURSIVE ReloadFlat(_, _)
ReloadFlat(orig, items) ==
    IF items = <<>> THEN <<>>
    ELSE LET it == Head(items) IN
         (IF it.k = "e" THEN <<it.id>> ELSE Flatten(FileByName(orig, it.name)[1])) \o ReloadFlat(orig, Tail(items))

\* C16 at the level of the model
ReloadEqualIdeal(f) == ReloadFlat(f, MainItems(f)) = Flatten(f)
ReloadEqualImpl(f) == ReloadFlat(f, ImplMainItems(f)) = Flatten(f)
DirectivesKept(f) == ImplMainItems(f) = MainItems(f)
=============================================================================
