-------------------------------- MODULE A2ml --------------------------------
(***************************************************************************)
(* Interpretation of IF_DATA content by an A2ML type tree (ifdata.rs:      *)
(* parse_ifdata, parse_ifdata_item, parse_ifdata_taggeditem) and the       *)
(* fallback for content no definition describes (parse_unknown_ifdata..).  *)
(*                                                                         *)
(* Type tree (a2ml.rs A2mlTypeSpec):                                       *)
(*   [k |-> scalar]  scalar in char int long int64 uchar uint ulong uint64 *)
(*                   float double                                          *)
(*   [k |-> "array", t, n]   (an array of char is a string of <= n bytes)  *)
(*   [k |-> "enum", items]   [k |-> "struct", ms]   [k |-> "seq", t]       *)
(*   [k |-> "ts", tags] / [k |-> "tu", tags]: taggedstruct / taggedunion,  *)
(*       tags = Seq([tag, t, block, repeat])      [k |-> "none"]           *)
(* The document (tokens of the IF_DATA content up to and including its     *)
(* /end IF_DATA, or a whole file) is the variable Doc of ParserCore.tla;    *)
(* Specs is the list of definitions [t, infile] tried in order (built-in   *)
(* specification first, then the A2ML block of the file; the latter is in  *)
(* force once the parser has passed the A2ML block: field a2ml of the      *)
(* parser state).                                                          *)
(*                                                                         *)
(* Values: [k, ...] trees whose leaves are token texts (which token lands  *)
(* where is decided here; number notation is compared by the driver).      *)
(***************************************************************************)
EXTENDS ParserCore

VARIABLE Specs

IntKinds == {"char", "int", "long", "int64", "uchar", "uint", "ulong", "uint64"}
TagIdx(tags, tag) == {i \in 1..Len(tags) : tags[i].tag = tag}

\* get_string_maxlen
GetStringMaxlen(S, n) ==
    LET isId == S.pos <= NTok /\ Tok(S.pos).t = "id"
        r == GetString(S)
    IN IF ~r.ok THEN r
       ELSE LET tk == Tok(r.S.pos - 1) IN
            IF tk.a.len > n
            THEN LET l == Log(r.S, Diag("StringTooLong", r.S.last, "")) IN IF l.ok THEN Ok(l.S, r.v) ELSE l
            ELSE r

\* parse_ifdata_make_block
MakeBlock(v) == [k |-> "block", items |-> IF v.k = "struct" THEN v.items ELSE <<v>>]

RECURSIVE PItem(_, _)
RECURSIVE PMany(_, _, _)       \* struct members / array items in a row
RECURSIVE PSeqA(_, _, _)       \* greedy sequence
RECURSIVE PTaggedLoop(_, _, _) \* taggedstruct loop
RECURSIVE PUnknown(_, _, _)
RECURSIVE PUnknownTS(_, _)

RECURSIVE SkipComments(_)
SkipComments(X) == IF X.pos <= NTok /\ Tok(X.pos).t = "cmt" THEN SkipComments([X EXCEPT !.pos = @ + 1, !.last = Tok(X.pos).line]) ELSE X

\* skip comments (get_token), then get_next_tag_or_comment; v = [k |-> "none"] or [k |-> "tag", ...]
TagAhead(S) ==
    LET S1 == SkipComments(S)
        n == NextTagOrComment(S1)
    IN IF n.ok /\ n.v.k = "tag" THEN n ELSE Ok([(IF n.ok THEN n.S ELSE n.S) EXCEPT !.pos = S.pos], [k |-> "none"])

\* parse_ifdata_taggeditem: v = [k |-> "none"] or the item [tag, block, v]
PTaggedItem(tags, S) ==
    LET a == TagAhead(S) IN
    IF a.v.k = "none" THEN Ok([a.S EXCEPT !.pos = S.pos], [k |-> "none"])
    ELSE LET idx == TagIdx(tags, a.v.tag) IN
         IF idx = {} THEN Ok([a.S EXCEPT !.pos = S.pos], [k |-> "none"])
         ELSE LET sp == tags[CHOOSE i \in idx : TRUE] IN
              IF sp.block # a.v.isBlock THEN Ok([a.S EXCEPT !.pos = S.pos], [k |-> "none"])
              ELSE LET d == PItem(sp.t, a.S) IN
                   IF ~d.ok THEN d
                   ELSE IF a.v.isBlock
                        THEN LET e == ExpectToken(d.S, "end") IN
                             IF ~e.ok THEN e
                             ELSE LET i == ExpectToken(e.S, "id") IN
                                  IF ~i.ok THEN i
                                  ELSE IF Tok(i.v).v # a.v.tag THEN Err(i.S, "IncorrectEndTag", i.S.last)
                                  ELSE Ok(i.S, [k |-> "item", tag |-> a.v.tag, block |-> TRUE, v |-> MakeBlock(d.v)])
                        ELSE Ok(d.S, [k |-> "item", tag |-> a.v.tag, block |-> FALSE, v |-> MakeBlock(d.v)])

PTaggedLoop(tags, S, acc) ==
    LET r == PTaggedItem(tags, S) IN
    IF ~r.ok THEN r
    ELSE IF r.v.k = "none" THEN Ok(r.S, acc)
    ELSE PTaggedLoop(tags, r.S, Append(acc, r.v))

PMany(ts, S, acc) ==
    IF ts = <<>> THEN Ok(S, acc)
    ELSE LET r == PItem(Head(ts), S) IN IF ~r.ok THEN r ELSE PMany(Tail(ts), r.S, Append(acc, r.v))

\* the loop stops at the first item that fails or consumes nothing; the cursor goes back to the last
\* checkpoint (diagnostics and last_token_position of the failed attempt stay)
\* (get_string tolerates an identifier in place of a string; where a further item could begin an identifier
\* is what follows the sequence)
RECURSIVE StartsWithString(_)
StartsWithString(t) == IF t.k = "array" THEN t.t.k = "char" \/ StartsWithString(t.t)
                       ELSE IF t.k = "struct" THEN t.ms # <<>> /\ StartsWithString(t.ms[1])
                       ELSE FALSE
PSeqA(t, S, acc) ==
    IF StartsWithString(t) /\ S.pos <= NTok /\ Tok(S.pos).t = "id" THEN Ok(S, acc) ELSE
    LET r == PItem(t, S) IN
    IF ~r.ok THEN Ok([r.S EXCEPT !.pos = S.pos], acc)
    ELSE IF r.S.pos = S.pos THEN Ok(r.S, acc)
    ELSE PSeqA(t, r.S, Append(acc, r.v))

PItem(t, S) ==
    CASE t.k = "none" -> Ok(S, [k |-> "none"])
      [] t.k \in IntKinds -> LET r == GetNumber(S, t.k) IN IF r.ok THEN Ok(r.S, [k |-> "num", ty |-> t.k, v |-> r.v]) ELSE r
      [] t.k \in {"float", "double"} ->
            LET r == ExpectToken(S, "num") IN
            IF ~r.ok THEN r
            ELSE IF (IF t.k = "float" THEN Tok(r.v).a.f32 ELSE Tok(r.v).a.float)
                 THEN Ok(r.S, [k |-> "num", ty |-> t.k, v |-> [txt |-> Tok(r.v).v, val |-> Tok(r.v).a.val]])
                 ELSE Err(r.S, "MalformedNumber", r.S.last)
      [] t.k = "array" ->
            IF t.t.k = "char"
            THEN LET r == GetStringMaxlen(S, t.n) IN IF r.ok THEN Ok(r.S, [k |-> "str", v |-> r.v]) ELSE r
            ELSE LET r == PMany([i \in 1..t.n |-> t.t], S, <<>>) IN IF r.ok THEN Ok(r.S, [k |-> "array", items |-> r.v]) ELSE r
      [] t.k = "enum" ->
            LET r == GetIdentifier(S) IN
            IF ~r.ok THEN r
            ELSE IF \E i \in 1..Len(t.items) : t.items[i].tag = r.v THEN Ok(r.S, [k |-> "enum", v |-> r.v])
                 ELSE Err(r.S, "InvalidEnumValue", r.S.last)
      [] t.k = "struct" -> LET r == PMany(t.ms, S, <<>>) IN IF r.ok THEN Ok(r.S, [k |-> "struct", items |-> r.v]) ELSE r
      [] t.k = "seq" -> LET r == PSeqA(t.t, S, <<>>) IN Ok(r.S, [k |-> "seq", items |-> r.v])
      [] t.k = "ts" -> LET r == PTaggedLoop(t.tags, S, <<>>) IN IF r.ok THEN Ok(r.S, [k |-> "ts", items |-> r.v]) ELSE r
      [] t.k = "tu" -> LET r == PTaggedItem(t.tags, S) IN
                       IF ~r.ok THEN r ELSE Ok(r.S, [k |-> "tu", items |-> IF r.v.k = "none" THEN <<>> ELSE <<r.v>>])

(***************************************************************************)
(* fallback: content that no definition describes is kept if it is         *)
(* structurally sane (balanced /begin ... /end); numbers keep their value  *)
(***************************************************************************)
PUnknown(S, isBlock, acc) ==
    IF S.pos > NTok THEN Err(S, "UnexpectedEOF", S.last)
    ELSE LET tk == Tok(S.pos) IN
         CASE tk.t = "id" -> LET r == GetIdentifier(S) IN IF ~r.ok THEN r ELSE PUnknown(r.S, isBlock, Append(acc, [k |-> "enum", v |-> r.v]))
           [] tk.t = "str" -> LET r == GetString(S) IN IF ~r.ok THEN r ELSE PUnknown(r.S, isBlock, Append(acc, [k |-> "str", v |-> r.v]))
           [] tk.t = "num" ->
                 \* any integer up to 64 bit or any finite float literal is kept with its value
                 \* (the narrowest of long / int64 / uint64 that holds it, else double)
                 LET g == GetToken(S)
                     fit(ty) == \E i \in 1..Len(tk.a.fits) : tk.a.fits[i] = ty
                     ty == IF fit("long") THEN "long" ELSE IF fit("int64") THEN "int64" ELSE IF fit("uint64") THEN "uint64"
                           ELSE IF tk.a.float THEN "double" ELSE "none"
                 IN IF ty # "none"
                    THEN PUnknown(g.S, isBlock, Append(acc, [k |-> "num", ty |-> ty, v |-> [txt |-> tk.v, val |-> tk.a.val]]))
                    ELSE Err(g.S, "MalformedNumber", g.S.last)
           [] tk.t = "begin" ->
                 IF isBlock
                 THEN LET r == PUnknownTS(S, <<>>) IN IF ~r.ok THEN r ELSE PUnknown(r.S, isBlock, Append(acc, [k |-> "ts", items |-> r.v]))
                 ELSE Ok(S, [k |-> "struct", items |-> acc])
           [] tk.t = "end" -> Ok(S, [k |-> "struct", items |-> acc])
           [] tk.t = "cmt" -> PUnknown([S EXCEPT !.pos = @ + 1, !.last = tk.line], isBlock, acc)
           [] OTHER -> Err(S, "Hang", S.last)       \* an /include token is never consumed by the code; tokens of
                                                    \* this type cannot occur here (the tokenizer resolves them)

PUnknownTS(S, acc) ==
    \* comments in front of and between the items are skipped
    LET a == TagAhead(S)
    IN IF a.v.k = "none"
       THEN IF a.S.pos <= NTok /\ Tok(a.S.pos).t = "begin" THEN Err(a.S, "InvalidBegin", a.S.last) ELSE Ok(a.S, acc)
       ELSE LET d == PUnknown(a.S, a.v.isBlock, <<>>) IN
            IF ~d.ok THEN d
            ELSE IF a.v.isBlock
                 THEN LET e == ExpectToken(d.S, "end") IN
                      IF ~e.ok THEN e
                      ELSE LET i == ExpectToken(e.S, "id") IN
                           IF ~i.ok THEN i
                           ELSE IF Tok(i.v).v # a.v.tag THEN Err(i.S, "IncorrectEndTag", i.S.last)
                           ELSE PUnknownTS(i.S, Append(acc, [k |-> "item", tag |-> a.v.tag, block |-> TRUE, v |-> d.v]))
                 ELSE PUnknownTS(d.S, Append(acc, [k |-> "item", tag |-> a.v.tag, block |-> FALSE, v |-> d.v]))

PUnknownStart(S0) ==
    LET S == SkipComments(S0) IN
    IF S.pos <= NTok /\ Tok(S.pos).t = "id"
    THEN LET g == GetToken(S)
             d == PUnknown(g.S, TRUE, <<>>)
         IN IF ~d.ok THEN d
            ELSE Ok(d.S, [k |-> "block", items |-> <<[k |-> "tu", items |-> <<[k |-> "item", tag |-> Tok(S.pos).v, block |-> FALSE, v |-> d.v]>>]>>])
    ELSE PUnknown(S, TRUE, <<>>)

(***************************************************************************)
(* A2ML declarations -> type tree (a2ml.rs parse_a2ml and parse_aml_..).    *)
(* A declaration list is what the text says after lexing:                  *)
(*   decl    = [d |-> "type", t] | [d |-> "block", tag, seq, m]            *)
(*   t       = [k |-> scalar]                                              *)
(*           | [k |-> "enum"|"struct"|"ts"|"tu", name, ref |-> TRUE]       *)
(*           | [k |-> "enum", name, ref |-> FALSE, items]                  *)
(*           | [k |-> "struct", name, ref |-> FALSE, ms]                   *)
(*           | [k |-> "ts"|"tu", name, ref |-> FALSE, tags]                *)
(*   member  = [t, dims]      tagged = [tag, block, repeat, hasdef, seq, m]*)
(* Names declared at the top level are visible to later declarations, one  *)
(* name space per kind; a later definition replaces an earlier one; a      *)
(* reference to an undeclared name makes the whole definition unusable.    *)
(* The type of block "IF_DATA" is the result.                              *)
(***************************************************************************)
Scalars == IntKinds \cup {"float", "double"}
Fail == [ok |-> FALSE]
RECURSIVE WrapDims(_, _)
WrapDims(t, dims) == IF dims = <<>> THEN t ELSE WrapDims([k |-> "array", t |-> t, n |-> Head(dims)], Tail(dims))
Lookup(env, ns, name) ==
    LET idx == {i \in 1..Len(env) : env[i].ns = ns /\ env[i].name = name} IN
    IF idx = {} THEN Fail ELSE [ok |-> TRUE, t |-> env[CHOOSE i \in idx : \A j \in idx : j <= i].t]

RECURSIVE RType(_, _)
RECURSIVE RMembers(_, _, _)
RECURSIVE RTags(_, _, _)
RMember(m, env) == LET r == RType(m.t, env) IN IF ~r.ok THEN r ELSE [ok |-> TRUE, t |-> WrapDims(r.t, m.dims)]
RTagged(d, env) == LET r == RMember(d.m, env) IN
                   IF ~r.ok THEN r ELSE [ok |-> TRUE, t |-> IF d.seq THEN [k |-> "seq", t |-> r.t] ELSE r.t]
RMembers(ms, env, acc) ==
    IF ms = <<>> THEN [ok |-> TRUE, v |-> acc]
    ELSE LET r == RMember(Head(ms), env) IN IF ~r.ok THEN r ELSE RMembers(Tail(ms), env, Append(acc, r.t))
RTags(tags, env, acc) ==
    IF tags = <<>> THEN [ok |-> TRUE, v |-> acc]
    ELSE LET g == Head(tags)
             r == IF g.hasdef THEN RTagged(g, env) ELSE [ok |-> TRUE, t |-> [k |-> "none"]]
         IN IF ~r.ok THEN r
            ELSE RTags(Tail(tags), env, Append(SelectSeq(acc, LAMBDA x : x.tag # g.tag),
                                               [tag |-> g.tag, t |-> r.t, block |-> g.block, repeat |-> g.repeat]))
RType(e, env) ==
    IF e.k \in Scalars THEN [ok |-> TRUE, t |-> [k |-> e.k]]
    ELSE IF e.ref THEN Lookup(env, e.k, e.name)
    ELSE CASE e.k = "enum" -> [ok |-> TRUE, t |-> [k |-> "enum", items |-> e.items]]
           [] e.k = "struct" -> LET r == RMembers(e.ms, env, <<>>) IN IF r.ok THEN [ok |-> TRUE, t |-> [k |-> "struct", ms |-> r.v]] ELSE r
           [] OTHER -> LET r == RTags(e.tags, env, <<>>) IN IF r.ok THEN [ok |-> TRUE, t |-> [k |-> e.k, tags |-> r.v]] ELSE r

RECURSIVE RDecls(_, _, _)
RDecls(ds, env, ifd) ==
    IF ds = <<>> THEN ifd
    ELSE LET d == Head(ds) IN
         IF d.d = "block"
         THEN LET r == RTagged(d, env) IN
              IF ~r.ok THEN Fail ELSE RDecls(Tail(ds), env, IF d.tag = "IF_DATA" THEN r ELSE ifd)
         ELSE LET r == RType(d.t, env) IN
              IF ~r.ok THEN Fail
              ELSE RDecls(Tail(ds), IF d.t.k \notin Scalars /\ d.t.name # ""
                                    THEN Append(env, [ns |-> d.t.k, name |-> d.t.name, t |-> r.t]) ELSE env, ifd)
Resolve(decls) == RDecls(decls, <<>>, Fail)

\* equality of type trees up to the order of enum items and tags (hash maps in the code)
RECURSIVE TypeEq(_, _)
TypeEq(a, b) ==
    /\ a.k = b.k
    /\ CASE a.k = "array" -> a.n = b.n /\ TypeEq(a.t, b.t)
         [] a.k = "seq" -> TypeEq(a.t, b.t)
         [] a.k = "enum" -> /\ Len(a.items) = Len(b.items)
                            /\ \A i \in 1..Len(a.items) : \E j \in 1..Len(b.items) : a.items[i] = b.items[j]
         [] a.k = "struct" -> Len(a.ms) = Len(b.ms) /\ \A i \in 1..Len(a.ms) : TypeEq(a.ms[i], b.ms[i])
         [] a.k \in {"ts", "tu"} ->
                /\ Len(a.tags) = Len(b.tags)
                /\ \A i \in 1..Len(a.tags) : \E j \in 1..Len(b.tags) :
                       /\ a.tags[i].tag = b.tags[j].tag /\ a.tags[i].block = b.tags[j].block
                       /\ a.tags[i].repeat = b.tags[j].repeat /\ TypeEq(a.tags[i].t, b.tags[j].t)
         [] OTHER -> TRUE

(***************************************************************************)
(* parse_ifdata: definitions in order, then the fallback                   *)
(***************************************************************************)
InForce(S) == SelectSeq(Specs, LAMBDA d : ~d.infile \/ S.a2ml)
RECURSIVE TrySpecs(_, _, _)
TrySpecs(S, defs, i) ==
    IF i > Len(defs) THEN [found |-> FALSE, S |-> S]
    ELSE LET r == PItem(defs[i].t, S) IN
         \* (a comment behind the last item does not belong to the content)
         IF r.ok /\ SkipComments(r.S).pos <= NTok /\ Tok(SkipComments(r.S).pos).t = "end"
         THEN [found |-> TRUE, S |-> SkipComments(r.S), v |-> MakeBlock(r.v), which |-> i]
         ELSE TrySpecs([r.S EXCEPT !.pos = S.pos], defs, i + 1)

\* the content of an IF_DATA block behind its tag, at cursor S, up to and including /end IF_DATA:
\* [ok, S, valid, v] or the error
IfDataAt(S0) ==
    IF S0.pos <= NTok /\ Tok(S0.pos).t # "end"
    THEN LET t == TrySpecs(S0, InForce(S0), 1) IN
         IF t.found THEN LET c == CloseBlock(t.S, "IF_DATA") IN
                         IF c.ok THEN [ok |-> TRUE, S |-> c.S, valid |-> TRUE, v |-> t.v] ELSE c
         ELSE LET u == PUnknownStart(t.S) IN
              IF ~u.ok THEN u
              ELSE LET c == CloseBlock(u.S, "IF_DATA") IN
                   IF c.ok THEN [ok |-> TRUE, S |-> c.S, valid |-> FALSE, v |-> u.v] ELSE c
    ELSE LET c == CloseBlock(S0, "IF_DATA") IN
         IF c.ok THEN [ok |-> TRUE, S |-> c.S, valid |-> FALSE, v |-> [k |-> "absent"]] ELSE c

\* the result for a Doc that is the content of one IF_DATA block (all definitions in force)
RunIfData ==
    LET r == IfDataAt([pos |-> 1, last |-> 0, diags |-> <<>>, a2ml |-> TRUE]) IN
    IF r.ok THEN [ok |-> TRUE, valid |-> r.valid, v |-> r.v, diags |-> r.S.diags] ELSE [ok |-> FALSE, e |-> r.e]
=============================================================================
