--------------------------- MODULE MC_ParserCases ---------------------------
(* The finite case space of C04 / C06, enumerated from the grammar constant: for every element the
   positive document under every version, and every single deviation named by the property:
   missing parameter, parameter of another token class, required sub-element absent, single
   sub-element twice, wrong block form, unknown enum value, every enum item and every version-gated
   sub-element under every version, wrong / missing end tag, sequences of length 0, 1, 3.
   The descriptors are concretised by tools/docgen.py; the outcome of every document is decided by
   Parser.tla (Trace_Parser). *)
EXTENDS Grammar, Json, Sequences, Integers, FiniteSets

RECURSIVE SetToSeq(_)
SetToSeq(S) == IF S = {} THEN <<>> ELSE LET x == CHOOSE y \in S : TRUE IN <<x>> \o SetToSeq(S \ {x})

VARIABLE sc
Tags == DOMAIN Elem \ {"A2L_FILE"}
ParamIdx(e) == 1..Len(Elem[e].params)
KidIdx(e) == 1..Len(Elem[e].kids)
IsEnumParam(p) == p.kind = "scalar" /\ p.type \notin ScalarTypes

CasesOf(e) ==
    LET el == Elem[e] IN
    {[k |-> "pos", e |-> e, ver |-> v] : v \in Versions}
    \cup {[k |-> "delparam", e |-> e, i |-> i] : i \in {j \in ParamIdx(e) : el.params[j].kind # "seq"}}
    \cup {[k |-> "retype", e |-> e, i |-> i] : i \in {j \in ParamIdx(e) : el.params[j].kind # "seq"}}
    \cup {[k |-> "seqlen", e |-> e, i |-> i, n |-> n] : i \in {j \in ParamIdx(e) : el.params[j].kind = "seq"}, n \in {0, 1, 3}}
    \cup {[k |-> "seqbad", e |-> e, i |-> i] : i \in {j \in ParamIdx(e) : el.params[j].kind = "seq"}}
    \* the last item of a sequence of structs lacks its last field
    \cup {[k |-> "seqhalf", e |-> e, i |-> i] : i \in {j \in ParamIdx(e) : el.params[j].kind = "seq" /\ Len(el.params[j].fields) > 1}}
    \cup {[k |-> "kid_absent", e |-> e, c |-> el.kids[i].tag] : i \in {j \in KidIdx(e) : el.kids[j].req}}
    \cup {[k |-> "kid_twice", e |-> e, c |-> el.kids[i].tag] : i \in {j \in KidIdx(e) : ~el.kids[j].many}}
    \cup {[k |-> "kid_wrongform", e |-> e, c |-> el.kids[i].tag] : i \in KidIdx(e)}
    \cup {[k |-> "kid_version", e |-> e, c |-> el.kids[i].tag, ver |-> v] :
             i \in {j \in KidIdx(e) : el.kids[j].since # 0 \/ el.kids[j].until # 0}, v \in Versions}
    \cup UNION {{[k |-> "enum_item", e |-> e, i |-> i, item |-> Enum[el.params[i].type][n].item, ver |-> v] :
                    n \in 1..Len(Enum[el.params[i].type]), v \in Versions} : i \in {j \in ParamIdx(e) : IsEnumParam(el.params[j])}}
    \cup {[k |-> "enum_unknown", e |-> e, i |-> i] : i \in {j \in ParamIdx(e) : IsEnumParam(el.params[j])}}
    \cup (IF el.form = "block" /\ e \notin {"A2ML", "IF_DATA"}
          THEN {[k |-> "end_tag", e |-> e], [k |-> "no_end", e |-> e], [k |-> "extra_token", e |-> e]} ELSE {})
    \cup (IF el.form = "block" /\ el.kids # <<>> THEN {[k |-> "unknown_kid", e |-> e, form |-> f] : f \in {"keyword", "block"}} ELSE {})

\* C06: documents with two or three recoverable problems of different classes on known lines
FaultClasses == {"unknown", "toomany", "strforid", "badident", "toonew_block", "toonew_enum", "wrongend",
                 "trailing", "badversion", "deprecated", "norepeated", "badident_later", "longstr_later"}
MultiCases == {[k |-> "multi", faults |-> F] : F \in {G \in SUBSET FaultClasses : Cardinality(G) \in {2, 3}}}
\* C07: an unknown element between the sub-elements of every block that admits optional sub-elements
Payloads == {"kw0", "kw_num", "kw_str_ident", "kw3", "blk_empty", "blk_scalars", "blk_nested1", "blk_nested2",
             "blk_known_inside", "blk_comment", "kw_comment", "blk_unbalanced_inner_kw", "kw_with_block", "kw_with_two_blocks", "blk_digit_tag", "blk_long_tag", "blk_same_tag_inside"}
SkipCases(e) == {[k |-> "skip", e |-> e, nkids |-> n, at |-> a, payload |-> p, next |-> "-"] : n \in 0..2, a \in 0..2, p \in Payloads}
                \* the stop list: a keyword payload directly in front of EVERY sub-element of the block
                \cup {[k |-> "skip", e |-> e, nkids |-> 1, at |-> 0, payload |-> p, next |-> Elem[e].kids[i].tag] :
                         i \in 1..Len(Elem[e].kids), p \in {"kw0", "kw_num", "kw_with_block"}}

\* C01 / C02: value classes per parameter type (the literal catalogue; the driver computes the concrete
\* text, e.g. "max+1" of uint = 65536, and which types it fits - TLC integers are 32 bit)
IntClasses == {"min-1", "min", "-1", "0", "max", "max+1", "hex0", "hexmax", "hexmax+1", "hexu64max", "hexover", "HEXPREFIX", "plus"}
FloatClasses == {"0", "-0.0", "0.1", "1e10", "1e-4", "123456000000", "5e-324", "1e999", "-1e999", "hex", "dot1", "1dot", "exp+", "16777217", "0.30000000000000004", "f32exact", "f32exact2", "f32exact_neg"}
StringClasses == {"empty", "ascii", "esc_quote", "dbl_quote", "esc_apos", "esc_backslash", "esc_n", "esc_r", "esc_t", "backslash_last",
                  "nonbmp", "latin", "slashes", "apos_raw", "unknown_escape", "esc_latin", "esc_nonbmp", "path", "esc_seq_after_backslash"}
IdentClasses == {"a", "dotted", "underscore", "len1024", "len1025", "digitfirst", "brackets"}
ValueCases ==
    {[k |-> "value", type |-> t, cls |-> c] : t \in {"int", "uint", "long", "ulong", "uint64"}, c \in IntClasses}
    \cup {[k |-> "value", type |-> "float", cls |-> c] : c \in FloatClasses}
    \cup {[k |-> "value", type |-> "string", cls |-> c] : c \in StringClasses}
    \cup {[k |-> "value", type |-> "ident", cls |-> c] : c \in IdentClasses}

Init == sc = [stage |-> 0]
Next == \/ sc.stage = 0 /\ \E e \in Tags : sc' = [stage |-> 1, e |-> e]
        \/ sc.stage = 1 /\ \E c \in CasesOf(sc.e) : sc' = [stage |-> 2, c |-> c]
        \/ sc.stage = 0 /\ \E c \in ValueCases : sc' = [stage |-> 2, c |-> c]
        \/ sc.stage = 0 /\ \E c \in MultiCases : sc' = [stage |-> 2, c |-> [k |-> c.k, faults |-> SetToSeq(c.faults)]]
        \/ sc.stage = 0 /\ \E e \in {t \in Tags : Elem[t].form = "block" /\ Elem[t].kids # <<>>} : sc' = [stage |-> 3, e |-> e]
        \/ sc.stage = 3 /\ \E c \in {x \in SkipCases(sc.e) : x.at <= x.nkids} : sc' = [stage |-> 2, c |-> c]
        \/ sc.stage = 0 /\ \E w \in {"no_version", "bad_version", "version_garbled", "trailing", "empty_project_missing", "two_projects",
                                            "a2ml_syntax", "a2ml_no_ifdata_block", "a2ml_undeclared_type", "a2ml_end_tag"} :
               sc' = [stage |-> 2, c |-> [k |-> "file", what |-> w]]
Spec == Init /\ [][Next]_sc
Emit == sc.stage = 2 => PrintT(<<"CASE", ToJson(sc.c)>>)
=============================================================================
