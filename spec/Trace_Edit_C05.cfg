SPECIFICATION TraceSpec
CONSTANTS
  Judge = {"C05"}
POSTCONDITION TraceAccepted
CHECK_DEADLOCK FALSE
