SPECIFICATION Spec
CONSTANTS
  Names <- MCNames
  NameOrder <- MCNameOrder
  GuardLast = FALSE
VIEW View
INVARIANTS NoPanic
CHECK_DEADLOCK FALSE
