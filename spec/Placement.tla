----------------------------- MODULE Placement -----------------------------
(***************************************************************************)
(* Output placement of the children of one MODULE (sort.rs: sort_new_items,*)
(* writer.rs: add_group / sort_function, merge: reset_location).           *)
(*                                                                         *)
(* Implementation-shaped layer: every child carries (uid, line); the       *)
(* writer orders the children by (uid = 0 last, uid, line, tag, position   *)
(* in its list); sort_new_items sorts every list by (uid = 0 last, uid,    *)
(* line, name), doubles the uids of placed children and gives every new    *)
(* child the uid `last placed uid of its list * 2 + 1`.                    *)
(*                                                                         *)
(* Ideal layer (what C15 states) is a relation between the written order   *)
(* before and after the call: IdealSortNew.                                *)
(*                                                                         *)
(* uid arithmetic: MaxUid is the largest representable uid.  Compact=TRUE  *)
(* models the code after the D13 fix (uids are renumbered compactly when   *)
(* the largest one reaches CompactAt); Compact=FALSE is the pinned code,   *)
(* which overflows: Wrap=FALSE panics (overflow checks on), Wrap=TRUE      *)
(* wraps around (release build).                                           *)
(***************************************************************************)
EXTENDS Naturals, Sequences, FiniteSets, TLC

CONSTANTS Kinds,      \* set of list kinds (tags), e.g. {"COMPU_METHOD","MEASUREMENT","UNIT"}
          KindRank,   \* [Kinds -> Nat]: alphabetical rank of the tag
          MaxUid,     \* largest representable uid (2^W - 1)
          CompactAt,  \* renumber when some uid >= CompactAt (only if Compact)
          Compact,    \* BOOLEAN
          Wrap,       \* BOOLEAN: overflow wraps (release) instead of panicking (dev)
          SortKindOrder \* Seq(Kinds): the order in which sort() emits the lists

VARIABLES E,       \* Seq of children: [kind, name, uid, line, cmt]; index = identity
          lists,   \* [Kinds -> Seq(index into E)]: the ItemLists in their current order
          panic,   \* an arithmetic overflow panicked
          last     \* label of the last step (history; hidden by VIEW)

vars == <<E, lists, panic, last>>

Ids == 1..Len(E)
IsCmt(i) == E[i].cmt
Max(S) == IF S = {} THEN 0 ELSE CHOOSE x \in S : \A y \in S : y <= x
Range(s) == {s[i] : i \in 1..Len(s)}
PosIn(s, x) == CHOOSE i \in 1..Len(s) : s[i] = x

\* sorting: TLC!SortSeq is evaluated natively; all orders used here are strict total orders
(***************************************************************************)
(* Writer order (writer.rs sort_function, stable sort over the group that  *)
(* Module::stringify builds tag by tag, each list in list order; comments  *)
(* are appended after all tags and have the empty tag "")                  *)
(***************************************************************************)
TagRank(EE, i) == IF EE[i].cmt THEN 0 ELSE 1 + KindRank[EE[i].kind]
GroupPos(EE, LL, i) ==      \* position in the group vector before sorting
    IF EE[i].cmt THEN 1000000 + i
    ELSE KindRank[EE[i].kind] * 1000 + PosIn(LL[EE[i].kind], i)
LessW(EE, LL, a, b) ==
    IF EE[a].uid = 0 /\ EE[b].uid # 0 THEN FALSE
    ELSE IF EE[b].uid = 0 /\ EE[a].uid # 0 THEN TRUE
    ELSE IF EE[a].uid # EE[b].uid THEN EE[a].uid < EE[b].uid
    ELSE IF EE[a].line # EE[b].line THEN EE[a].line < EE[b].line
    ELSE IF TagRank(EE, a) # TagRank(EE, b) THEN TagRank(EE, a) < TagRank(EE, b)
    ELSE GroupPos(EE, LL, a) < GroupPos(EE, LL, b)
\* comments deleted by sort() stay in E (index = identity) with kind "dead" and are not written
Dead(EE, i) == EE[i].kind = "dead"
WriterOrder(EE, LL) == SortSeq(SelectSeq([i \in 1..Len(EE) |-> i], LAMBDA i : ~Dead(EE, i)),
                               LAMBDA a, b : LessW(EE, LL, a, b))

(***************************************************************************)
(* sort_new_items                                                          *)
(***************************************************************************)
\* cmp_named_a2lobject
LessN(EE, a, b) ==
    IF EE[a].uid = 0 /\ EE[b].uid # 0 THEN FALSE
    ELSE IF EE[b].uid = 0 /\ EE[a].uid # 0 THEN TRUE
    ELSE IF EE[a].uid # EE[b].uid THEN EE[a].uid < EE[b].uid
    ELSE IF EE[a].line # EE[b].line THEN EE[a].line < EE[b].line
    ELSE EE[a].name < EE[b].name

\* u32 arithmetic
\* (TLC integers are 32 bit: doubling is saturated just below 2^31 so that a history on which the model and the code
\* disagree about compaction is rejected by the trace specification instead of stopping TLC with an overflow)
Dbl(u) == IF u > 1073741823 THEN 2147483646 ELSE u * 2
Ovf(x) == x > MaxUid
Norm(x) == IF x > MaxUid THEN x % (MaxUid + 1) ELSE x

\* the loop of sort_objectlist_new over an already sorted list:
\* returns [E, ovf]
RECURSIVE AssignLoop(_, _, _, _, _)
AssignLoop(EE, s, i, lastUid, ovf) ==
    IF i > Len(s) THEN [E |-> EE, ovf |-> ovf]
    ELSE LET x == s[i] IN
         IF EE[x].uid # 0
         THEN LET d == Dbl(EE[x].uid) IN
              AssignLoop([EE EXCEPT ![x].uid = Norm(d)], s, i + 1, Norm(Norm(d) + 1),
                         ovf \/ Ovf(d) \/ Ovf(Norm(d) + 1))
         ELSE AssignLoop([EE EXCEPT ![x].uid = lastUid], s, i + 1, lastUid, ovf)

\* compaction (the D13 fix): order-preserving renumbering of all non-zero uids of the module
Compacted(EE) ==
    LET U == {EE[i].uid : i \in {j \in 1..Len(EE) : ~Dead(EE, j)}} \ {0} IN
    [i \in 1..Len(EE) |-> IF EE[i].uid = 0 THEN EE[i]
                          ELSE [EE[i] EXCEPT !.uid = Cardinality({u \in U : u <= EE[i].uid})]]
NeedCompact(EE) == Compact /\ \E i \in 1..Len(EE) : ~Dead(EE, i) /\ EE[i].uid >= CompactAt

RECURSIVE SortKinds(_, _, _, _)
\* process the lists kind by kind (any order: the lists are independent)
SortKinds(EE, LL, todo, ovf) ==
    IF todo = {} THEN [E |-> EE, lists |-> LL, ovf |-> ovf]
    ELSE LET k == CHOOSE x \in todo : TRUE
             sorted == SortSeq(LL[k], LAMBDA a, b : LessN(EE, a, b))
             r == AssignLoop(EE, sorted, 1, 0, FALSE)
         IN SortKinds(r.E, [LL EXCEPT ![k] = sorted], todo \ {k}, ovf \/ r.ovf)

\* comments: `comment.uid *= 2`
DoubleComments(EE) ==
    [E |-> [i \in 1..Len(EE) |-> IF EE[i].cmt THEN [EE[i] EXCEPT !.uid = Norm(Dbl(EE[i].uid))] ELSE EE[i]],
     ovf |-> \E i \in 1..Len(EE) : EE[i].cmt /\ Ovf(Dbl(EE[i].uid))]

SortNewResult(EE, LL) ==
    LET E0 == IF NeedCompact(EE) THEN Compacted(EE) ELSE EE
        r1 == SortKinds(E0, LL, Kinds, FALSE)
        r2 == DoubleComments(r1.E)
    IN [E |-> r2.E, lists |-> r1.lists, ovf |-> r1.ovf \/ r2.ovf]

(***************************************************************************)
(* Ideal layer: relation between the written orders around sort_new_items  *)
(***************************************************************************)
\* TLC re-evaluates LET definitions at every use; values that are expensive (sorted orders,
\* inverse position maps) are therefore bound once with `\A v \in {expr}`.
Inv(s) == [x \in Range(s) |-> CHOOSE i \in 1..Len(s) : s[i] = x]
\* placed = had a position (uid # 0) before the call; comments are always placed
IdealSortNew(EE, before, after) ==
    \A pb \in {Inv(before)}, pa \in {Inv(after)}, P \in {{i \in Range(before) : EE[i].uid # 0}} :
    /\ Range(after) = Range(before) /\ Len(after) = Len(before)
    /\ \A a, b \in P : (pb[a] < pb[b]) <=> (pa[a] < pa[b])                  \* PlacedOrderStable
    /\ \A e \in Range(before) \ P :                                        \* NewGoesAfterLastOfKind
         \A sameKind \in {{p \in P : ~EE[p].cmt /\ EE[p].kind = EE[e].kind}} :
         IF sameKind = {}
         THEN \A x \in P : pa[x] < pa[e]                  \* trailing run: no placed child follows
         ELSE \A L \in {CHOOSE p \in sameKind : \A q \in sameKind : pa[q] <= pa[p]} :
              /\ pa[L] < pa[e]
              /\ \A x \in Range(before) : (pa[L] < pa[x] /\ pa[x] < pa[e]) =>
                     (x \notin P /\ EE[x].kind = EE[e].kind)

(***************************************************************************)
(* State machine                                                           *)
(***************************************************************************)
NewChild(k, nm, ln) == [kind |-> k, name |-> nm, uid |-> 0, line |-> ln, cmt |-> FALSE]

NamesOf(k) == {E[i].name : i \in {j \in Ids : ~E[j].cmt /\ E[j].kind = k}}

\* T::new + push: uid 0, line 0
PushNew(k, nm) ==
    /\ ~panic /\ nm \notin NamesOf(k)
    /\ E' = Append(E, NewChild(k, nm, 0))
    /\ lists' = [lists EXCEPT ![k] = Append(@, Len(E) + 1)]
    /\ UNCHANGED panic
    /\ last' = [op |-> "push_new", kind |-> k, name |-> nm]

\* one element arriving through merge_modules: reset_location() => uid 0, line kept
MergeIn(k, nm, ln) ==
    /\ ~panic /\ nm \notin NamesOf(k) /\ ln > 0
    /\ E' = Append(E, NewChild(k, nm, ln))
    /\ lists' = [lists EXCEPT ![k] = Append(@, Len(E) + 1)]
    /\ UNCHANGED panic
    /\ last' = [op |-> "merge_in", kind |-> k, name |-> nm, line |-> ln]

\* several elements arriving through one merge_modules call
RECURSIVE MergeManyE(_, _)
MergeManyE(EE, adds) ==
    IF adds = <<>> THEN EE
    ELSE MergeManyE(Append(EE, NewChild(Head(adds).kind, Head(adds).name, Head(adds).line)), Tail(adds))
RECURSIVE MergeManyL(_, _, _)
MergeManyL(LL, adds, nextId) ==
    IF adds = <<>> THEN LL
    ELSE MergeManyL([LL EXCEPT ![Head(adds).kind] = Append(@, nextId)], Tail(adds), nextId + 1)
MergeMany(adds) ==
    /\ ~panic
    /\ \A i \in 1..Len(adds) : adds[i].name \notin NamesOf(adds[i].kind) /\ adds[i].line > 0
    /\ E' = MergeManyE(E, adds)
    /\ lists' = MergeManyL(lists, adds, Len(E) + 1)
    /\ UNCHANGED panic
    /\ last' = [op |-> "merge_in"]

SortNewItems ==
    /\ ~panic
    /\ LET r == SortNewResult(E, lists) IN
       IF r.ovf /\ ~Wrap
       THEN /\ panic' = TRUE /\ UNCHANGED <<E, lists>>
       ELSE /\ E' = r.E /\ lists' = r.lists /\ UNCHANGED panic
    /\ last' = [op |-> "sort_new_items"]

(***************************************************************************)
(* sort(): every list is sorted by name and the uids are handed out list   *)
(* by list in SortKindOrder starting at `start` (4 + number of module      *)
(* level IF_DATA); module comments are deleted.                            *)
(***************************************************************************)
LessName(EE, a, b) == EE[a].name < EE[b].name
RECURSIVE SortFullLoop(_, _, _, _)
SortFullLoop(EE, LL, ks, uid) ==
    IF ks = <<>> THEN [E |-> EE, lists |-> LL]
    ELSE LET k == Head(ks)
             sorted == SortSeq(LL[k], LAMBDA a, b : LessName(EE, a, b))
             E2 == [i \in 1..Len(EE) |->
                      IF i \in Range(sorted) THEN [EE[i] EXCEPT !.uid = uid + PosIn(sorted, i) - 1] ELSE EE[i]]
         IN SortFullLoop(E2, [LL EXCEPT ![k] = sorted], Tail(ks), uid + Len(sorted))
SortFullResult(EE, LL, start) ==
    LET E1 == [i \in 1..Len(EE) |-> IF EE[i].cmt THEN [EE[i] EXCEPT !.kind = "dead"] ELSE EE[i]]
    IN SortFullLoop(E1, LL, SortKindOrder, start)

SortFull(start) ==
    /\ ~panic
    /\ LET r == SortFullResult(E, lists, start) IN E' = r.E /\ lists' = r.lists
    /\ UNCHANGED panic
    /\ last' = [op |-> "sort"]

\* C14 on the written order: same elements, grouped by kind, ascending names inside a kind
IdealSortFull(EE, before, after) ==
    \A pa \in {Inv(after)} :
    /\ Range(after) = {i \in Range(before) : ~EE[i].cmt}
    /\ \A a, b \in Range(after) :
          /\ (EE[a].kind = EE[b].kind /\ EE[a].name < EE[b].name) => pa[a] < pa[b]
          /\ (EE[a].kind = EE[b].kind /\ pa[a] < pa[b]) =>
                 \A x \in Range(after) : (pa[a] < pa[x] /\ pa[x] < pa[b]) => EE[x].kind = EE[a].kind
SortFullStepIdeal ==
    [][(last'.op = "sort") => IdealSortFull(E, WriterOrder(E, lists), WriterOrder(E', lists'))]_vars
\* sorting twice = sorting once (on the written order and on the list orders)
SortFullIdempotent ==
    [][(last'.op = "sort") =>
          \A r \in {SortFullResult(E', lists', 4)} :
              /\ r.lists = lists'
              /\ WriterOrder(r.E, r.lists) = WriterOrder(E', lists')]_vars

\* properties
NoPanic == ~panic
SortStepIdeal ==
    [][(last'.op = "sort_new_items" /\ ~panic') =>
          IdealSortNew(E, WriterOrder(E, lists), WriterOrder(E', lists'))]_vars
\* pushing / merging never moves anything that is already there
InsertKeepsOrder ==
    [][(last'.op \in {"push_new", "merge_in"}) =>
          \A pb \in {Inv(WriterOrder(E, lists))}, pa \in {Inv(WriterOrder(E', lists'))} :
          \A x, y \in DOMAIN pb : (pb[x] < pb[y]) <=> (pa[x] < pa[y])]_vars
\* a second call without new children changes nothing in the written order
UidsBounded == \A i \in Ids : E[i].uid <= MaxUid
=============================================================================
