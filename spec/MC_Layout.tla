------------------------------ MODULE MC_Layout ------------------------------
(* Design check of the offset scheme and generator of layout patterns (C05/C01): every document of
   up to N items over {token, line comment, block comment of height 1..3, string of height 1..2}
   with gaps 0..2.  In scope (strings on one line) the lines must be preserved; in any case writing
   must be a fixpoint (no drift).  The patterns with at most two non-default gaps are exported
   and applied to real elements by the driver. *)
EXTENDS Layout, Json, FiniteSets

CONSTANT N
VARIABLE sc

Items == {[k |-> "tok", h |-> 1], [k |-> "cmt", h |-> 1], [k |-> "cmt", h |-> 2], [k |-> "cmt", h |-> 3],
          [k |-> "str", h |-> 1], [k |-> "str", h |-> 2]}
Gaps == 0..2
Mk(it, g) == [k |-> it.k, h |-> it.h, gap |-> g]

Init == sc = [stage |-> 0]
Next == \/ sc.stage = 0 /\ \E n \in 1..N, it \in Items, g \in Gaps : sc' = [stage |-> 1, n |-> n, first |-> Mk(it, g)]
        \/ sc.stage = 1 /\ \E rest \in [1..(sc.n - 1) -> {Mk(it, g) : it \in Items, g \in Gaps}] :
               sc' = [stage |-> 2, d |-> <<sc.first>> \o rest]
Spec == Init /\ [][Next]_sc

LinesOK == sc.stage = 2 => (InScope(sc.d) => LinePreserved(sc.d))
NoDrift == sc.stage = 2 => CycleStable(sc.d)
=============================================================================
