SPECIFICATION Spec
CONSTANTS
  MaxFull = 4
  MaxCrit = 5
  MaxSoup = 5
INVARIANTS LexOK Emit
CHECK_DEADLOCK FALSE
