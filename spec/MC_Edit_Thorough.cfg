SPECIFICATION Spec
CONSTANTS
  Tags <- MCTags
  TagRank <- MCTagRank
  MaxObjects = 4
  MaxHeight = 2
  MaxGap = 1
  StableSort = TRUE
CONSTRAINT Bound
INVARIANTS EditLocal NewObjectsLast ReloadEqual
CHECK_DEADLOCK FALSE
