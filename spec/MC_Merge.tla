------------------------------ MODULE MC_Merge ------------------------------
(* Scenario generator for C08/C09: for EVERY reference site of the grammar (RefSitesData) and every
   overlap pattern between the module A and the merged-in module B, one abstract case (A, B).
   Each case is (i) checked inside TLC: the reference merge MergeWith(A, B, RenameSites) must
   satisfy MergeOK and RefsFollow, and (ii) exported as JSON; the harness renders both modules
   to A2L text, runs the real merge_modules and the observed result graph is judged by the same
   relations (Trace_Graph). *)
EXTENDS Graph, Json

CONSTANT RenameSites     \* sites at which the reference merge rewrites references (all = correct)

VARIABLE sc
AllButInstanceTypeRef == SiteIds \ {"INSTANCE.type_ref"}
Modes == {"plain", "conflict", "twin", "homonym", "premerge", "premerge_b", "premerge_ab", "owner_conflict", "owner_union",
          "owner_union_overlap", "conflict_owner_twin", "owner_union_a_only", "owner_union_b_only"}
Renamable(ns) == ns \notin ({"FUNCTION", "GROUP", "USER_RIGHTS", "MOD_COMMON", "VARIANT_CODING"} \cup LocalNs)
SeqRange(s) == {s[i] : i \in 1..Len(s)}

TK(s) == IF SiteTarget[s] \in LocalNs THEN {"-"} ELSE SeqRange(KindsOfNs[SiteTarget[s]])
ScenOf(s) ==
    {[site |-> s, mode |-> m, tk |-> tk, ak |-> ak, pos |-> p] :
        m \in Modes, tk \in TK(s), ak \in TK(s) \cup {"-"}, p \in (IF SiteIsList[s] THEN 1..3 ELSE {1})}

Valid(x) ==
    LET n == SiteTarget[x.site]  ok == NsOfKind[SiteOwner[x.site]] IN
    /\ IF n \in LocalNs THEN x.tk = "-" /\ x.ak = "-" /\ x.mode \in {"plain", "homonym"}
       ELSE /\ x.tk \in SeqRange(KindsOfNs[n])
            /\ IF x.mode \in {"conflict", "premerge", "premerge_b", "premerge_ab", "owner_conflict", "conflict_owner_twin"} THEN x.ak \in SeqRange(KindsOfNs[n]) /\ Renamable(n)
               ELSE x.ak = "-"
    /\ (x.pos > 1 => SiteIsList[x.site])
    /\ (x.mode = "owner_conflict" => Renamable(ok) /\ x.pos = 1)
    /\ (x.mode = "conflict_owner_twin" => Renamable(ok) /\ x.pos = 1 /\ x.ak = x.tk /\ SiteOwner[x.site] \notin UnionKinds)
    /\ (x.mode \in {"owner_union", "owner_union_overlap", "owner_union_a_only", "owner_union_b_only"} => SiteOwner[x.site] \in UnionKinds /\ x.pos = 1)
    /\ (x.mode = "owner_union_overlap" => SiteIsList[x.site])
    /\ (x.mode = "twin" => n \notin LocalNs)
    /\ (x.mode \in {"premerge", "premerge_b", "premerge_ab"} => x.pos = 1 /\ x.ak = x.tk)
    /\ (x.mode = "homonym" => x.pos = 1)

El(k, n, c, refs) == [kind |-> k, name |-> n, c |-> c, refs |-> refs, criteria |-> <<>>]
OwnerName(k) == IF k \in SingleKinds THEN "-" ELSE "o1"
HomonymKind(n) == IF n = "OBJECT" THEN "COMPU_METHOD" ELSE "MEASUREMENT"

Names3(pos) == CASE pos = 1 -> <<"t1", "x1", "y1">> [] pos = 2 -> <<"x1", "t1", "y1">> [] OTHER -> <<"x1", "y1", "t1">>

CaseOf(x) ==
    LET s == x.site
        n == SiteTarget[s]
        okind == SiteOwner[s]
        local == n \in LocalNs
        names == IF SiteIsList[s] /\ ~local THEN Names3(x.pos) ELSE <<"t1">>
        owner == [El(okind, OwnerName(okind), 10, <<<<s, names>>>>) EXCEPT
                    !.criteria = IF okind = "VARIANT_CODING" THEN <<"t1">> ELSE <<>>]
        targets == IF local THEN <<>>
                   ELSE <<El(x.tk, "t1", 20, <<>>)>> \o
                        (IF SiteIsList[s] THEN <<El(x.tk, "x1", 21, <<>>), El(x.tk, "y1", 22, <<>>)>> ELSE <<>>)
        hk == HomonymKind(n)
        \* B may itself contain names of the form X.MERGE (e.g. it is the product of an earlier merge)
        bextra == IF x.mode = "homonym" THEN <<El(hk, "t1", 32, <<>>)>>
                  ELSE IF x.mode = "premerge_b" THEN <<El(x.tk, "t1.MERGE", 37, <<>>)>>
                  ELSE IF x.mode = "premerge_ab" THEN <<El(x.tk, "t1.MERGE2", 38, <<>>)>> ELSE <<>>
        a == CASE x.mode = "plain" -> <<>>
               [] x.mode = "conflict" -> <<El(x.ak, "t1", 30, <<>>)>>
               [] x.mode = "twin" -> <<El(x.tk, "t1", 20, <<>>)>>
               [] x.mode = "homonym" -> <<El(hk, "t1", 31, <<>>)>>
               [] x.mode = "premerge" -> <<El(x.ak, "t1", 30, <<>>), El(x.ak, "t1.MERGE", 33, <<>>)>>
               [] x.mode = "premerge_b" -> <<El(x.ak, "t1", 30, <<>>)>>
               [] x.mode = "premerge_ab" -> <<El(x.ak, "t1", 30, <<>>), El(x.ak, "t1.MERGE", 33, <<>>)>>
               [] x.mode = "owner_conflict" -> <<El(x.ak, "t1", 30, <<>>), El(okind, "o1", 35, <<>>)>>
               \* A holds an element with the text of B's owner; B's target collides with a different element of A: B's
               \* owner is not A's owner (it means another target) although the two read the same
               [] x.mode = "conflict_owner_twin" ->
                     <<El(x.ak, "t1", 30, <<>>)>> \o (IF SiteIsList[s] THEN <<El(x.tk, "x1", 21, <<>>), El(x.tk, "y1", 22, <<>>)>> ELSE <<>>) \o <<owner>>
               [] x.mode = "owner_union" -> <<El(x.tk, "z1", 34, <<>>), El(okind, "o1", 36, <<<<s, <<"z1">>>>>>)>>
               \* only one of the two owners of the same name holds a list at this site (the other one differs in its content)
               [] x.mode = "owner_union_a_only" -> <<El(x.tk, "z1", 34, <<>>), El(okind, "o1", 36, <<<<s, <<"z1">>>>>>)>>
               [] x.mode = "owner_union_b_only" -> <<El(okind, "o1", 36, <<>>)>>
               \* both owners hold t1 and y1 (identical twins in A), A's list has another member between them
               [] x.mode = "owner_union_overlap" ->
                     <<El(x.tk, "t1", 20, <<>>), El(x.tk, "y1", 22, <<>>), El(x.tk, "z1", 34, <<>>),
                       El(okind, "o1", 36, <<<<s, <<"t1", "z1", "y1">>>>>>)>>
    IN [id |-> x, A |-> a, B |-> IF x.mode = "owner_union_a_only" THEN <<El(okind, "o1", 10, <<>>)>> ELSE <<owner>> \o targets \o bextra]

\* abstract module -> module graph
FlatRefs(M) == UNION {UNION {{<<M[i].refs[j][1], M[i].kind, M[i].name, M[i].refs[j][2][k]>> :
                                 k \in 1..Len(M[i].refs[j][2])} : j \in 1..Len(M[i].refs)} : i \in 1..Len(M)}
Flat(M) == [elems |-> [i \in 1..Len(M) |-> <<NsOfKind[M[i].kind], M[i].kind, M[i].name, M[i].c>>],
            refs |-> SetToSeq(FlatRefs(M))]

\* two stages so that TLC's workers share the sites: pick a site, then a scenario of that site
Init == sc = [stage |-> 0]
Next == \/ sc.stage = 0 /\ \E s \in SiteIds : sc' = [stage |-> 1, site |-> s]
        \/ sc.stage = 1 /\ \E x \in {y \in ScenOf(sc.site) : Valid(y)} :
                               sc' = [stage |-> 2, site |-> x.site, mode |-> x.mode, tk |-> x.tk, ak |-> x.ak, pos |-> x.pos]
Spec == Init /\ [][Next]_sc

DesignOK ==
    sc.stage = 2 =>
    LET cs == CaseOf(sc)
        A == Flat(cs.A)  B == Flat(cs.B)
        R == MergeWith(A, B, RenameSites)
    IN MergeOK(A, B, R) /\ RefsFollow(A, B, R)
Emit == sc.stage = 2 => PrintT(<<"CASE", ToJson(CaseOf(sc))>>)
=============================================================================
