SPECIFICATION Spec
CONSTANTS
  Names <- MCNames5
  NameOrder <- MCNameOrder5
  GuardLast = TRUE
VIEW View
INVARIANTS Coherent Refines NoPanic UniqueNames RemovedAreGone
ACTION_CONSTRAINT EmitTransition
CHECK_DEADLOCK FALSE
