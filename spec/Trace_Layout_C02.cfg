SPECIFICATION TraceSpec
CONSTANTS
  Judge = {"C02"}
POSTCONDITION TraceAccepted
CHECK_DEADLOCK FALSE
