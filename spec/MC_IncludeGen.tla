---------------------------- MODULE MC_IncludeGen ----------------------------
(* C16, thorough tier: include trees generated from patterns instead of the eight named shapes of
   MC_Include.  A file is described by a pattern over {"e", "i"} (element / include); the main file
   takes any pattern of up to three items, every include of the main file any pattern of up to two
   items, every include of those one of <<e>>, <<e, e>>, <<i>> (a fourth level holding one element).
   Files of one level share their placement; all directives of a case share quoting and separator.
   Element ids are assigned in the order of the flattened text, file names by path.  The writer model
   of Include.tla is checked for every generated tree. *)
EXTENDS Include, Json, FiniteSets

VARIABLE sc
Places == {"same", "sub", "subsub"}
P1 == {<<"e">>, <<"i">>, <<"e", "i">>, <<"i", "e">>, <<"i", "i">>, <<"e", "i", "e">>, <<"i", "e", "i">>}
P2 == {<<"e">>, <<"i">>, <<"e", "i">>, <<"i", "e">>, <<"i", "i">>, <<>>}
P3 == {<<"e">>, <<"e", "e">>, <<"i">>}

NumI(p) == Cardinality({k \in 1..Len(p) : p[k] = "i"})
\* the k-th include of pattern p is its j-th item
IncIndex(p, j) == Cardinality({k \in 1..j : p[k] = "i"})

\* tree from the patterns: c2 = Seq of level-2 patterns (one per include of the main file),
\* c3 = Seq of Seq of level-3 patterns
Name(path) == LET RECURSIVE str(_)
                  str(s) == IF s = <<>> THEN "" ELSE "_" \o ToString(Head(s)) \o str(Tail(s))
              IN "inc" \o str(path) \o ".a2l"
Leaf(path, place, q, s) == [name |-> Name(path), place |-> place, quoted |-> q, sep |-> s, items |-> <<[k |-> "e", id |-> 0]>>]
L3(path, pat, pl, q, s) ==
    [name |-> Name(path), place |-> pl[3], quoted |-> q, sep |-> s,
     items |-> [j \in 1..Len(pat) |-> IF pat[j] = "e" THEN [k |-> "e", id |-> 0]
                                      ELSE [k |-> "inc", f |-> Leaf(Append(path, j), pl[3], q, s)]]]
L2(path, pat, pats3, pl, q, s) ==
    [name |-> Name(path), place |-> pl[2], quoted |-> q, sep |-> s,
     items |-> [j \in 1..Len(pat) |-> IF pat[j] = "e" THEN [k |-> "e", id |-> 0]
                                      ELSE [k |-> "inc", f |-> L3(Append(path, j), pats3[IncIndex(pat, j)], pl, q, s)]]]
Main(pat, pats2, pats3, pl, q, s) ==
    [name |-> "main.a2l", place |-> "same", quoted |-> TRUE, sep |-> "/",
     items |-> [j \in 1..Len(pat) |-> IF pat[j] = "e" THEN [k |-> "e", id |-> 0]
                                      ELSE [k |-> "inc", f |-> [L2(<<j>>, pats2[IncIndex(pat, j)], pats3[IncIndex(pat, j)], pl, q, s) EXCEPT !.place = pl[1]]]]]

\* element ids in the order of the flattened text
RECURSIVE Renum(_, _)
RenumItems(items, n) ==
    LET RECURSIVE go(_, _, _)
        go(rest, acc, m) == IF rest = <<>> THEN [items |-> acc, n |-> m]
                            ELSE LET it == Head(rest) IN
                                 IF it.k = "e" THEN go(Tail(rest), Append(acc, [k |-> "e", id |-> m]), m + 1)
                                 ELSE LET r == Renum(it.f, m) IN go(Tail(rest), Append(acc, [k |-> "inc", f |-> r.f]), r.n)
    IN go(items, <<>>, n)
Renum(f, n) == LET r == RenumItems(f.items, n) IN [f |-> [f EXCEPT !.items = r.items], n |-> r.n]

\* an include file that contributes no element leaves no trace in the model
RECURSIVE HasEmptyInclude(_)
HasEmptyInclude(f) == \E j \in 1..Len(f.items) : f.items[j].k = "inc" /\ (Flatten(f.items[j].f) = <<>> \/ HasEmptyInclude(f.items[j].f))

Seqs(S, n) == [1..n -> S]
Init == sc = [stage |-> 0]
Next == \/ sc.stage = 0 /\ \E p \in P1 : sc' = [stage |-> 1, p |-> p]
        \/ sc.stage = 1 /\ \E p2 \in Seqs(P2, NumI(sc.p)) : sc' = [stage |-> 2, p |-> sc.p, p2 |-> p2]
        \/ sc.stage = 2 /\ \E p3 \in [1..NumI(sc.p) -> Seqs(P3, 2)], pl \in Seqs(Places, 3), q \in BOOLEAN :
               LET f == Renum(Main(sc.p, sc.p2, p3, pl, q, IF q THEN "/" ELSE "\\"), 1).f IN
               sc' = [stage |-> 3, fam |-> "shape", sh |-> IF HasEmptyInclude(f) THEN "empty_inc" ELSE "generated", f |-> f]
Spec == Init /\ [][Next]_sc

IdealOK == sc.stage = 3 => (Flatten(sc.f) = <<>> \/ ReloadEqualIdeal(sc.f))
ImplOK == sc.stage = 3 => (ReloadEqualImpl(sc.f) /\ (sc.sh # "empty_inc" => DirectivesKept(sc.f)))
Emit == sc.stage = 3 =>
          PrintT(<<"CASE", ToJson([fam |-> "shape", sh |-> sc.sh, f |-> sc.f, flat |-> Flatten(sc.f), main |-> MainItems(sc.f)])>>)
=============================================================================
