SPECIFICATION MCSpec
CONSTANTS
  Kinds <- MCKinds
  KindRank <- MCKindRank
  MaxUid = 2147483647
  CompactAt = 1073741824
  Compact = TRUE
  SortKindOrder <- MCSortKindOrder
  WithSortFull = FALSE
  Wrap = FALSE
  MaxInit = 2
  MaxElems = 3
  UidBound = 2147483647
  NewNames = {1}
  MergeLines = {7}
  UidBases = {1073741820, 1073741822, 1073741823}
VIEW View
CONSTRAINT BoundedHi
INVARIANTS NoPanic UidsBounded
PROPERTIES SortStepIdeal InsertKeepsOrder
ACTION_CONSTRAINT EmitTransition
CHECK_DEADLOCK FALSE
