SPECIFICATION Spec
CONSTANTS
  CommentHeightAware = TRUE
  N = 4
INVARIANTS LinesOK NoDrift
CHECK_DEADLOCK FALSE
