SPECIFICATION TraceSpec
INVARIANTS Judge
POSTCONDITION TraceAccepted
CHECK_DEADLOCK FALSE
