--------------------------- MODULE Trace_ItemList ---------------------------
(* Trace validation (B3): histories recorded from the real ItemList are replayed through the
   actions of ItemList.tla.  Every event carries the operation with its arguments, the value it
   returned and the complete observation of the list afterwards; an event is accepted only if the
   specification, stepped with the same arguments, yields the same return value and observation.
   Several histories are concatenated, separated by "reset" events. *)
EXTENDS ItemList, Json, IOUtils

Rec == ndJsonDeserialize(IOEnv.TRACE)

TraceNameOrder == Rec[1].alphabet
TraceNames == Range(TraceNameOrder)

VARIABLE l
tvars == <<vars, l>>

Ev == Rec[l]

\* the logged observation must equal the specification's observation of the successor state
Matches ==
    /\ Ev.panic = FALSE
    /\ Ev.ret = iret'
    /\ Ev.obs.order = ideal'
    /\ DOMAIN Ev.obs.idx = Range(ideal')
    /\ \A n \in Range(ideal') : Ev.obs.idx[n] = PosOf(ideal', n)

Step(name, res, ires) ==
    /\ l <= Len(Rec)
    /\ Ev.ev = name
    /\ Apply(res, ires, [op |-> name])
    /\ Matches
    /\ l' = l + 1

AsSet(s) == Range(s)

TReset == /\ l <= Len(Rec) /\ Ev.ev = "reset"
          /\ items' = <<>> /\ map' = EmptyMap /\ ideal' = <<>>
          /\ ret' = None /\ iret' = None /\ panic' = FALSE /\ last' = [op |-> "reset"]
          /\ l' = l + 1
TPush     == Step("push", M_Push(items, map, Ev.n), I_Push(ideal, Ev.n)) /\ Ev.n \notin Range(ideal)
TPop      == Step("pop", M_Pop(items, map), I_Pop(ideal))
TSwapRem  == Step("swap_remove", M_SwapRemove(items, map, Ev.key), I_SwapRemove(ideal, Ev.key))
TSwapIdx  == Step("swap_remove_idx", M_SwapRemoveIdx(items, map, Ev.i), I_SwapRemoveIdx(ideal, Ev.i))
TRetain   == Step("retain", M_Retain(items, map, AsSet(Ev.keep)), I_Retain(ideal, AsSet(Ev.keep)))
TTruncate == Step("truncate", M_Truncate(items, map, Ev.k), I_Truncate(ideal, Ev.k))
TClear    == Step("clear", M_Clear(items, map), I_Clear(ideal))
TRename   == Step("rename", M_Rename(items, map, Ev.i, Ev.n), I_Rename(ideal, Ev.i, Ev.n))
TExtend   == Step("extend", M_Extend(items, map, Ev.ns), I_Extend(ideal, Ev.ns))
TCollect  == Step("collect", M_Collect(Ev.ns), I_Collect(Ev.ns))
TSort     == Step("sort_by", M_Sort(items, map, RankOf(Ev.dir)), I_Sort(ideal, RankOf(Ev.dir)))

TraceInit == Init /\ l = 1
TraceNext == \/ TReset \/ TPush \/ TPop \/ TSwapRem \/ TSwapIdx \/ TRetain \/ TTruncate
             \/ TClear \/ TRename \/ TExtend \/ TCollect \/ TSort
TraceSpec == TraceInit /\ [][TraceNext]_tvars

TraceAccepted ==
    LET d == TLCGet("stats").diameter IN
    IF d - 1 = Len(Rec) THEN TRUE
    ELSE Print(<<"TRACE-REJECTED-AT", d, ToJson(Rec[d])>>, FALSE)
=============================================================================
