SPECIFICATION TraceSpec
CONSTANTS
  Kinds <- TraceKinds
  KindRank <- TraceKindRank
  MaxUid = 2147483647
  CompactAt = 1073741824
  Compact = TRUE
  Wrap = FALSE
  SortKindOrder <- TraceSortKindOrder
PROPERTIES SortStepIdeal InsertKeepsOrder
POSTCONDITION TraceAccepted
CHECK_DEADLOCK FALSE
