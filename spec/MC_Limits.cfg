SPECIFICATION Spec
INVARIANTS TableOK Emit
CHECK_DEADLOCK FALSE
