----------------------------- MODULE ItemList -----------------------------
(***************************************************************************)
(* a2lfile::ItemList<T> (a2lfile/src/itemlist.rs): an ordered list of      *)
(* named items plus a name -> position index.                              *)
(*                                                                         *)
(* Two layers:                                                             *)
(*   ideal  - the list is a duplicate-free sequence of names; every        *)
(*            operation is a pure function on sequences (what C13 states)  *)
(*   impl   - `items` (the Vec) and `map` (the HashMap), every mutator     *)
(*            written the way the Rust code does it, one TLA+ operator per *)
(*            Rust method, including the index arithmetic that can panic   *)
(*                                                                         *)
(* The product of both layers is explored; `Refines` says the impl layer   *)
(* is observationally equal to the ideal one after every operation.        *)
(* Positions are 0-based as in the code; sequences are 1-based TLA+.       *)
(***************************************************************************)
EXTENDS Naturals, Sequences, FiniteSets, TLC

CONSTANTS Names,      \* the name alphabet (strings)
          NameOrder,  \* Seq(Names): the alphabet in ascending order (TLC cannot compare strings)
          GuardLast   \* TRUE: swap_remove* skip the re-insert when the removed
                      \* element was the last one (code after the D8 fix);
                      \* FALSE: the pinned code, which indexes items[len]

VARIABLES items,  \* impl: Seq(Names)             (self.items, by name)
          map,    \* impl: [subset of Names -> Nat] (self.map)
          ideal,  \* ideal layer: Seq(Names)
          ret,    \* value returned by the last operation (impl layer)
          iret,   \* value returned by the last operation (ideal layer)
          panic,  \* TRUE once an operation of the impl layer has panicked
          last    \* [op, args] of the last operation (history; hidden by VIEW)

vars == <<items, map, ideal, ret, iret, panic, last>>

None == "-"                                   \* Option::None / unit
Range(s) == {s[i] : i \in 1..Len(s)}
NoDup(s) == \A i, j \in 1..Len(s) : i # j => s[i] # s[j]
EmptyMap == [n \in {} |-> 0]
MapPut(m, k, v) == [n \in DOMAIN m \cup {k} |-> IF n = k THEN v ELSE m[n]]
MapDel(m, k) == [n \in DOMAIN m \ {k} |-> m[n]]
Rebuild(s) == [n \in Range(s) |-> (CHOOSE i \in 1..Len(s) : s[i] = n /\ \A j \in 1..Len(s) : s[j] = n => j <= i) - 1]
   \* `for (idx,item) in enumerate { map.insert(key, idx) }`: the last occurrence wins
SelectSeqIn(s, S) == SelectSeq(s, LAMBDA x : x \in S)
VecSwapRemove(s, i) ==          \* Vec::swap_remove(i-1), 1-based i, requires i <= Len(s)
    LET n == Len(s) IN
    IF i = n THEN SubSeq(s, 1, n - 1)
    ELSE [k \in 1..(n - 1) |-> IF k = i THEN s[n] ELSE s[k]]

(***************************************************************************)
(* Ideal layer                                                             *)
(***************************************************************************)
PosOf(s, n) == IF n \in Range(s) THEN (CHOOSE i \in 1..Len(s) : s[i] = n) - 1 ELSE None

I_Push(s, n)          == [s |-> Append(s, n), r |-> None]
I_Pop(s)              == IF s = <<>> THEN [s |-> s, r |-> None]
                         ELSE [s |-> SubSeq(s, 1, Len(s) - 1), r |-> s[Len(s)]]
I_SwapRemoveIdx(s, i) == IF i < Len(s) THEN [s |-> VecSwapRemove(s, i + 1), r |-> s[i + 1]]
                         ELSE [s |-> s, r |-> None]
I_SwapRemove(s, k)    == IF k \in Range(s) THEN I_SwapRemoveIdx(s, PosOf(s, k))
                         ELSE [s |-> s, r |-> None]
I_Retain(s, S)        == [s |-> SelectSeqIn(s, S), r |-> None]
I_Truncate(s, k)      == [s |-> IF k < Len(s) THEN SubSeq(s, 1, k) ELSE s, r |-> None]
I_Clear(s)            == [s |-> <<>>, r |-> None]
RenIn(s, x, n) == [i \in 1..Len(s) |-> IF s[i] = x THEN n ELSE s[i]]
I_RetainRename(s, S, x, n) == [s |-> RenIn(SelectSeqIn(s, S), x, n), r |-> None]
I_Rename(s, i, n)     == [s |-> IF i < Len(s) THEN [s EXCEPT ![i + 1] = n] ELSE s, r |-> None]
I_Extend(s, t)        == [s |-> s \o t, r |-> None]
I_Collect(t)          == [s |-> t, r |-> None]
\* sort_by with a total order on names given as a ranking function
SortedBy(s, rank) == [i \in 1..Len(s) |->
                        CHOOSE n \in Range(s) : Cardinality({m \in Range(s) : rank[m] < rank[n]}) = i - 1]
I_Sort(s, rank)       == [s |-> IF s = <<>> THEN s ELSE SortedBy(s, rank), r |-> None]

(***************************************************************************)
(* Impl layer: one operator per Rust method.  A result is                  *)
(* [items, map, r, p] with p = TRUE if the method would panic.             *)
(***************************************************************************)
M_Push(it, m, n) ==
    [items |-> Append(it, n),
     map   |-> IF n \in DOMAIN m THEN m ELSE MapPut(m, n, Len(it)),   \* entry().or_insert()
     r |-> None, p |-> FALSE]

M_Pop(it, m) ==
    IF it = <<>> THEN [items |-> it, map |-> m, r |-> None, p |-> FALSE]
    ELSE LET x == it[Len(it)] IN
         [items |-> SubSeq(it, 1, Len(it) - 1), map |-> MapDel(m, x), r |-> x, p |-> FALSE]

\* shared tail of swap_remove / swap_remove_idx: `self.map.insert(self.items[index].get_name(), index)`
Reinsert(it2, m2, index, r) ==
    IF index < Len(it2)
    THEN [items |-> it2, map |-> MapPut(m2, it2[index + 1], index), r |-> r, p |-> FALSE]
    ELSE IF GuardLast
         THEN [items |-> it2, map |-> m2, r |-> r, p |-> FALSE]
         ELSE [items |-> it2, map |-> m2, r |-> r, p |-> TRUE]     \* items[len] : index out of bounds

M_SwapRemove(it, m, k) ==
    IF k \notin DOMAIN m THEN [items |-> it, map |-> m, r |-> None, p |-> FALSE]
    ELSE LET index == m[k] IN
         IF index >= Len(it) THEN [items |-> it, map |-> MapDel(m, k), r |-> None, p |-> TRUE] \* Vec::swap_remove panics
         ELSE Reinsert(VecSwapRemove(it, index + 1), MapDel(m, k), index, it[index + 1])

M_SwapRemoveIdx(it, m, index) ==
    IF index < Len(it)
    THEN LET x == it[index + 1] IN Reinsert(VecSwapRemove(it, index + 1), MapDel(m, x), index, x)
    ELSE [items |-> it, map |-> m, r |-> None, p |-> FALSE]

M_Retain(it, m, S) ==
    LET kept == SelectSeqIn(it, S) IN [items |-> kept, map |-> Rebuild(kept), r |-> None, p |-> FALSE]

\* retain with a predicate that renames an item it keeps (the predicate receives &mut T): the map is built from the names
\* the items have when the predicate returns
M_RetainRename(it, m, S, x, n) ==
    LET kept == RenIn(SelectSeqIn(it, S), x, n) IN [items |-> kept, map |-> Rebuild(kept), r |-> None, p |-> FALSE]

M_Truncate(it, m, k) ==
    IF k < Len(it) THEN LET t == SubSeq(it, 1, k) IN [items |-> t, map |-> Rebuild(t), r |-> None, p |-> FALSE]
    ELSE [items |-> it, map |-> m, r |-> None, p |-> FALSE]

M_Clear(it, m) == [items |-> <<>>, map |-> EmptyMap, r |-> None, p |-> FALSE]

M_Rename(it, m, i, n) ==
    IF i < Len(it)
    THEN [items |-> [it EXCEPT ![i + 1] = n], map |-> MapPut(MapDel(m, it[i + 1]), n, i), r |-> None, p |-> FALSE]
    ELSE [items |-> it, map |-> m, r |-> None, p |-> FALSE]

RECURSIVE M_Extend(_, _, _)
M_Extend(it, m, t) ==
    IF t = <<>> THEN [items |-> it, map |-> m, r |-> None, p |-> FALSE]
    ELSE LET one == M_Push(it, m, Head(t)) IN M_Extend(one.items, one.map, Tail(t))

M_Collect(t) == M_Extend(<<>>, EmptyMap, t)

M_Sort(it, m, rank) ==
    LET t == IF it = <<>> THEN it ELSE SortedBy(it, rank) IN
    [items |-> t, map |-> Rebuild(t), r |-> None, p |-> FALSE]

(***************************************************************************)
(* Observation (what the public API shows): get/index/contains_key for     *)
(* every name, iteration order, len, first, last, keys                     *)
(***************************************************************************)
ObsImpl(it, m)  == [order |-> it, idx |-> m]
ObsIdeal(s)     == [order |-> s, idx |-> [n \in Range(s) |-> PosOf(s, n)]]

Coherent == /\ DOMAIN map = Range(items)
            /\ \A i \in 1..Len(items) : map[items[i]] = i - 1
Refines  == ~panic => /\ ObsImpl(items, map) = ObsIdeal(ideal)
                      /\ ret = iret
NoPanic  == ~panic
UniqueNames == NoDup(ideal)            \* the precondition is maintained by the generator

(***************************************************************************)
(* State machine                                                           *)
(***************************************************************************)
Init == /\ items = <<>> /\ map = EmptyMap /\ ideal = <<>>
        /\ ret = None /\ iret = None /\ panic = FALSE
        /\ last = [op |-> "new"]

Apply(res, ires, l) ==
    /\ ~panic
    /\ items' = res.items /\ map' = res.map /\ ret' = res.r /\ panic' = res.p
    /\ ideal' = ires.s /\ iret' = ires.r
    /\ last' = l

Fresh == Names \ Range(ideal)
\* all duplicate-free sequences over a set
SeqsOver(S) == UNION {{t \in [1..k -> S] : NoDup(t)} : k \in 0..Cardinality(S)}
Ranks == {"asc", "desc"}
RankOf(dir) == [n \in Names |-> LET i == CHOOSE k \in 1..Len(NameOrder) : NameOrder[k] = n
                                 IN IF dir = "asc" THEN i ELSE Len(NameOrder) + 1 - i]

Push         == \E n \in Fresh : Apply(M_Push(items, map, n), I_Push(ideal, n), [op |-> "push", n |-> n])
Pop          == \E x \in {0} : Apply(M_Pop(items, map), I_Pop(ideal), [op |-> "pop"])
SwapRemove   == \E k \in Names : Apply(M_SwapRemove(items, map, k), I_SwapRemove(ideal, k), [op |-> "swap_remove", key |-> k])
SwapRemoveIdx == \E i \in 0..(Len(items) + 1) :
                    Apply(M_SwapRemoveIdx(items, map, i), I_SwapRemoveIdx(ideal, i), [op |-> "swap_remove_idx", i |-> i])
Retain       == \E S \in SUBSET Names : Apply(M_Retain(items, map, S), I_Retain(ideal, S), [op |-> "retain", keep |-> S])
RetainRename == \E S \in SUBSET Names : \E x \in S \cap Range(ideal) : \E n \in Fresh :
                    Apply(M_RetainRename(items, map, S, x, n), I_RetainRename(ideal, S, x, n),
                          [op |-> "retain_rename", keep |-> S, x |-> x, n |-> n])
Truncate     == \E k \in 0..(Len(items) + 1) :
                    Apply(M_Truncate(items, map, k), I_Truncate(ideal, k), [op |-> "truncate", k |-> k])
Clear        == \E x \in {0} : Apply(M_Clear(items, map), I_Clear(ideal), [op |-> "clear"])
Rename       == \E i \in 0..(Len(items) + 1) :
                  \E n \in (Fresh \cup (IF i < Len(ideal) THEN {ideal[i + 1]} ELSE {})) :
                    Apply(M_Rename(items, map, i, n), I_Rename(ideal, i, n), [op |-> "rename", i |-> i, n |-> n])
Extend       == \E t \in SeqsOver(Fresh) :
                    Apply(M_Extend(items, map, t), I_Extend(ideal, t), [op |-> "extend", ns |-> t])
Collect      == \E t \in SeqsOver(Names) :
                    Apply(M_Collect(t), I_Collect(t), [op |-> "collect", ns |-> t])
SortBy       == \E d \in Ranks :
                    Apply(M_Sort(items, map, RankOf(d)), I_Sort(ideal, RankOf(d)), [op |-> "sort_by", dir |-> d])

Next == \/ Push \/ Pop \/ SwapRemove \/ SwapRemoveIdx \/ Retain \/ RetainRename \/ Truncate
        \/ Clear \/ Rename \/ Extend \/ Collect \/ SortBy

Spec == Init /\ [][Next]_vars

\* the ideal list never changes length by more than the operation says, and names removed
\* are unreachable afterwards: direct consequences of Refines, stated for the reader
RemovedAreGone == \A n \in Names : n \notin Range(ideal) => (~panic => n \notin DOMAIN map)
=============================================================================
