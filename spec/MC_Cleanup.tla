----------------------------- MODULE MC_Cleanup -----------------------------
(* Scenario generator for C10: for every reference site whose target can be a helper element
   (GROUP, FUNCTION, COMPU_METHOD, conversion tables, UNIT, RECORD_LAYOUT) a module in which a
   helper is referenced ONLY through that site, plus chains and cycles of SUB_GROUP / SUB_FUNCTION /
   REF_UNIT, unused helpers, dangling references and groups whose only member is of a given object
   kind.  Each case is checked inside TLC (the reference cleanup IdealCleanup must satisfy CleanupOK
   and be idempotent) and exported for execution on the real cleanup(). *)
EXTENDS Graph, Json

VARIABLE sc
SeqRange(s) == {s[i] : i \in 1..Len(s)}
HelperNs == {NsOfKind[k] : k \in HelperKinds}
El(k, n, c, refs) == [kind |-> k, name |-> n, c |-> c, refs |-> refs, criteria |-> <<>>]
OwnerName(k) == IF k \in SingleKinds THEN "-" ELSE "o1"

\* what keeps the owner itself alive (an owner that is a helper must be referenced / non-empty)
Support(okind, oname) ==
    CASE okind = "COMPU_METHOD" -> [extra |-> <<El("MEASUREMENT", "m0", 50, <<<<"MEASUREMENT.conversion", <<oname>>>>>>)>>, own |-> <<>>]
      [] okind = "UNIT" -> [extra |-> <<El("COMPU_METHOD", "cm0", 51, <<<<"COMPU_METHOD/REF_UNIT.unit", <<oname>>>>>>),
                                        El("MEASUREMENT", "m0", 50, <<<<"MEASUREMENT.conversion", <<"cm0">>>>>>)>>, own |-> <<>>]
      [] okind = "GROUP" -> [extra |-> <<El("MEASUREMENT", "m0", 50, <<>>)>>, own |-> <<<<"GROUP/REF_MEASUREMENT.identifier_list", <<"m0">>>>>>]
      [] okind = "FUNCTION" -> [extra |-> <<El("MEASUREMENT", "m0", 50, <<>>)>>, own |-> <<<<"FUNCTION/IN_MEASUREMENT.identifier_list", <<"m0">>>>>>]
      [] OTHER -> [extra |-> <<>>, own |-> <<>>]

SiteCases ==
    UNION {{[fam |-> "site", site |-> s, hk |-> hk, mode |-> m, supported |-> sup] :
              hk \in (SeqRange(KindsOfNs[SiteTarget[s]]) \cap HelperKinds),
              m \in {"onlyref", "dangling", "plus_unused"},
              sup \in BOOLEAN} :
           s \in {x \in SiteIds : SiteTarget[x] \in HelperNs}}
ChainKinds == {"GROUP", "FUNCTION", "UNIT"}
\* rev: the chain elements appear in the file in reverse order (referenced before referrer)
\* head: the first element of the chain is referenced from outside (it must stay whatever happens to the elements
\* it refers to)
ChainCases == {[fam |-> "chain", kind |-> k, len |-> n, cyc |-> cy, leaf |-> lf, rev |-> rv, head |-> hd] :
                  k \in ChainKinds, n \in 1..5, cy \in BOOLEAN, lf \in {"member", "empty", "referenced"}, rv \in BOOLEAN,
                  hd \in BOOLEAN}
MemberCases == {[fam |-> "member", gk |-> gk, mk |-> mk] :
                  gk \in {"GROUP", "FUNCTION"}, mk \in {"AXIS_PTS", "BLOB", "CHARACTERISTIC", "INSTANCE", "MEASUREMENT"}}

\* a group / function with two member lists: every name of one list is dangling, the other list is fine
MemberSitesOf(k) == IF k = "GROUP" THEN {"GROUP/REF_CHARACTERISTIC.identifier_list", "GROUP/REF_MEASUREMENT.identifier_list"}
                    ELSE {"FUNCTION/IN_MEASUREMENT.identifier_list", "FUNCTION/LOC_MEASUREMENT.identifier_list",
                          "FUNCTION/OUT_MEASUREMENT.identifier_list", "FUNCTION/DEF_CHARACTERISTIC.identifier_list",
                          "FUNCTION/REF_CHARACTERISTIC.identifier_list"}
\* held: the group / function is referenced from outside, so it stays even if cleanup emptied it
MixedCases == UNION {UNION {UNION {{[fam |-> "mixed", gk |-> gk, bad |-> b, good |-> g, held |-> h] : g \in MemberSitesOf(gk) \ {b}} :
                                      b \in MemberSitesOf(gk)} : gk \in {"GROUP", "FUNCTION"}} : h \in BOOLEAN}
\* a MODULE without any measurement / calibration object (a "structure" module): USER_RIGHTS holds a GROUP, the GROUP
\* holds FUNCTIONs directly, through a sub-group or through a sub-function; one FUNCTION and one GROUP are unused
NoObjCases == {[fam |-> "noobj", via |-> v, unused |-> u] : v \in {"function_list", "sub_function", "sub_group"}, u \in BOOLEAN}
\* a group / function all of whose members dangle (it is empty once they are dropped), alone or as the only sub-group /
\* sub-function of a parent; held: referenced from outside
AllDanglingCases == UNION {{[fam |-> "alldangling", gk |-> gk, bad |-> b, held |-> h, parent |-> p] : b \in MemberSitesOf(gk), h \in BOOLEAN, p \in BOOLEAN} :
                             gk \in {"GROUP", "FUNCTION"}}
IsMeasSite(s) == s \in {"GROUP/REF_MEASUREMENT.identifier_list", "FUNCTION/IN_MEASUREMENT.identifier_list",
                        "FUNCTION/LOC_MEASUREMENT.identifier_list", "FUNCTION/OUT_MEASUREMENT.identifier_list"}

ChainSite(k) == CASE k = "GROUP" -> "GROUP/SUB_GROUP.identifier_list"
                  [] k = "FUNCTION" -> "FUNCTION/SUB_FUNCTION.identifier_list"
                  [] OTHER -> "UNIT/REF_UNIT.unit"
MemberSite(k) == IF k = "GROUP" THEN "GROUP/REF_CHARACTERISTIC.identifier_list" ELSE "FUNCTION/REF_CHARACTERISTIC.identifier_list"
NameI(i) == CASE i = 1 -> "h1" [] i = 2 -> "h2" [] i = 3 -> "h3" [] i = 4 -> "h4" [] OTHER -> "h5"

ModuleOf(x) ==
    IF x.fam = "site" THEN
        LET s == x.site
            okind == SiteOwner[s]
            oname == OwnerName(okind)
            sup == IF x.supported THEN Support(okind, oname) ELSE [extra |-> <<>>, own |-> <<>>]
            tname == IF x.mode = "dangling" THEN "missing1" ELSE "h1"
            owner == [El(okind, oname, 10, <<<<s, <<tname>>>>>> \o sup.own) EXCEPT
                         !.criteria = IF okind = "VARIANT_CODING" THEN <<"crit1">> ELSE <<>>]
        IN <<owner, El(x.hk, "h1", 20, <<>>)>> \o sup.extra
           \o (IF x.mode = "plus_unused" THEN <<El(x.hk, "unused1", 21, <<>>)>> ELSE <<>>)
    ELSE IF x.fam = "chain" THEN
        \* h1 -> h2 -> ... -> h_len (-> h1 if cyc); the last one has a member / is empty / is referenced
        LET s == ChainSite(x.kind)
            link(i) == IF i < x.len THEN <<<<s, <<NameI(i + 1)>>>>>> ELSE IF x.cyc THEN <<<<s, <<"h1">>>>>> ELSE <<>>
            leafRefs == IF x.leaf = "member" /\ x.kind # "UNIT" THEN <<<<MemberSite(x.kind), <<"c0">>>>>> ELSE <<>>
            fwd == [i \in 1..x.len |-> El(x.kind, NameI(i), 20 + i, link(i) \o (IF i = x.len THEN leafRefs ELSE <<>>))]
            chain == IF x.rev THEN [i \in 1..x.len |-> fwd[x.len + 1 - i]] ELSE fwd
            refd == IF x.leaf = "referenced"
                    THEN IF x.kind = "GROUP" THEN <<El("USER_RIGHTS", "user1", 40, <<<<"USER_RIGHTS/REF_GROUP.identifier_list", <<NameI(x.len)>>>>>>)>>
                         ELSE IF x.kind = "FUNCTION" THEN <<El("MEASUREMENT", "m0", 50, <<<<"MEASUREMENT/FUNCTION_LIST.name_list", <<NameI(x.len)>>>>>>)>>
                         ELSE <<El("COMPU_METHOD", "cm0", 51, <<<<"COMPU_METHOD/REF_UNIT.unit", <<"h1">>>>>>),
                                El("MEASUREMENT", "m0", 50, <<<<"MEASUREMENT.conversion", <<"cm0">>>>>>)>>
                    ELSE <<>>
            headRef == IF ~x.head \/ x.kind = "UNIT" THEN <<>>
                       ELSE IF x.kind = "GROUP" THEN <<El("USER_RIGHTS", "user0", 41, <<<<"USER_RIGHTS/REF_GROUP.identifier_list", <<"h1">>>>>>)>>
                       ELSE <<El("MEASUREMENT", "m1", 52, <<<<"MEASUREMENT/FUNCTION_LIST.name_list", <<"h1">>>>>>)>>
        IN chain \o refd \o headRef \o <<El("CHARACTERISTIC", "c0", 60, <<>>)>>
    ELSE IF x.fam = "noobj" THEN
        <<El("USER_RIGHTS", "user0", 41, <<<<"USER_RIGHTS/REF_GROUP.identifier_list", <<"g1">>>>>>)>>
        \o (IF x.via = "sub_group"
            THEN <<El("GROUP", "g1", 20, <<<<"GROUP/SUB_GROUP.identifier_list", <<"g2">>>>>>),
                   El("GROUP", "g2", 21, <<<<"GROUP/FUNCTION_LIST.name_list", <<"f1", "f2">>>>>>)>>
            ELSE <<El("GROUP", "g1", 20, <<<<"GROUP/FUNCTION_LIST.name_list", <<"f1">>>>>>)>>)
        \o <<El("FUNCTION", "f1", 30, IF x.via = "sub_function" THEN <<<<"FUNCTION/SUB_FUNCTION.identifier_list", <<"f2">>>>>> ELSE <<>>),
              El("FUNCTION", "f2", 31, <<>>)>>
        \o (IF x.unused THEN <<El("FUNCTION", "f_unused", 32, <<>>), El("GROUP", "g_unused", 22, <<>>)>> ELSE <<>>)
    ELSE IF x.fam = "alldangling" THEN
        <<El(x.gk, "g1", 20, <<<<x.bad, <<"missing1", "missing2">>>>>>), El("CHARACTERISTIC", "c0", 60, <<>>)>>
        \o (IF x.parent THEN <<El(x.gk, "p1", 21, <<<<ChainSite(x.gk), <<"g1">>>>>>)>> ELSE <<>>)
        \o (IF ~x.held THEN <<>>
            ELSE IF x.gk = "GROUP" THEN <<El("USER_RIGHTS", "user0", 41, <<<<"USER_RIGHTS/REF_GROUP.identifier_list", <<"g1">>>>>>)>>
            ELSE <<El("MEASUREMENT", "m1", 52, <<<<"MEASUREMENT/FUNCTION_LIST.name_list", <<"g1">>>>>>)>>)
    ELSE IF x.fam = "mixed" THEN
        <<El(x.gk, "g1", 20, <<<<x.bad, <<"missing1", "missing2">>>>, <<x.good, <<"x0">>>>>>),
          El(IF IsMeasSite(x.good) THEN "MEASUREMENT" ELSE "CHARACTERISTIC", "x0", 60, <<>>)>>
        \o (IF ~x.held THEN <<>>
            ELSE IF x.gk = "GROUP" THEN <<El("USER_RIGHTS", "user0", 41, <<<<"USER_RIGHTS/REF_GROUP.identifier_list", <<"g1">>>>>>)>>
            ELSE <<El("MEASUREMENT", "m1", 52, <<<<"MEASUREMENT/FUNCTION_LIST.name_list", <<"g1">>>>>>)>>)
    ELSE
        <<El(x.gk, "g1", 20, <<<<MemberSite(x.gk), <<"x0">>>>>>), El(x.mk, "x0", 60, <<>>)>>

FlatRefs(M) == UNION {UNION {{<<M[i].refs[j][1], M[i].kind, M[i].name, M[i].refs[j][2][k]>> :
                                 k \in 1..Len(M[i].refs[j][2])} : j \in 1..Len(M[i].refs)} : i \in 1..Len(M)}
Flat(M) == [elems |-> [i \in 1..Len(M) |-> <<NsOfKind[M[i].kind], M[i].kind, M[i].name, M[i].c>>],
            refs |-> SetToSeq(FlatRefs(M))]

Init == sc = [stage |-> 0]
Next == \/ sc.stage = 0 /\ \E f \in {"site", "chain", "member", "mixed", "noobj", "alldangling"} : sc' = [stage |-> 1, fam |-> f]
        \/ sc.stage = 1 /\ \E x \in (IF sc.fam = "site" THEN SiteCases ELSE IF sc.fam = "chain" THEN ChainCases
                                      ELSE IF sc.fam = "mixed" THEN MixedCases ELSE IF sc.fam = "noobj" THEN NoObjCases
                                      ELSE IF sc.fam = "alldangling" THEN AllDanglingCases ELSE MemberCases) :
                               sc' = [stage |-> 2, x |-> x]
Spec == Init /\ [][Next]_sc

DesignOK ==
    sc.stage = 2 =>
    LET G == Flat(ModuleOf(sc.x))
        R == IdealCleanup(G)
    IN CleanupOK(G, R) /\ CleanupIdempotent(R, IdealCleanup(R))
Emit == sc.stage = 2 => PrintT(<<"CASE", ToJson([id |-> sc.x, G |-> ModuleOf(sc.x)])>>)
=============================================================================
