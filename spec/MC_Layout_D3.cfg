SPECIFICATION Spec
CONSTANTS
  CommentHeightAware = FALSE
  N = 4
INVARIANTS LinesOK NoDrift
CHECK_DEADLOCK FALSE
