------------------------------ MODULE MC_Decode ------------------------------
(* C17 design check and case generator.
   rt    : every encoding x every text of 1..4 characters over {A, U+00E9, U+20AC, U+1F600} with an
           ASCII first character x 0..3 trailing spaces (every length residue mod 4):
           Load(Encode(e, d)) = d must hold in the specification (the heuristic itself is checked),
           and the case is exported for the real loader.
   bytes : every byte string of length 0..MaxLen over a byte alphabet that separates all branch
           conditions of the cascade; exported with the specification's decoding for comparison
           with the real decode_raw_bytes. *)
EXTENDS Decode, Json, FiniteSets

CONSTANT MaxLen
VARIABLE sc

Chars == {65, 233, 8364, 128512}
Alphabet == {0, 65, 128, 169, 191, 195, 216, 220, 226, 237, 240, 244, 254, 255}
Docs(n) == {d \in [1..n -> Chars] : d[1] = 65}
Pad(d, k) == d \o [i \in 1..k |-> 32]

Init == sc = [stage |-> 0]
Next == \/ sc.stage = 0 /\ \E e \in Encodings, n \in 1..4 : sc' = [stage |-> 1, fam |-> "rt", enc |-> e, n |-> n]
        \/ sc.stage = 0 /\ \E n \in 0..MaxLen, b \in Alphabet : sc' = [stage |-> 1, fam |-> "bytes", n |-> n, first |-> b]
        \/ sc.stage = 1 /\ sc.fam = "rt" /\ \E d \in Docs(sc.n), k \in 0..3 :
               sc' = [stage |-> 2, fam |-> "rt", enc |-> sc.enc, doc |-> Pad(d, k)]
        \/ sc.stage = 1 /\ sc.fam = "bytes" /\
               \E b \in (IF sc.n = 0 THEN {<<>>} ELSE {x \in [1..sc.n -> Alphabet] : x[1] = sc.first}) :
               sc' = [stage |-> 2, fam |-> "bytes", bytes |-> b]
Spec == Init /\ [][Next]_sc

RoundTripOK == (sc.stage = 2 /\ sc.fam = "rt") => RoundTrips(sc.enc, sc.doc)
Emit ==
    sc.stage = 2 =>
        IF sc.fam = "rt"
        THEN PrintT(<<"CASE", ToJson([fam |-> "rt", enc |-> sc.enc, doc |-> sc.doc, bytes |-> Encode(sc.enc, sc.doc),
                                      which |-> WhichEncoding(Encode(sc.enc, sc.doc))])>>)
        ELSE PrintT(<<"CASE", ToJson([fam |-> "bytes", bytes |-> sc.bytes, decoded |-> DecodeRaw(sc.bytes),
                                      which |-> WhichEncoding(sc.bytes)])>>)
=============================================================================
