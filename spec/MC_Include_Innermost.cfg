SPECIFICATION Spec
CONSTANTS
  Attribution = "innermost"
INVARIANTS ImplOK
CHECK_DEADLOCK FALSE
