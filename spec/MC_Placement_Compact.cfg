SPECIFICATION MCSpec
CONSTANTS
  Kinds <- MCKinds
  KindRank <- MCKindRank
  MaxUid = 63
  CompactAt = 16
  Compact = TRUE
  SortKindOrder <- MCSortKindOrder
  WithSortFull = FALSE
  Wrap = FALSE
  MaxInit = 2
  MaxElems = 4
  UidBound = 63
  NewNames = {1, 2}
  MergeLines = {7}
  UidBases = {0}
VIEW View
CONSTRAINT Bounded
INVARIANTS NoPanic UidsBounded
PROPERTIES SortStepIdeal InsertKeepsOrder
CHECK_DEADLOCK FALSE
