SPECIFICATION MCSpec
CONSTANTS
  Kinds <- MCKinds
  KindRank <- MCKindRank
  MaxUid = 31
  CompactAt = 16
  Compact = FALSE
  SortKindOrder <- MCSortKindOrder
  WithSortFull = FALSE
  Wrap = FALSE
  MaxInit = 2
  MaxElems = 3
  UidBound = 63
  NewNames = {1}
  MergeLines = {7}
  UidBases = {0}
VIEW View
CONSTRAINT Bounded
INVARIANTS NoPanic
CHECK_DEADLOCK FALSE
