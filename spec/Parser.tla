------------------------------- MODULE Parser -------------------------------
(***************************************************************************)
(* The block level of the A2L parser (generate_block_parser_generic and    *)
(* the taggeditem parser of a2lmacros/src/codegenerator/parser.rs, the     *)
(* file level of a2lfile/src/parser.rs), on top of the token level         *)
(* (ParserCore.tla) and of the IF_DATA interpreter (A2ml.tla).             *)
(***************************************************************************)
EXTENDS A2ml

(***************************************************************************)
(* blocks and keywords (generate_block_parser_generic, taggeditem parser)  *)
(***************************************************************************)
KidIndex(kids, tag) == {i \in 1..Len(kids) : kids[i].tag = tag}
KidTags(kids) == {kids[i].tag : i \in 1..Len(kids)}
KeywordKidTags(kids) == {kids[i].tag : i \in {j \in 1..Len(kids) : Elem[kids[j].tag].form = "keyword"}}

RECURSIVE ParseElem(_, _, _, _, _)
RECURSIVE ParseParams(_, _, _, _, _)
RECURSIVE ParseKids(_, _, _, _, _)

ParseParams(S, params, kids, ver, acc) ==
    IF params = <<>> THEN Ok(S, acc)
    ELSE LET p == Head(params)
             r == IF p.kind = "scalar" THEN ParseScalar(S, p.type, ver)
                  ELSE IF p.kind = "array" THEN ParseArray(S, p.type, p.n, ver, <<>>)
                  ELSE ParseSeq(S, p.fields,
                                IF Len(p.fields) = 1 /\ p.fields[1].type = "ident" THEN KeywordKidTags(kids) ELSE {},
                                ver, <<>>)
         IN IF ~r.ok THEN r ELSE ParseParams(r.S, Tail(params), kids, ver, Append(acc, r.v))

\* the loop over the optional sub-elements of a block (taggedstruct); acc = Seq([tag, node])
ParseKids(S, ctx, isBlockParent, ver, acc) ==
    LET kids == Elem[ctx.tag].kids
        n == NextTagOrComment(S)
    IN IF ~n.ok THEN n
       ELSE IF n.v.k = "cmt" THEN ParseKids(n.S, ctx, isBlockParent, ver, acc)
       ELSE IF n.v.k = "none" THEN Ok(n.S, acc)
       ELSE LET tag == n.v.tag  idx == KidIndex(kids, tag) IN
            IF idx = {}
            THEN IF isBlockParent
                 THEN LET h == HandleUnknown(n.S, ctx, tag, n.v.isBlock, KidTags(kids)) IN
                      IF ~h.ok THEN h ELSE ParseKids(h.S, ctx, isBlockParent, ver, acc)
                 ELSE \* a keyword parent (A2L_FILE) hands the tokens back (undo_get_token once or twice) and stops
                      Ok([n.S EXCEPT !.pos = @ - (IF n.v.isBlock THEN 2 ELSE 1)], acc)
            ELSE LET kd == kids[CHOOSE i \in idx : TRUE]
                     wantBlock == Elem[tag].form = "block"
                 IN IF wantBlock /\ ~n.v.isBlock THEN Err(n.S, "IncorrectBlockError", n.S.last)
                    ELSE IF ~wantBlock /\ n.v.isBlock THEN Err(n.S, "IncorrectKeywordError", n.S.last)
                    ELSE LET l1 == IF kd.since # 0 /\ ver < kd.since
                                   THEN Log(n.S, Diag("BlockRefTooNew", n.S.last, tag)) ELSE Ok(n.S, TRUE)
                         IN IF ~l1.ok THEN l1
                            ELSE LET S2 == IF kd.until # 0 /\ ver > kd.until
                                           THEN Warn(l1.S, Diag("BlockRefDeprecated", l1.S.last, tag)) ELSE l1.S
                                     c == ParseElem(S2, [tag |-> tag, line |-> n.v.line], n.v.isBlock, ver, 0)
                                 IN IF ~c.ok THEN c
                                    ELSE IF kd.many THEN ParseKids(c.S, ctx, isBlockParent, ver, Append(acc, c.v))
                                    ELSE LET dup == \E i \in 1..Len(acc) : acc[i].tag = tag
                                             l2 == IF dup THEN Log(c.S, Diag("InvalidMultiplicityTooMany", c.S.last, tag))
                                                   ELSE Ok(c.S, TRUE)
                                         IN IF ~l2.ok THEN l2
                                            ELSE \* the last occurrence wins
                                                 ParseKids(l2.S, ctx, isBlockParent, ver,
                                                           Append(SelectSeq(acc, LAMBDA x : x.tag # tag), c.v))

\* required sub-elements (multiplicity check after the loop)
RECURSIVE CheckRequired(_, _, _, _)
CheckRequired(S, kids, got, i) ==
    IF i > Len(kids) THEN Ok(S, TRUE)
    ELSE LET kd == kids[i]
             present == \E j \in 1..Len(got) : got[j].tag = kd.tag
         IN IF ~kd.req \/ present THEN CheckRequired(S, kids, got, i + 1)
            ELSE IF kd.many
                 THEN LET l == Log(S, Diag("InvalidMultiplicityNotPresent", S.last, kd.tag)) IN
                      IF ~l.ok THEN l ELSE CheckRequired(l.S, kids, got, i + 1)
                 ELSE Err(S, "InvalidMultiplicityNotPresent", S.last)

ParseElem(S, ctx, isBlock, ver, depth) ==
    LET tag == ctx.tag  el == Elem[tag] IN
    IF tag = "IF_DATA"
    THEN \* the content is interpreted by the definitions in force (A2ml.tla); params = <<valid, value tree>>
         LET r == IfDataAt(S) IN
         IF ~r.ok THEN r ELSE Ok(r.S, Node(tag, <<r.valid, r.v>>, <<>>))
    ELSE IF tag = "A2ML"
    THEN LET t == ExpectToken(S, "str") IN
         IF ~t.ok THEN t
         ELSE \* the text is handed to the A2ML parser; a text that is no usable definition (attribute a2mlok of the
              \* token, known to whoever built the document) is a recoverable problem: A2mlError
              LET bad == "a2mlok" \in DOMAIN Tok(t.v).a /\ ~Tok(t.v).a.a2mlok
                  l == IF bad THEN Log(t.S, Diag("A2mlError", t.S.last, "")) ELSE Ok(t.S, TRUE)
              IN IF ~l.ok THEN l
                 ELSE LET c == CloseBlock(l.S, tag) IN
                      \* a usable definition is in force from here on
                      IF ~c.ok THEN c ELSE Ok([c.S EXCEPT !.a2ml = @ \/ ~bad], Node(tag, <<Tok(t.v).v>>, <<>>))
    ELSE LET p == ParseParams(S, el.params, el.kids, ver, <<>>) IN
         IF ~p.ok THEN p
         ELSE LET k == IF el.kids = <<>> THEN Ok(p.S, <<>>) ELSE ParseKids(p.S, ctx, el.form = "block", ver, <<>>) IN
              IF ~k.ok THEN k
              ELSE LET q == CheckRequired(k.S, el.kids, k.v, 1) IN
                   IF ~q.ok THEN q
                   ELSE IF el.form = "block"
                        THEN LET c == CloseBlock(q.S, tag) IN
                             IF ~c.ok THEN c ELSE Ok(c.S, Node(tag, p.v, k.v))
                        ELSE Ok(q.S, Node(tag, p.v, k.v))

(***************************************************************************)
(* the file level (ParserState::parse_file, parse_version)                 *)
(***************************************************************************)
VersionOf(major, minor) ==
    IF major.val = 1 /\ minor.val \in {50, 51, 60, 61, 70, 71} THEN 100 + minor.val ELSE 0

\* returns [ok, S, v |-> version]; the cursor is always reset to the first token
ParseVersion(S0) ==
    IF S0.pos <= NTok
    THEN LET i == GetIdentifier(S0) IN
         IF i.ok /\ i.v = "ASAP2_VERSION"
         THEN LET v == ParseElem(i.S, [tag |-> "ASAP2_VERSION", line |-> Tok(S0.pos).line], FALSE, 171, 0)
                  back(S) == [S EXCEPT !.pos = 1]
              IN IF v.ok /\ VersionOf(v.v.params[1], v.v.params[2]) # 0
                 THEN Ok(back(v.S), VersionOf(v.v.params[1], v.v.params[2]))
                 ELSE LET l == Log(back(v.S), Diag(IF v.ok THEN "InvalidVersion" ELSE "MissingVersionInfo", -1, "")) IN
                      IF l.ok THEN Ok(l.S, 171) ELSE l
         ELSE LET S1 == [(IF i.ok THEN i.S ELSE i.S) EXCEPT !.pos = 1]
                  l == Log(S1, Diag("MissingVersionInfo", -1, "")) IN
              IF l.ok THEN Ok(l.S, 151) ELSE l
    ELSE LET l == Log(S0, Diag("MissingVersionInfo", -1, "")) IN IF l.ok THEN Ok(l.S, 151) ELSE l

\* the whole run: [ok, diags, tree] or [ok |-> FALSE, e, diags]
Run ==
    IF NTok = 0 THEN [ok |-> FALSE, e |-> [c |-> "EmptyFileError", line |-> 0], diags |-> <<>>]
    ELSE
    LET S0 == [pos |-> 1, last |-> 0, diags |-> <<>>, a2ml |-> FALSE]
        v == ParseVersion(S0)
    IN IF ~v.ok THEN [ok |-> FALSE, e |-> v.e, diags |-> v.S.diags]
       ELSE LET f == ParseElem(v.S, [tag |-> "A2L_FILE", line |-> Tok(1).line], FALSE, v.v, 0) IN
            IF ~f.ok THEN [ok |-> FALSE, e |-> f.e, diags |-> f.S.diags]
            ELSE IF f.S.pos <= NTok
                 THEN LET l == Log(f.S, Diag("AdditionalTokensError", f.S.last, Tok(f.S.pos).v)) IN
                      IF l.ok THEN [ok |-> TRUE, diags |-> l.S.diags, tree |-> f.v, ver |-> v.v]
                      ELSE [ok |-> FALSE, e |-> l.e, diags |-> f.S.diags]
                 ELSE [ok |-> TRUE, diags |-> f.S.diags, tree |-> f.v, ver |-> v.v]
(***************************************************************************)
(* load_fragment: the text is wrapped as `fragment "" <text> /end MODULE`  *)
(* and parsed as the content of a MODULE, lenient, as version 1.71; there  *)
(* is no version look-ahead and nothing behind /end MODULE is looked at    *)
(***************************************************************************)
RunFragment ==
    IF NTok = 0 THEN [ok |-> FALSE, e |-> [c |-> "UnexpectedEOF", line |-> 0], diags |-> <<>>]
    ELSE LET S0 == [pos |-> 1, last |-> 0, diags |-> <<>>, a2ml |-> FALSE]
             f == ParseElem(S0, [tag |-> "MODULE", line |-> Tok(1).line], TRUE, 171, 0)
         IN IF ~f.ok THEN [ok |-> FALSE, e |-> f.e, diags |-> f.S.diags]
            ELSE [ok |-> TRUE, diags |-> f.S.diags, tree |-> f.v, ver |-> 171]
=============================================================================
