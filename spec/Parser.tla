------------------------------- MODULE Parser -------------------------------
(***************************************************************************)
(* The A2L parser as a function of the token sequence, parametric in the   *)
(* grammar (module Grammar, generated from the frozen DSL).  This is a     *)
(* transcription of the code-generator templates                           *)
(* (a2lmacros/src/codegenerator/parser.rs) and of the hand-written helpers *)
(* in a2lfile/src/parser.rs - not of the 36 000 generated lines.           *)
(*                                                                         *)
(* A token is [t, v, line, a]: type, text, line, and lexical attributes    *)
(* computed independently of the library:                                  *)
(*    id  : a.digit (starts with a digit), a.long (> 1024 bytes)           *)
(*    num : a.fits (Seq of the integer types the literal fits), a.float,   *)
(*          a.val (its value if it is a small non-negative integer, else -1)*)
(* A parser state is S = [pos, last, diags]: cursor (1-based index of the  *)
(* next token), last_token_position, diagnostics logged so far.  Rewinding *)
(* the cursor (sequences, unknown tags, version look-ahead) restores       *)
(* neither `last` nor `diags`, exactly as in the code.                     *)
(*                                                                         *)
(* Every operator returns [ok, S, v] or [ok |-> FALSE, S, e |-> [c, line]].*)
(* Severity of every diagnostic site (C06):                                *)
(*    Log(S, d)      error_or_log: hard error in strict mode, else logged  *)
(*    Warn(S, d)     log_warning : logged in both modes (deprecations)     *)
(*    Err(S, c)      return Err  : hard error in both modes                *)
(***************************************************************************)
EXTENDS Integers, Sequences, FiniteSets, TLC, Grammar

\* The document under consideration and the parsing mode are state variables (so that one TLC run
\* can judge many documents); this module defines no behaviour of its own.
VARIABLES Doc,      \* Seq(token)
          Strict    \* BOOLEAN

Tok(i) == Doc[i]
NTok == Len(Doc)

Ok(S, v) == [ok |-> TRUE, S |-> S, v |-> v]
Err(S, c, line) == [ok |-> FALSE, S |-> S, e |-> [c |-> c, line |-> line]]
Diag(c, line, tag) == [c |-> c, line |-> line, tag |-> tag]
\* error_or_log
Log(S, d) == IF Strict THEN Err(S, d.c, d.line) ELSE Ok([S EXCEPT !.diags = Append(@, d)], TRUE)
\* log_warning
Warn(S, d) == [S EXCEPT !.diags = Append(@, d)]
Deprecations == {"BlockRefDeprecated", "EnumRefDeprecated"}

(***************************************************************************)
(* token level (parser.rs)                                                 *)
(***************************************************************************)
\* get_token
GetToken(S) ==
    IF S.pos <= NTok THEN Ok([S EXCEPT !.pos = @ + 1, !.last = Tok(S.pos).line], S.pos)
    ELSE Err(S, "UnexpectedEOF", S.last)

\* expect_token: comments are skipped
RECURSIVE ExpectToken(_, _)
ExpectToken(S, ttype) ==
    LET r == GetToken(S) IN
    IF ~r.ok THEN r
    ELSE IF Tok(r.v).t = "cmt" THEN ExpectToken(r.S, ttype)
    ELSE IF Tok(r.v).t # ttype THEN Err(r.S, "UnexpectedTokenType", r.S.last)
    ELSE r

\* get_identifier
GetIdentifier(S) ==
    LET r == ExpectToken(S, "id") IN
    IF ~r.ok THEN r
    ELSE LET tk == Tok(r.v) IN
         IF tk.a.digit \/ tk.a.long
         THEN LET l == Log(r.S, Diag("InvalidIdentifier", r.S.last, tk.v)) IN
              IF l.ok THEN Ok(l.S, tk.v) ELSE l
         ELSE Ok(r.S, tk.v)

\* get_string: an identifier is tolerated in place of a string (recoverable)
GetString(S) ==
    IF S.pos <= NTok /\ Tok(S.pos).t = "id"
    THEN LET r == GetIdentifier(S) IN
         IF ~r.ok THEN r
         ELSE LET l == Log(r.S, Diag("UnexpectedTokenType", r.S.last, r.v)) IN
              IF l.ok THEN Ok(l.S, r.v) ELSE l
    ELSE LET r == ExpectToken(S, "str") IN
         IF r.ok THEN Ok(r.S, Tok(r.v).v) ELSE r

\* get_integer::<T> / get_float / get_double: the literal must be representable in the field
GetNumber(S, type) ==
    LET r == ExpectToken(S, "num") IN
    IF ~r.ok THEN r
    ELSE LET tk == Tok(r.v)
             fits == IF type \in IntTypes THEN \E i \in 1..Len(tk.a.fits) : tk.a.fits[i] = type ELSE tk.a.float
         IN IF fits THEN Ok(r.S, [txt |-> tk.v, val |-> tk.a.val]) ELSE Err(r.S, "MalformedNumber", r.S.last)

(***************************************************************************)
(* enum items (generate_enum_parser)                                       *)
(***************************************************************************)
ParseEnum(S, ename, ver) ==
    LET r == GetIdentifier(S) IN
    IF ~r.ok THEN r
    ELSE LET items == Enum[ename]
             idx == {i \in 1..Len(items) : items[i].item = r.v}
         IN IF idx = {} THEN Err(r.S, "InvalidEnumValue", r.S.last)
            ELSE LET it == items[CHOOSE i \in idx : TRUE]
                     l1 == IF it.since # 0 /\ ver < it.since
                           THEN Log(r.S, Diag("EnumRefTooNew", r.S.last, r.v)) ELSE Ok(r.S, TRUE)
                 IN IF ~l1.ok THEN l1
                    ELSE LET S2 == IF it.until # 0 /\ ver > it.until
                                   THEN Warn(l1.S, Diag("EnumRefDeprecated", l1.S.last, r.v)) ELSE l1.S
                         IN Ok(S2, r.v)

\* one scalar item (generate_item_parser_call)
ParseScalar(S, type, ver) ==
    IF type = "ident" THEN GetIdentifier(S)
    ELSE IF type = "string" THEN GetString(S)
    ELSE IF type \in ScalarTypes THEN GetNumber(S, type)
    ELSE ParseEnum(S, type, ver)

\* fixed-size array: n items in a row
RECURSIVE ParseArray(_, _, _, _, _)
ParseArray(S, type, n, ver, acc) ==
    IF n = 0 THEN Ok(S, acc)
    ELSE LET r == ParseScalar(S, type, ver) IN
         IF ~r.ok THEN r ELSE ParseArray(r.S, type, n - 1, ver, Append(acc, r.v))

\* one item of a sequence: a single scalar, or all fields of the anonymous struct in order
RECURSIVE ParseFields(_, _, _, _)
ParseFields(S, fields, ver, acc) ==
    IF fields = <<>> THEN Ok(S, acc)
    ELSE LET r == ParseScalar(S, Head(fields).type, ver) IN
         IF ~r.ok THEN r ELSE ParseFields(r.S, Tail(fields), ver, Append(acc, r.v))

\* generate_sequence_parser: greedy; a failing item ends the sequence and rewinds the cursor
\* (not `last`, not the diagnostics); stopwords end a sequence of identifiers
RECURSIVE ParseSeq(_, _, _, _, _)
ParseSeq(S, fields, stop, ver, acc) ==
    LET r == ParseFields(S, fields, ver, <<>>) IN
    IF ~r.ok THEN Ok([r.S EXCEPT !.pos = S.pos], acc)
    ELSE IF Len(fields) = 1 /\ fields[1].type = "ident" /\ r.v[1] \in stop
         THEN Ok([r.S EXCEPT !.pos = S.pos], acc)
         ELSE ParseSeq(r.S, fields, stop, ver, Append(acc, IF Len(fields) = 1 THEN r.v[1] ELSE r.v))

(***************************************************************************)
(* handle_unknown_taggedstruct_tag                                         *)
(***************************************************************************)
RECURSIVE SkipUnknown(_, _, _, _, _)
SkipUnknown(S, tag, isBlock, stopList, balance) ==
    LET r == GetToken(S) IN
    IF ~r.ok THEN r
    ELSE LET tk == Tok(r.v) IN
         IF tk.t = "begin" THEN SkipUnknown(r.S, tag, isBlock, stopList, balance + 1)
         ELSE IF tk.t = "end"
              THEN IF balance - 1 = -1 THEN Ok([r.S EXCEPT !.pos = @ - 1], TRUE)
                   ELSE SkipUnknown(r.S, tag, isBlock, stopList, balance - 1)
         ELSE IF tk.t = "id"
              THEN IF isBlock
                   THEN IF balance = 0
                        THEN IF tk.v = tag THEN Ok(r.S, TRUE) ELSE Err(r.S, "IncorrectEndTag", r.S.last)
                        ELSE SkipUnknown(r.S, tag, isBlock, stopList, balance)
                   ELSE IF balance \in {0, 1} /\ tk.v \in stopList
                        THEN Ok([r.S EXCEPT !.pos = @ - (IF balance = 1 THEN 2 ELSE 1)], TRUE)
                        ELSE SkipUnknown(r.S, tag, isBlock, stopList, balance)
         ELSE IF isBlock /\ balance = 0 THEN Err(r.S, "IncorrectEndTag", r.S.last)
              ELSE SkipUnknown(r.S, tag, isBlock, stopList, balance)

HandleUnknown(S, ctx, tag, isBlock, stopList) ==
    LET l == Log(S, Diag("UnknownSubBlock", S.last, tag)) IN
    IF ~l.ok THEN l
    ELSE LET g == GetToken(l.S) IN                      \* "make sure there actually is a next token"
         IF ~g.ok THEN g
         ELSE SkipUnknown([g.S EXCEPT !.pos = @ - 1], tag, isBlock, stopList, IF isBlock THEN 1 ELSE 0)

(***************************************************************************)
(* blocks and keywords (generate_block_parser_generic, taggeditem parser)  *)
(***************************************************************************)
KidIndex(kids, tag) == {i \in 1..Len(kids) : kids[i].tag = tag}
KidTags(kids) == {kids[i].tag : i \in 1..Len(kids)}
KeywordKidTags(kids) == {kids[i].tag : i \in {j \in 1..Len(kids) : Elem[kids[j].tag].form = "keyword"}}

\* get_next_tag_or_comment: v = [k |-> "cmt"] | [k |-> "tag", tag, isBlock, line] | [k |-> "none"]
NextTagOrComment(S) ==
    IF S.pos <= NTok /\ Tok(S.pos).t = "cmt" THEN Ok([S EXCEPT !.pos = @ + 1], [k |-> "cmt"])
    ELSE IF S.pos <= NTok /\ Tok(S.pos).t = "begin"
         THEN LET g == GetToken(S)
                  r == ExpectToken(g.S, "id")
              IN IF r.ok THEN Ok(r.S, [k |-> "tag", tag |-> Tok(r.v).v, isBlock |-> TRUE, line |-> Tok(r.v).line])
                 ELSE [r EXCEPT !.S.pos = S.pos]
         ELSE LET r == ExpectToken(S, "id") IN
              IF r.ok THEN Ok(r.S, [k |-> "tag", tag |-> Tok(r.v).v, isBlock |-> FALSE, line |-> Tok(r.v).line])
              ELSE Ok([r.S EXCEPT !.pos = S.pos], [k |-> "none"])

\* IF_DATA: the content is not interpreted at this level: balanced tokens up to the closing /end
RECURSIVE SkipBalanced(_, _)
SkipBalanced(S, balance) ==
    IF S.pos > NTok THEN Err(S, "UnexpectedEOF", S.last)
    ELSE LET tk == Tok(S.pos) IN
         IF tk.t = "end" /\ balance = 0 THEN Ok(S, TRUE)
         ELSE LET g == GetToken(S) IN
              SkipBalanced(g.S, IF tk.t = "begin" THEN balance + 1 ELSE IF tk.t = "end" THEN balance - 1 ELSE balance)

Node(tag, params, kids) == [tag |-> tag, params |-> params, kids |-> kids]

RECURSIVE ParseElem(_, _, _, _, _)
RECURSIVE ParseParams(_, _, _, _, _)
RECURSIVE ParseKids(_, _, _, _, _)

\* `/end TAG` of a block; a wrong tag is recoverable
CloseBlock(S, tag) ==
    LET e == ExpectToken(S, "end") IN
    IF ~e.ok THEN e
    ELSE LET i == GetIdentifier(e.S) IN
         IF ~i.ok THEN i
         ELSE IF i.v # tag THEN Log(i.S, Diag("IncorrectEndTag", i.S.last, i.v)) ELSE Ok(i.S, TRUE)

ParseParams(S, params, kids, ver, acc) ==
    IF params = <<>> THEN Ok(S, acc)
    ELSE LET p == Head(params)
             r == IF p.kind = "scalar" THEN ParseScalar(S, p.type, ver)
                  ELSE IF p.kind = "array" THEN ParseArray(S, p.type, p.n, ver, <<>>)
                  ELSE ParseSeq(S, p.fields,
                                IF Len(p.fields) = 1 /\ p.fields[1].type = "ident" THEN KeywordKidTags(kids) ELSE {},
                                ver, <<>>)
         IN IF ~r.ok THEN r ELSE ParseParams(r.S, Tail(params), kids, ver, Append(acc, r.v))

\* the loop over the optional sub-elements of a block (taggedstruct); acc = Seq([tag, node])
ParseKids(S, ctx, isBlockParent, ver, acc) ==
    LET kids == Elem[ctx.tag].kids
        n == NextTagOrComment(S)
    IN IF ~n.ok THEN n
       ELSE IF n.v.k = "cmt" THEN ParseKids(n.S, ctx, isBlockParent, ver, acc)
       ELSE IF n.v.k = "none" THEN Ok(n.S, acc)
       ELSE LET tag == n.v.tag  idx == KidIndex(kids, tag) IN
            IF idx = {}
            THEN IF isBlockParent
                 THEN LET h == HandleUnknown(n.S, ctx, tag, n.v.isBlock, KidTags(kids)) IN
                      IF ~h.ok THEN h ELSE ParseKids(h.S, ctx, isBlockParent, ver, acc)
                 ELSE \* a keyword parent (A2L_FILE) hands the tokens back (undo_get_token once or twice) and stops
                      Ok([n.S EXCEPT !.pos = @ - (IF n.v.isBlock THEN 2 ELSE 1)], acc)
            ELSE LET kd == kids[CHOOSE i \in idx : TRUE]
                     wantBlock == Elem[tag].form = "block"
                 IN IF wantBlock /\ ~n.v.isBlock THEN Err(n.S, "IncorrectBlockError", n.S.last)
                    ELSE IF ~wantBlock /\ n.v.isBlock THEN Err(n.S, "IncorrectKeywordError", n.S.last)
                    ELSE LET l1 == IF kd.since # 0 /\ ver < kd.since
                                   THEN Log(n.S, Diag("BlockRefTooNew", n.S.last, tag)) ELSE Ok(n.S, TRUE)
                         IN IF ~l1.ok THEN l1
                            ELSE LET S2 == IF kd.until # 0 /\ ver > kd.until
                                           THEN Warn(l1.S, Diag("BlockRefDeprecated", l1.S.last, tag)) ELSE l1.S
                                     c == ParseElem(S2, [tag |-> tag, line |-> n.v.line], n.v.isBlock, ver, 0)
                                 IN IF ~c.ok THEN c
                                    ELSE IF kd.many THEN ParseKids(c.S, ctx, isBlockParent, ver, Append(acc, c.v))
                                    ELSE LET dup == \E i \in 1..Len(acc) : acc[i].tag = tag
                                             l2 == IF dup THEN Log(c.S, Diag("InvalidMultiplicityTooMany", c.S.last, tag))
                                                   ELSE Ok(c.S, TRUE)
                                         IN IF ~l2.ok THEN l2
                                            ELSE \* the last occurrence wins
                                                 ParseKids(l2.S, ctx, isBlockParent, ver,
                                                           Append(SelectSeq(acc, LAMBDA x : x.tag # tag), c.v))

\* required sub-elements (multiplicity check after the loop)
RECURSIVE CheckRequired(_, _, _, _)
CheckRequired(S, kids, got, i) ==
    IF i > Len(kids) THEN Ok(S, TRUE)
    ELSE LET kd == kids[i]
             present == \E j \in 1..Len(got) : got[j].tag = kd.tag
         IN IF ~kd.req \/ present THEN CheckRequired(S, kids, got, i + 1)
            ELSE IF kd.many
                 THEN LET l == Log(S, Diag("InvalidMultiplicityNotPresent", S.last, kd.tag)) IN
                      IF ~l.ok THEN l ELSE CheckRequired(l.S, kids, got, i + 1)
                 ELSE Err(S, "InvalidMultiplicityNotPresent", S.last)

ParseElem(S, ctx, isBlock, ver, depth) ==
    LET tag == ctx.tag  el == Elem[tag] IN
    IF tag = "IF_DATA"
    THEN LET b == SkipBalanced(S, 0) IN
         IF ~b.ok THEN b
         ELSE LET c == CloseBlock(b.S, tag) IN
              IF ~c.ok THEN c ELSE Ok(c.S, Node(tag, <<[raw |-> SubSeq(Doc, S.pos, b.S.pos - 1)]>>, <<>>))
    ELSE IF tag = "A2ML"
    THEN LET t == ExpectToken(S, "str") IN
         IF ~t.ok THEN t
         ELSE \* the text is handed to the A2ML parser; a text that is no usable definition (attribute a2mlok of the
              \* token, known to whoever built the document) is a recoverable problem: A2mlError
              LET bad == "a2mlok" \in DOMAIN Tok(t.v).a /\ ~Tok(t.v).a.a2mlok
                  l == IF bad THEN Log(t.S, Diag("A2mlError", t.S.last, "")) ELSE Ok(t.S, TRUE)
              IN IF ~l.ok THEN l
                 ELSE LET c == CloseBlock(l.S, tag) IN
                      IF ~c.ok THEN c ELSE Ok(c.S, Node(tag, <<Tok(t.v).v>>, <<>>))
    ELSE LET p == ParseParams(S, el.params, el.kids, ver, <<>>) IN
         IF ~p.ok THEN p
         ELSE LET k == IF el.kids = <<>> THEN Ok(p.S, <<>>) ELSE ParseKids(p.S, ctx, el.form = "block", ver, <<>>) IN
              IF ~k.ok THEN k
              ELSE LET q == CheckRequired(k.S, el.kids, k.v, 1) IN
                   IF ~q.ok THEN q
                   ELSE IF el.form = "block"
                        THEN LET c == CloseBlock(q.S, tag) IN
                             IF ~c.ok THEN c ELSE Ok(c.S, Node(tag, p.v, k.v))
                        ELSE Ok(q.S, Node(tag, p.v, k.v))

(***************************************************************************)
(* the file level (ParserState::parse_file, parse_version)                 *)
(***************************************************************************)
VersionOf(major, minor) ==
    IF major.val = 1 /\ minor.val \in {50, 51, 60, 61, 70, 71} THEN 100 + minor.val ELSE 0

\* returns [ok, S, v |-> version]; the cursor is always reset to the first token
ParseVersion(S0) ==
    IF S0.pos <= NTok
    THEN LET i == GetIdentifier(S0) IN
         IF i.ok /\ i.v = "ASAP2_VERSION"
         THEN LET v == ParseElem(i.S, [tag |-> "ASAP2_VERSION", line |-> Tok(S0.pos).line], FALSE, 171, 0)
                  back(S) == [S EXCEPT !.pos = 1]
              IN IF v.ok /\ VersionOf(v.v.params[1], v.v.params[2]) # 0
                 THEN Ok(back(v.S), VersionOf(v.v.params[1], v.v.params[2]))
                 ELSE LET l == Log(back(v.S), Diag(IF v.ok THEN "InvalidVersion" ELSE "MissingVersionInfo", -1, "")) IN
                      IF l.ok THEN Ok(l.S, 171) ELSE l
         ELSE LET S1 == [(IF i.ok THEN i.S ELSE i.S) EXCEPT !.pos = 1]
                  l == Log(S1, Diag("MissingVersionInfo", -1, "")) IN
              IF l.ok THEN Ok(l.S, 151) ELSE l
    ELSE LET l == Log(S0, Diag("MissingVersionInfo", -1, "")) IN IF l.ok THEN Ok(l.S, 151) ELSE l

\* the whole run: [ok, diags, tree] or [ok |-> FALSE, e, diags]
Run ==
    IF NTok = 0 THEN [ok |-> FALSE, e |-> [c |-> "EmptyFileError", line |-> 0], diags |-> <<>>]
    ELSE
    LET S0 == [pos |-> 1, last |-> 0, diags |-> <<>>]
        v == ParseVersion(S0)
    IN IF ~v.ok THEN [ok |-> FALSE, e |-> v.e, diags |-> v.S.diags]
       ELSE LET f == ParseElem(v.S, [tag |-> "A2L_FILE", line |-> Tok(1).line], FALSE, v.v, 0) IN
            IF ~f.ok THEN [ok |-> FALSE, e |-> f.e, diags |-> f.S.diags]
            ELSE IF f.S.pos <= NTok
                 THEN LET l == Log(f.S, Diag("AdditionalTokensError", f.S.last, Tok(f.S.pos).v)) IN
                      IF l.ok THEN [ok |-> TRUE, diags |-> l.S.diags, tree |-> f.v, ver |-> v.v]
                      ELSE [ok |-> FALSE, e |-> l.e, diags |-> f.S.diags]
                 ELSE [ok |-> TRUE, diags |-> f.S.diags, tree |-> f.v, ver |-> v.v]
(***************************************************************************)
(* load_fragment: the text is wrapped as `fragment "" <text> /end MODULE`  *)
(* and parsed as the content of a MODULE, lenient, as version 1.71; there  *)
(* is no version look-ahead and nothing behind /end MODULE is looked at    *)
(***************************************************************************)
RunFragment ==
    IF NTok = 0 THEN [ok |-> FALSE, e |-> [c |-> "UnexpectedEOF", line |-> 0], diags |-> <<>>]
    ELSE LET S0 == [pos |-> 1, last |-> 0, diags |-> <<>>]
             f == ParseElem(S0, [tag |-> "MODULE", line |-> Tok(1).line], TRUE, 171, 0)
         IN IF ~f.ok THEN [ok |-> FALSE, e |-> f.e, diags |-> f.S.diags]
            ELSE [ok |-> TRUE, diags |-> f.S.diags, tree |-> f.v, ver |-> 171]
=============================================================================
