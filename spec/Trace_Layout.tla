----------------------------- MODULE Trace_Layout -----------------------------
(* Judges load/write cycles observed on the real library by the relations of C01, C02 and C05.
   doc event:  in  = Seq(<<kind, line>>) significant tokens and block-level comments of the input,
               out = the same for the written text, same[i] = the i-th tokens are lexically equivalent
               (identical up to number / escape notation; decided by the driver),
               cycles = Seq([load, modelEq, textEq]) for the following load/write cycles,
               inScope = the input satisfies the preconditions of C05,
               file = [ok, banner, eq]: A2lFile::write(path, banner) followed by load(path) (only recorded for C01)
   pair event: [pair, sameValue, eq, eqRev]: two documents that differ in one parameter token *)
EXTENDS Integers, Sequences, TLC, Json, IOUtils

Rec == ndJsonDeserialize(IOEnv.TRACE)
CONSTANT Judge     \* subset of {"C01", "C02", "C05"}
VARIABLE l
Chk(name, cond) == IF cond THEN TRUE ELSE Print(<<"FAILED", name>>, FALSE)

\* C02: the written text holds exactly the significant tokens of the input, in the same order
ContentPreserved(ev) ==
    /\ Chk("SameNumberOfTokens", Len(ev.out) = Len(ev.in))
    /\ Len(ev.out) = Len(ev.in) =>
          /\ Chk("SameKinds", \A i \in 1..Len(ev.in) : ev.in[i][1] = ev.out[i][1])
          /\ Chk("SameValues", \A i \in 1..Len(ev.same) : ev.same[i])
\* C05: every significant token is written on the line it had in the input
LinePreservedObserved(ev) ==
    ev.inScope => Chk("LinePreserved", Len(ev.out) = Len(ev.in) /\ \A i \in 1..Len(ev.in) : ev.in[i][2] = ev.out[i][2])
\* C05: text in the writer's own format is reproduced byte for byte; C01: cycles never drift, model equal
CyclesStable(ev) ==
    /\ Chk("ReloadSucceeds", \A i \in 1..Len(ev.cycles) : ev.cycles[i].load = "ok")
    /\ Chk("ModelEqual", \A i \in 1..Len(ev.cycles) : ev.cycles[i].load = "ok" => ev.cycles[i].model_eq)
    /\ Chk("TextFixpoint", \A i \in 1..Len(ev.cycles) : ev.cycles[i].load = "ok" => ev.cycles[i].text_eq)
    /\ Chk("NoNewDiagnostics", \A i \in 1..Len(ev.cycles) : ev.cycles[i].load = "ok" => ev.cycles[i].diags <= ev.ndiags)
    \* the file entry points: write(path, banner) puts the banner comment first, load(path) gives the model back
    \* and the file with its banner is a fixpoint of load / write with the same banner
    /\ "file" \in DOMAIN ev => Chk("FileWriteLoad", ev.file.ok /\ ev.file.banner /\ ev.file.eq) /\ Chk("FileWithBannerIsFixpoint", ev.file.fix)

\* pair event: two documents that differ in one parameter token; sameValue = the tokens are lexically equivalent (another
\* notation of the same value).  The == of the library, on which ModelEqual rests, holds exactly for equal values.
PairVerdict(ev) ==
    /\ Chk("EqualityIsByValue", ev.eq = ev.sameValue)
    /\ Chk("EqualityIsSymmetric", ev.eq = ev.eqRev)
Verdict(ev) ==
  IF "pair" \in DOMAIN ev THEN ("C01" \in Judge => PairVerdict(ev)) ELSE
    /\ ("C02" \in Judge => ContentPreserved(ev))
    /\ ("C05" \in Judge => LinePreservedObserved(ev) /\ Chk("CanonicalIsFixpoint", Len(ev.cycles) > 0 => (ev.cycles[1].load = "ok" /\ ev.cycles[1].text_eq)))
    /\ ("C01" \in Judge => CyclesStable(ev))

TraceInit == l = 1
TraceNext == /\ l <= Len(Rec)
             /\ (IF Verdict(Rec[l]) THEN TRUE ELSE PrintT(<<"REJECT", l>>))
             /\ l' = l + 1
TraceSpec == TraceInit /\ [][TraceNext]_l
TraceAccepted == IF TLCGet("stats").diameter - 1 = Len(Rec) THEN TRUE ELSE Print(<<"TRACE-REJECTED-AT", TLCGet("stats").diameter, "">>, FALSE)
=============================================================================
