SPECIFICATION Spec
CONSTANTS
  MaxLen = 4
INVARIANTS RoundTripOK Emit
CHECK_DEADLOCK FALSE
