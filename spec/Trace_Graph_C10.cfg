SPECIFICATION TraceSpec
CONSTANTS
  Judge = {"C10"}
POSTCONDITION TraceAccepted
CHECK_DEADLOCK FALSE
