------------------------------ MODULE Trace_Edit ------------------------------
(* Judges edits observed on the real library (harness edit-op) by the relations of Edit.tla.
   edit event: [op, before, after, own0, own1, reloadEq, textFix, newLast]
      before / after : the written text before and after the edit, one integer per line (equal lines - equal numbers)
      own0 / own1    : <<first, last>> line range of the edited object in before / after (<<1, 0>> if it is not there)
      reloadEq       : loading the text written after the edit gives a model equal to the edited model
      textFix        : writing that reloaded model gives the same text again
      newLast        : (push) the new object is written behind every loaded object of the module *)
EXTENDS Integers, Sequences, TLC, Json, IOUtils

Rec == ndJsonDeserialize(IOEnv.TRACE)
CONSTANT Judge     \* subset of {"C01", "C05"}
VARIABLE l
Chk(name, cond) == IF cond THEN TRUE ELSE Print(<<"FAILED", name>>, FALSE)

Outside(t, r) == [i \in 1..(Len(t) - (r[2] - r[1] + 1)) |-> IF i < r[1] THEN t[i] ELSE t[i + (r[2] - r[1] + 1)]]

\* C05: only the lines that belong to the edited object change
EditLocal(ev) == Chk("EditLocal", Outside(ev.before, ev.own0) = Outside(ev.after, ev.own1))
\* C01: the edited model survives write and load
ApiRoundTrip(ev) == /\ Chk("ReloadEqual", ev.reloadEq)
                    /\ Chk("TextFixpoint", ev.textFix)

Verdict(ev) == /\ ("C05" \in Judge => EditLocal(ev) /\ (ev.op = "push" => Chk("NewObjectsLast", ev.newLast)))
               /\ ("C01" \in Judge => ApiRoundTrip(ev))

TraceInit == l = 1
TraceNext == /\ l <= Len(Rec)
             /\ (IF Verdict(Rec[l]) THEN TRUE ELSE PrintT(<<"REJECT", l>>))
             /\ l' = l + 1
TraceSpec == TraceInit /\ [][TraceNext]_l
TraceAccepted == IF TLCGet("stats").diameter - 1 = Len(Rec) THEN TRUE ELSE Print(<<"TRACE-REJECTED-AT", TLCGet("stats").diameter, "">>, FALSE)
=============================================================================
