---------------------------- MODULE MC_Placement ----------------------------
(* Exhaustive configuration of Placement: files with 0..MaxInit placed children (three list kinds
   and comments, every arrangement), then every history of push_new / merge_in / sort_new_items
   within the constraint.  Every transition is exported for replay (B2). *)
EXTENDS Placement, Json

CONSTANTS MaxInit, MaxElems, UidBound, NewNames, MergeLines, UidBases, WithSortFull

MCKinds == {"COMPU_METHOD", "MEASUREMENT", "UNIT"}
MCKindRank == [k \in MCKinds |-> CASE k = "COMPU_METHOD" -> 1 [] k = "MEASUREMENT" -> 2 [] k = "UNIT" -> 3]

\* sort.rs emits MEASUREMENT before COMPU_METHOD before UNIT
MCSortKindOrder == <<"MEASUREMENT", "COMPU_METHOD", "UNIT">>

Slot == MCKinds \cup {"#"}
InitChild(k, i, base) == [kind |-> IF k = "#" THEN "COMPU_METHOD" ELSE k, name |-> 100 + i, uid |-> base + i, line |-> 10 * i, cmt |-> (k = "#")]
MCInit ==
    \E n \in 0..MaxInit : \E arr \in [1..n -> Slot] : \E base \in UidBases :
        /\ E = [i \in 1..n |-> InitChild(arr[i], i, base)]
        /\ lists = [k \in MCKinds |-> SelectSeq([i \in 1..n |-> i], LAMBDA i : arr[i] = k)]
        /\ panic = FALSE
        /\ last = [op |-> "load"]

MCNext ==
    \/ \E k \in MCKinds, nm \in NewNames : PushNew(k, nm)
    \/ \E k \in MCKinds, nm \in NewNames, ln \in MergeLines : MergeIn(k, nm, ln)
    \/ SortNewItems
    \/ (WithSortFull /\ SortFull(4))

MCSpec == MCInit /\ [][MCNext]_vars

Bounded == /\ Len(E) <= MaxElems
           /\ \A i \in 1..Len(E) : E[i].uid <= UidBound

\* around the compaction threshold: stop once the uids have been compacted and doubled a few times
BoundedHi == /\ Len(E) <= MaxElems
             /\ \A i \in 1..Len(E) : E[i].uid <= 24 \/ E[i].uid >= 1073741000

View == <<E, lists, panic>>

Snapshot(EE, LL) == [E |-> EE, lists |-> LL, written |-> WriterOrder(EE, LL)]
EmitTransition ==
    PrintT(<<"T", ToJson([from |-> Snapshot(E, lists), op |-> last', to |-> Snapshot(E', lists'), panic |-> panic'])>>)
=============================================================================
