SPECIFICATION MCSpec
CONSTANTS
  Kinds <- MCKinds
  KindRank <- MCKindRank
  MaxUid = 31
  CompactAt = 16
  Compact = FALSE
  SortKindOrder <- MCSortKindOrder
  WithSortFull = FALSE
  Wrap = TRUE
  MaxInit = 2
  MaxElems = 3
  UidBound = 63
  NewNames = {1}
  MergeLines = {7}
  UidBases = {0}
VIEW View
CONSTRAINT Bounded
PROPERTIES SortStepIdeal
CHECK_DEADLOCK FALSE
