SPECIFICATION Spec
CONSTANTS
  RenameSites <- SiteIds
INVARIANTS DesignOK Emit
CHECK_DEADLOCK FALSE
