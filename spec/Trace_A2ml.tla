------------------------------ MODULE Trace_A2ml ------------------------------
(* Judges A2ML / IF_DATA observations of the real library by A2ml.tla.  Events:
     type  : [ty |-> 1, decls, obs]            obs = [ok |-> TRUE, t] | [ok |-> FALSE]
                 the type tree the library built from the text of `decls` (hook parse_a2ml)
     ifdata: [toks, strict, defs, out]          toks = tokens of one IF_DATA block behind its tag up to and
                 including /end IF_DATA; defs = the declaration lists in force (built-in first, then the file's
                 A2ML block); out = [ok |-> TRUE, valid, present] | [ok |-> FALSE, e]
                 (the value tree is printed as <<"TREE", index, json>> and compared leaf by leaf by the driver)
     cleanup: [cleanup |-> 1, blocks, after]     blocks = Seq([id, valid]) in file order, after = Seq(id) left
                 by ifdata_cleanup() *)
EXTENDS A2ml, Json, IOUtils

Rec == ndJsonDeserialize(IOEnv.TRACE)
VARIABLE l
tvars == <<Doc, Strict, Specs, l>>

Chk(name, cond) == IF cond THEN TRUE ELSE Print(<<"FAILED", name>>, FALSE)

TypeVerdict(ev) ==
    LET r == Resolve(ev.decls) IN
    /\ Chk("Accepted", r.ok = ev.obs.ok)
    /\ (r.ok /\ ev.obs.ok) => Chk("TypeTree", TypeEq(r.t, ev.obs.t))

IfDataVerdict(ev) ==
    LET r == RunIfData IN
    \* the statement of the property itself, whatever the model says: content that conforms is valid
    /\ Chk("ConformingIsValid", ev.conf => (ev.out.ok /\ (ev.out.present => ev.out.valid)))
    /\ IF ev.out.ok
       THEN /\ Chk("Outcome", r.ok)
            /\ r.ok => /\ Chk("Valid", r.valid = ev.out.valid)
                       /\ Chk("Present", (r.v.k # "absent") = ev.out.present)
                       /\ "nodiag" \in DOMAIN ev \/ Chk("Diagnostics", [i \in 1..Len(r.diags) |-> <<r.diags[i].c, r.diags[i].line>>]
                                             = [i \in 1..Len(ev.out.diags) |-> <<ev.out.diags[i][1], ev.out.diags[i][2]>>])
                       /\ PrintT(<<"TREE", l - 1, ToJson(r.v)>>)
       ELSE /\ Chk("Outcome", ~r.ok)
            /\ ~r.ok => Chk("ErrorClass", r.e.c = ev.out.e[1] /\ r.e.line = ev.out.e[2])

CleanupVerdict(ev) ==
    LET keep == SelectSeq(ev.blocks, LAMBDA b : b.valid) IN
    Chk("ExactlyInvalidRemoved", [i \in 1..Len(keep) |-> keep[i].id] = ev.after)

SpecsOf(ev) == [i \in 1..Len(ev.defs) |-> Resolve(ev.defs[i]).t]

TraceInit == Doc = <<>> /\ Strict = FALSE /\ Specs = <<>> /\ l = 1
TraceNext == /\ l <= Len(Rec)
             /\ IF "toks" \in DOMAIN Rec[l]
                THEN Doc' = Rec[l].toks /\ Strict' = Rec[l].strict /\ Specs' = SpecsOf(Rec[l])
                ELSE UNCHANGED <<Doc, Strict, Specs>>
             /\ l' = l + 1
TraceSpec == TraceInit /\ [][TraceNext]_tvars

Judge == l > 1 => (IF (IF "ty" \in DOMAIN Rec[l - 1] THEN TypeVerdict(Rec[l - 1])
                       ELSE IF "cleanup" \in DOMAIN Rec[l - 1] THEN CleanupVerdict(Rec[l - 1])
                       ELSE IfDataVerdict(Rec[l - 1]))
                   THEN TRUE ELSE PrintT(<<"REJECT", l - 1>>))

TraceAccepted ==
    LET d == TLCGet("stats").diameter IN
    IF d - 1 = Len(Rec) THEN TRUE
    ELSE Print(<<"TRACE-REJECTED-AT", d, "">>, FALSE)
=============================================================================
