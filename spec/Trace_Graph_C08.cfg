SPECIFICATION TraceSpec
CONSTANTS
  Judge = {"C08"}
POSTCONDITION TraceAccepted
CHECK_DEADLOCK FALSE
