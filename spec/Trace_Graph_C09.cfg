SPECIFICATION TraceSpec
CONSTANTS
  Judge = {"C09"}
POSTCONDITION TraceAccepted
CHECK_DEADLOCK FALSE
