SPECIFICATION Spec
CONSTANTS
  Tags <- MCTags
  TagRank <- MCTagRank
  MaxObjects = 3
  MaxHeight = 2
  MaxGap = 1
  StableSort = FALSE
CONSTRAINT Bound
INVARIANTS ReloadEqual
CHECK_DEADLOCK FALSE
