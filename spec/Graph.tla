------------------------------- MODULE Graph -------------------------------
(***************************************************************************)
(* Named elements of one MODULE and the references between them            *)
(* (merge.rs, cleanup/*.rs, checker.rs), at the level the properties       *)
(* C08 - C11 talk about.                                                   *)
(*                                                                         *)
(* A module graph is                                                       *)
(*   [elems |-> Seq(<<namespace, kind, name, content>>),                   *)
(*    refs  |-> Seq(<<site, ownerKind, ownerName, targetName>>)]           *)
(* where `site` is a row of RefSitesData (every place of the grammar that  *)
(* holds a reference) and `content` is an opaque content identity.         *)
(*                                                                         *)
(* This module states the properties as RELATIONS between module graphs:   *)
(*   MergeOK(A, B, R)    C08   RefsFollow(A, B, R)   C09                   *)
(*   CleanupOK(G, R)     C10   CheckOK(G, reports)   C11                   *)
(* and gives a reference implementation of each operation (IdealMerge,     *)
(* IdealCleanup, IdealCheck) that TLC checks against the relations.        *)
(* ImplMerge / ImplCleanup are shaped like the code (rename tables per     *)
(* phase, per-site coverage, single-pass usage sets) and are used for the  *)
(* expected-violation configurations.                                      *)
(***************************************************************************)
EXTENDS Naturals, Sequences, FiniteSets, TLC, RefSitesData

Range(s) == {s[i] : i \in 1..Len(s)}
Elems(G) == Range(G.elems)
Refs(G) == Range(G.refs)
Names(G, ns) == {e[3] : e \in {x \in Elems(G) : x[1] = ns}}
RefsOf(G, kind, name) == {<<r[1], r[4]>> : r \in {x \in Refs(G) : x[2] = kind /\ x[3] = name}}

\* a failed conjunct prints its name, so a rejected event can be attributed
\* (IF, not \/: inside an action TLC evaluates both disjuncts of a disjunction)
Chk(name, cond) == IF cond THEN TRUE ELSE Print(<<"FAILED", name>>, FALSE)

IsNeutral(r) == SiteNeutral[r[1]] # "" /\ r[4] = SiteNeutral[r[1]]
\* namespaces that are local to another element (criteria of VARIANT_CODING) are not module elements
LocalNs == {"VAR_CRITERION"}
Resolves(G, r) == \/ IsNeutral(r)
                  \/ SiteTarget[r[1]] \in LocalNs
                  \/ r[4] \in Names(G, SiteTarget[r[1]])
AllResolve(G) == \A r \in Refs(G) : Resolves(G, r)
UniqueNames(G) == \A i, j \in 1..Len(G.elems) :
                     i # j => ~(G.elems[i][1] = G.elems[j][1] /\ G.elems[i][3] = G.elems[j][3])

ByName == UnionKinds \cup {"USER_RIGHTS"}     \* represented by the element of the same name

(***************************************************************************)
(* C08  Merge conserves both inputs                                        *)
(***************************************************************************)
SameName(A, b) == {a \in Elems(A) : a[1] = b[1] /\ a[3] = b[3]}
Twins(A, b) == {a \in Elems(A) : a = b}
RepSet(R, b) == {r \in Elems(R) : r[1] = b[1] /\ r[2] = b[2] /\ r[4] = b[4]}      \* by content identity
\* The elements of B that the merge may add under a fresh name: same name / other content in A
\* (certainly renamed), and - transitively - elements that are textually identical to an element of A
\* but refer to something that is renamed: after the reference has been rewritten they differ from A's
\* element, so the code may treat them as identical (shared) or as different (added under a fresh name)
\* depending on the order of its phases.  Both outcomes are accepted for them ("disturbed" twins).
RECURSIVE RenFix(_, _, _)
RenFix(A, B, D) ==
    LET D2 == D \cup {b \in Elems(B) :
                        /\ b[2] \notin ByName /\ b[2] \notin SingleKinds /\ Twins(A, b) # {}
                        /\ \E p \in RefsOf(B, b[2], b[3]) : \E x \in D : x[1] = SiteTarget[p[1]] /\ x[3] = p[2]}
    IN IF D2 = D THEN D ELSE RenFix(A, B, D2)
MaybeRenamed(A, B) ==
    RenFix(A, B, {x \in Elems(B) : x[2] \notin ByName /\ x[2] \notin SingleKinds /\ SameName(A, x) # {} /\ Twins(A, x) = {}})
Disturbed(A, B, b) == Twins(A, b) # {} /\ b \in MaybeRenamed(A, B)

\* the name under which b is found in R
RepName(A, B, R, b) ==
    IF b[2] \in ByName \/ b[2] \in SingleKinds THEN b[3]
    ELSE IF RepSet(R, b) = {} THEN b[3]
    ELSE IF Twins(A, b) # {} /\ Cardinality(RepSet(R, b)) > 1
         THEN (CHOOSE r \in RepSet(R, b) : r \notin Elems(A))[3]
         ELSE (CHOOSE r \in RepSet(R, b) : TRUE)[3]

MergeOK(A, B, R) ==
    /\ Chk("AUnchanged",
           \A a \in Elems(A) :
              /\ a \in Elems(R)
              /\ IF a[2] \in UnionKinds THEN RefsOf(A, a[2], a[3]) \subseteq RefsOf(R, a[2], a[3])
                 ELSE RefsOf(A, a[2], a[3]) = RefsOf(R, a[2], a[3]))
    /\ Chk("BRepresented",
           \A b \in Elems(B) :
              IF b[2] \in SingleKinds
              THEN (\A a \in Elems(A) : a[2] # b[2]) => b \in Elems(R)
              ELSE IF b[2] \in ByName
              THEN /\ \E r \in Elems(R) : r[2] = b[2] /\ r[3] = b[3]
                   /\ SameName(A, b) = {} => b \in Elems(R)
              ELSE IF Disturbed(A, B, b) /\ Twins(A, b) # {}
              THEN Cardinality(RepSet(R, b)) \in {1, 2}
              ELSE /\ Cardinality(RepSet(R, b)) = 1
                   /\ \A r \in RepSet(R, b) :
                        /\ (SameName(A, b) = {} \/ Twins(A, b) # {}) => r[3] = b[3]
                        /\ (SameName(A, b) # {} /\ Twins(A, b) = {}) =>
                              r[3] \notin (Names(A, b[1]) \cup Names(B, b[1])))
    /\ Chk("NamesUnique", UniqueNames(R))
    /\ Chk("NothingInvented",
           \A r \in Elems(R) : r \in Elems(A) \/ \E b \in Elems(B) : r[1] = b[1] /\ r[2] = b[2] /\ r[4] = b[4])

(***************************************************************************)
(* C09  Merge preserves the reference structure of the merged-in file      *)
(***************************************************************************)
Ren(A, B, R, site, t) ==
    IF SiteTarget[site] \in LocalNs THEN t
    ELSE IF \E x \in Elems(B) : x[1] = SiteTarget[site] /\ x[3] = t
         THEN RepName(A, B, R, CHOOSE x \in Elems(B) : x[1] = SiteTarget[site] /\ x[3] = t)
         ELSE t
RenRefs(A, B, R, b) == {<<p[1], Ren(A, B, R, p[1], p[2])>> : p \in RefsOf(B, b[2], b[3])}

\* b was added to R (under its own or a fresh name): it is not represented by an element of A
Added(A, B, R, b) ==
    IF b[2] \in SingleKinds THEN \A a \in Elems(A) : a[2] # b[2]
    ELSE IF b[2] \in ByName THEN SameName(A, b) = {}
    ELSE Twins(A, b) = {} \/ (Disturbed(A, B, b) /\ Cardinality(RepSet(R, b)) = 2)

RefsFollow(A, B, R) ==
    /\ Chk("RefsFollowRenames",
           \A b \in Elems(B) :
              IF Added(A, B, R, b)
              THEN RefsOf(R, b[2], RepName(A, B, R, b)) = RenRefs(A, B, R, b)
              ELSE IF b[2] \in UnionKinds
              THEN \* united by name: nothing invented, every member that arrives follows the renames
                   \A a \in SameName(A, b) :
                       RefsOf(R, a[2], a[3]) \subseteq (RefsOf(A, a[2], a[3]) \cup RenRefs(A, B, R, b))
              ELSE TRUE)
    /\ Chk("ResolvedStaysResolved", (AllResolve(A) /\ AllResolve(B)) => AllResolve(R))

(***************************************************************************)
(* Reference merge (deterministic instance of the relations): fresh name = *)
(* name.MERGE, name.MERGE2, ...                                            *)
(***************************************************************************)
RECURSIVE FreshName(_, _, _)
FreshName(base, used, i) ==
    LET cand == IF i = 1 THEN base \o ".MERGE" ELSE base \o ".MERGE" \o ToString(i) IN
    IF cand \in used THEN FreshName(base, used, i + 1) ELSE cand

\* RenameSites: the sites at which references of B are rewritten (the ideal merge rewrites all)
IdealRepName(A, B, b) ==
    IF b[2] \in ByName \/ b[2] \in SingleKinds THEN b[3]
    ELSE IF SameName(A, b) = {} \/ Twins(A, b) # {} THEN b[3]
    ELSE FreshName(b[3], Names(A, b[1]) \cup Names(B, b[1]), 1)
IdealRen(A, B, site, t, RenameSites) ==
    IF site \notin RenameSites \/ SiteTarget[site] \in LocalNs THEN t
    ELSE IF \E x \in Elems(B) : x[1] = SiteTarget[site] /\ x[3] = t
         THEN IdealRepName(A, B, CHOOSE x \in Elems(B) : x[1] = SiteTarget[site] /\ x[3] = t)
         ELSE t
RECURSIVE SetToSeq(_)
SetToSeq(S) == IF S = {} THEN <<>> ELSE LET x == CHOOSE y \in S : TRUE IN <<x>> \o SetToSeq(S \ {x})

MergeWith(A, B, RenameSites) ==
    LET addedB == {b \in Elems(B) :
                     IF b[2] \in SingleKinds THEN \A a \in Elems(A) : a[2] # b[2]
                     ELSE IF b[2] \in ByName THEN SameName(A, b) = {}
                     ELSE Twins(A, b) = {}}
        newElems == {<<b[1], b[2], IdealRepName(A, B, b), b[4]>> : b \in addedB}
        newRefs == {<<r[1], r[2], IdealRepName(A, B, CHOOSE b \in Elems(B) : b[2] = r[2] /\ b[3] = r[3]),
                      IdealRen(A, B, r[1], r[4], RenameSites)>> :
                        r \in {x \in Refs(B) : \E b \in addedB : b[2] = x[2] /\ b[3] = x[3]}}
        unionRefs == {<<r[1], r[2], r[3], IdealRen(A, B, r[1], r[4], RenameSites)>> :
                        r \in {x \in Refs(B) : x[2] \in UnionKinds /\ \E a \in Elems(A) : a[2] = x[2] /\ a[3] = x[3]}}
    IN [elems |-> A.elems \o SetToSeq(newElems \ Elems(A)),
        refs  |-> SetToSeq(Refs(A) \cup newRefs \cup unionRefs)]

(***************************************************************************)
(* C10  Cleanup removes only unreferenced helper elements                  *)
(***************************************************************************)
RefT(e, p) == <<p[1], e[2], e[3], p[2]>>
CleanupOK(G, R) ==
    LET Removed == Elems(G) \ Elems(R) IN
    /\ Chk("RemovesOnlyHelpers", \A x \in Removed : x[2] \in HelperKinds)
    /\ Chk("NothingInvented", Elems(R) \subseteq Elems(G) /\ Len(R.elems) <= Len(G.elems))
    /\ Chk("ObjectsUntouched",
           \A e \in Elems(G) : e[2] \notin HelperKinds =>
              /\ e \in Elems(R)
              \* a reference may only disappear if it dangled, and only a neutral name may appear
              /\ \A p \in RefsOf(G, e[2], e[3]) : p \in RefsOf(R, e[2], e[3]) \/ ~Resolves(G, RefT(e, p))
              /\ \A p \in RefsOf(R, e[2], e[3]) : p \in RefsOf(G, e[2], e[3]) \/ IsNeutral(RefT(e, p)))
    /\ Chk("HelpersOnlyLoseRefs",
           \A e \in Elems(R) : e[2] \in HelperKinds =>
              \A p \in RefsOf(R, e[2], e[3]) : p \in RefsOf(G, e[2], e[3]) \/ IsNeutral(RefT(e, p)))
    \* cleanup removes elements, and references that dangle: a helper that stays keeps every reference to an element that stays
    /\ Chk("HelpersKeepResolvingRefs",
           \A e \in Elems(R) : e[2] \in HelperKinds =>
              \A p \in RefsOf(G, e[2], e[3]) :
                 p \in RefsOf(R, e[2], e[3]) \/ ~(\E t \in Elems(R) : SiteTarget[RefT(e, p)[1]] = t[1] /\ RefT(e, p)[4] = t[3]))
    /\ Chk("NoRemovedIsReferenced",
           \A x \in Removed : \A r \in Refs(R) : ~(SiteTarget[r[1]] = x[1] /\ r[4] = x[3]))
    /\ Chk("ResolvedStaysResolved", AllResolve(G) => AllResolve(R))
CleanupIdempotent(R, R2) ==
    Chk("Idempotent", Elems(R2) = Elems(R) /\ Refs(R2) = Refs(R) /\ Len(R2.elems) = Len(R.elems))

\* reference cleanup: the largest set of elements closed under "a remaining element refers to it",
\* seeded with everything that is not a helper and with helpers that hold a resolving member
RECURSIVE KeepFix(_, _)
KeepFix(G, K) ==
    LET K2 == K \cup {e \in Elems(G) : \E r \in Refs(G) :
                          /\ SiteTarget[r[1]] = e[1] /\ r[4] = e[3]
                          /\ \E o \in K : o[2] = r[2] /\ o[3] = r[3]}
    IN IF K2 = K THEN K ELSE KeepFix(G, K2)
Members == {"GROUP/REF_CHARACTERISTIC.identifier_list", "GROUP/REF_MEASUREMENT.identifier_list",
            "FUNCTION/IN_MEASUREMENT.identifier_list", "FUNCTION/LOC_MEASUREMENT.identifier_list",
            "FUNCTION/OUT_MEASUREMENT.identifier_list", "FUNCTION/DEF_CHARACTERISTIC.identifier_list",
            "FUNCTION/REF_CHARACTERISTIC.identifier_list"}
IdealCleanup(G) ==
    LET roots == {e \in Elems(G) : e[2] \notin HelperKinds}
                 \cup {e \in Elems(G) : e[2] \in UnionKinds /\
                          \E r \in Refs(G) : r[2] = e[2] /\ r[3] = e[3] /\ r[1] \in Members /\ Resolves(G, r)}
        keep == KeepFix(G, roots)
    IN [elems |-> SelectSeq(G.elems, LAMBDA e : e \in keep),
        refs  |-> SelectSeq(G.refs, LAMBDA r : (\E o \in keep : o[2] = r[2] /\ o[3] = r[3]))]

(***************************************************************************)
(* C11  check(): cross-reference reports are sound and complete            *)
(*   reports : set of reported target names                                *)
(*   comps   : set of <<TYPEDEF_STRUCTURE name, component name, component  *)
(*             type>> (needed for the THIS. convention)                    *)
(*   this    : set of <<name, suffix>> for every name of the form THIS.x   *)
(***************************************************************************)
ThisSites == {"TYPEDEF_CHARACTERISTIC/AXIS_DESCR/AXIS_PTS_REF.axis_points",
              "TYPEDEF_CHARACTERISTIC/AXIS_DESCR/CURVE_AXIS_REF.curve_axis"}
\* what check() has to report for the reference r (the empty set if it resolves)
ExpectedReport(G, r, comps, this) ==
    IF ~SiteChecked[r[1]] \/ IsNeutral(r) THEN {}
    ELSE LET direct == \E i \in Refs(G) : i[1] = "INSTANCE.type_ref" /\ i[4] = r[3]
             containing == {c[1] : c \in {x \in comps : x[3] = r[3]}}
             isThis == \E p \in this : p[1] = r[4]
         IN IF r[1] \in ThisSites /\ ~direct /\ containing # {} /\ isThis
            THEN \* a TYPEDEF_CHARACTERISTIC that is only used as a structure component may refer to a
                 \* sibling component as THIS.x; every containing structure must have a component x
                 LET x == (CHOOSE p \in this : p[1] = r[4])[2] IN
                 IF \A ts \in containing : \E c \in comps : c[1] = ts /\ c[2] = x THEN {} ELSE {x}
            ELSE IF r[4] \in Names(G, SiteTarget[r[1]]) THEN {} ELSE {r[4]}
ExpectedReports(G, comps, this) == UNION {ExpectedReport(G, r, comps, this) : r \in Refs(G)}
CheckOK(G, reports, comps, this) ==
    /\ Chk("Sound", \A t \in reports : t \in ExpectedReports(G, comps, this))
    /\ Chk("Complete", \A t \in ExpectedReports(G, comps, this) : t \in reports)
=============================================================================
