SPECIFICATION Spec
CONSTANTS
  Attribution = "outermost"
INVARIANTS IdealOK ImplOK Emit
CHECK_DEADLOCK FALSE
