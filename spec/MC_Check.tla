------------------------------ MODULE MC_Check ------------------------------
(* Scenario generator for C11: for every reference site a consistent module with the site
   populated, and the single corruptions of the property: target replaced by an unused name (at
   each list position), neutral names, a homonym that exists only in another namespace, the THIS.
   convention in directly / indirectly used TYPEDEF_CHARACTERISTICs; plus the totality family
   (CHARACTERISTIC types x 0..7 AXIS_DESCR of every attribute, self-referencing groups, empty
   lists).  ExpectedReports of Graph.tla is evaluated inside TLC for every case (consistent =>
   empty; corrupted => exactly the missing name) and every case is exported for the real check(). *)
EXTENDS Graph, Json

VARIABLE sc
SeqRange(s) == {s[i] : i \in 1..Len(s)}
El(k, n, c, refs) == [kind |-> k, name |-> n, c |-> c, refs |-> refs, criteria |-> <<>>, opts |-> [none |-> 0]]
OwnerName(k) == IF k \in SingleKinds THEN "-" ELSE "o1"
HomonymKind(n) == IF n = "OBJECT" THEN "COMPU_METHOD" ELSE "MEASUREMENT"
Names3(pos, t) == CASE pos = 1 -> <<t, "x1", "y1">> [] pos = 2 -> <<"x1", t, "y1">> [] OTHER -> <<"x1", "y1", t>>

SiteCases ==
    UNION {{[fam |-> "site", site |-> s, tk |-> tk, mode |-> m, pos |-> p] :
              tk \in (IF SiteTarget[s] \in LocalNs THEN {"-"} ELSE SeqRange(KindsOfNs[SiteTarget[s]])),
              m \in {"ok", "corrupt", "neutral", "homonym"},
              p \in (IF SiteIsList[s] THEN 1..3 ELSE {1})} : s \in SiteIds}
ValidSite(x) ==
    /\ (x.mode = "neutral" => SiteNeutral[x.site] # "" /\ x.pos = 1)
    /\ (x.mode = "homonym" => x.pos = 1 /\ SiteTarget[x.site] \notin LocalNs)
    /\ (x.mode = "ok" => x.pos = 1)
    /\ (SiteTarget[x.site] \in LocalNs => x.mode \in {"ok", "corrupt"})
ThisCases == {[fam |-> "this", site |-> s, direct |-> d, contained |-> c, comp |-> k] :
                 s \in ThisSites, d \in BOOLEAN, c \in 0..2, k \in {"present", "absent", "partly"}}
CTypes == {"VALUE", "CURVE", "MAP", "CUBOID", "CUBE_4", "CUBE_5", "VAL_BLK", "ASCII"}
AxisCases == {[fam |-> "axes", ctype |-> t, n |-> n, attr |-> a, owner |-> o] :
                 t \in CTypes, n \in 0..7, a \in {"STD_AXIS", "COM_AXIS", "FIX_AXIS", "CURVE_AXIS", "RES_AXIS"},
                 o \in {"CHARACTERISTIC", "TYPEDEF_CHARACTERISTIC"}}
OddCases == {[fam |-> "odd", what |-> w] : w \in {"selfgroup", "selffunction", "emptylists", "two_roots", "selfunit"}}

ModuleOf(x) ==
    IF x.fam = "site" THEN
        LET s == x.site
            n == SiteTarget[s]
            okind == SiteOwner[s]
            local == n \in LocalNs
            t == CASE x.mode = "corrupt" -> "missing1" [] x.mode = "neutral" -> SiteNeutral[s] [] OTHER -> "t1"
            names == IF SiteIsList[s] /\ ~local THEN Names3(x.pos, t) ELSE <<t>>
            owner == [El(okind, OwnerName(okind), 10, <<<<s, names>>>>) EXCEPT
                        !.criteria = IF okind = "VARIANT_CODING" THEN <<"t1">> ELSE <<>>]
            targets == IF local THEN <<>>
                       ELSE (IF x.mode = "homonym" THEN <<El(HomonymKind(n), "t1", 20, <<>>)>> ELSE <<El(x.tk, "t1", 20, <<>>)>>)
                            \o (IF SiteIsList[s] THEN <<El(x.tk, "x1", 21, <<>>), El(x.tk, "y1", 22, <<>>)>> ELSE <<>>)
        IN <<owner>> \o targets
    ELSE IF x.fam = "this" THEN
        \* td1 refers to THIS.comp0; it is a component of x.contained structures; comp0 present in all/none/some
        LET td == El("TYPEDEF_CHARACTERISTIC", "td1", 10, <<<<x.site, <<"THIS.comp0">>>>>>)
            has(i) == x.comp = "present" \/ (x.comp = "partly" /\ i = 1)
            st(i) == [El("TYPEDEF_STRUCTURE", IF i = 1 THEN "ts1" ELSE "ts2", 30 + i,
                         <<<<"TYPEDEF_STRUCTURE/STRUCTURE_COMPONENT.component_type",
                             IF has(i) THEN <<"tdax", "td1">> ELSE <<"td1">>>>>>) EXCEPT
                        !.opts = [compnames |-> IF has(i) THEN <<"comp0", "comp1">> ELSE <<"comp1">>]]
            inst == IF x.direct THEN <<El("INSTANCE", "i1", 40, <<<<"INSTANCE.type_ref", <<"td1">>>>>>)>> ELSE <<>>
        IN <<td, El("TYPEDEF_AXIS", "tdax", 50, <<>>)>> \o [i \in 1..x.contained |-> st(i)] \o inst
    ELSE IF x.fam = "axes" THEN
        <<[El(x.owner, "o1", 10, <<>>) EXCEPT !.opts = [ctype |-> x.ctype, nax |-> x.n, attr |-> x.attr]],
          El("AXIS_PTS", "ax0", 20, <<>>), El("CHARACTERISTIC", "cv0", 21, <<>>)>>
    ELSE
        CASE x.what = "selfgroup" -> <<El("GROUP", "g1", 10, <<<<"GROUP/SUB_GROUP.identifier_list", <<"g1">>>>>>)>>
          [] x.what = "selffunction" -> <<El("FUNCTION", "f1", 10, <<<<"FUNCTION/SUB_FUNCTION.identifier_list", <<"f1">>>>>>)>>
          [] x.what = "selfunit" -> <<El("UNIT", "u1", 10, <<<<"UNIT/REF_UNIT.unit", <<"u1">>>>>>)>>
          [] x.what = "two_roots" -> <<El("GROUP", "g1", 10, <<<<"GROUP/SUB_GROUP.identifier_list", <<"g3">>>>>>),
                                       El("GROUP", "g2", 11, <<<<"GROUP/SUB_GROUP.identifier_list", <<"g3">>>>>>), El("GROUP", "g3", 12, <<>>)>>
          [] OTHER -> <<[El("GROUP", "g1", 10, <<>>) EXCEPT !.opts = [emptylists |-> 1]],
                        [El("FUNCTION", "f1", 11, <<>>) EXCEPT !.opts = [emptylists |-> 1]]>>

FlatRefs(M) == UNION {UNION {{<<M[i].refs[j][1], M[i].kind, M[i].name, M[i].refs[j][2][k]>> :
                                 k \in 1..Len(M[i].refs[j][2])} : j \in 1..Len(M[i].refs)} : i \in 1..Len(M)}
Flat(M) == [elems |-> [i \in 1..Len(M) |-> <<NsOfKind[M[i].kind], M[i].kind, M[i].name, M[i].c>>],
            refs |-> SetToSeq(FlatRefs(M))]

Init == sc = [stage |-> 0]
Next == \/ sc.stage = 0 /\ \E f \in {"site", "this", "axes", "odd"} : sc' = [stage |-> 1, fam |-> f]
        \/ sc.stage = 1 /\ \E x \in (CASE sc.fam = "site" -> {y \in SiteCases : ValidSite(y)} [] sc.fam = "this" -> ThisCases
                                       [] sc.fam = "axes" -> AxisCases [] OTHER -> OddCases) :
                               sc' = [stage |-> 2, x |-> x]
Spec == Init /\ [][Next]_sc

\* design-level sanity of the oracle on the site family: consistent => nothing to report,
\* corrupted => exactly the unused name
DesignOK ==
    (sc.stage = 2 /\ sc.x.fam = "site") =>
    LET G == Flat(ModuleOf(sc.x))
        e == ExpectedReports(G, {}, {})
    IN CASE sc.x.mode \in {"ok", "neutral"} -> e = {}
         [] sc.x.mode = "corrupt" -> e = (IF SiteChecked[sc.x.site] THEN {"missing1"} ELSE {})
         [] OTHER -> e = (IF SiteChecked[sc.x.site] THEN {"t1"} ELSE {})
Emit == sc.stage = 2 => PrintT(<<"CASE", ToJson([id |-> sc.x, G |-> ModuleOf(sc.x)])>>)
=============================================================================
