SPECIFICATION Spec
INVARIANTS Emit
CHECK_DEADLOCK FALSE
