---------------------------- MODULE MC_ItemList ----------------------------
(* Exhaustive configuration of ItemList: 4 names => 65 duplicate-free lists; every operation
   with every argument (incl. out-of-range) from every state.  Each transition is exported as
   one JSON line for replay against the Rust ItemList (B2). *)
EXTENDS ItemList, Json

MCNames == {"a", "b", "c", "d"}
MCNameOrder == <<"a", "b", "c", "d">>
MCNames5 == {"a", "b", "c", "d", "e"}
MCNameOrder5 == <<"a", "b", "c", "d", "e">>
View == <<items, map, ideal, panic>>

\* evaluated by TLC for every generated transition (s, s')
EmitTransition ==
    PrintT(<<"T", ToJson([from |-> ideal, op |-> last', to |-> ObsIdeal(ideal'), ret |-> iret'])>>)
=============================================================================
