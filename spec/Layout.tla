------------------------------- MODULE Layout -------------------------------
(***************************************************************************)
(* Line layout of a document through load and write (parser.rs:            *)
(* get_line_offset, tokenizer.rs: the line stored with each token,         *)
(* writer.rs: add_whitespace / comments).                                  *)
(*                                                                         *)
(* A document is a sequence of items [k, h, gap]:                          *)
(*   k   "tok" | "cmt" | "str"    (token, comment, quoted string / A2ML)   *)
(*   h   height: the number of lines the item spans (1 = on one line)      *)
(*   gap number of line breaks between the end of the previous item and    *)
(*       the start of this one (0 = same line; for the first item: blank   *)
(*       lines before it)                                                  *)
(* Ideal (C05): every item is written on the line on which it was read.    *)
(* Implementation-shaped: the tokenizer stores ONE line per token (start   *)
(* line for tokens and comments, END line for strings); the parser stores  *)
(* offset_i = stored(i) - stored(i-1); the writer emits offset_i line      *)
(* breaks before item i.  CommentHeightAware = TRUE models the code after  *)
(* the D3 fix (the height of a preceding block comment is added to its     *)
(* stored line before the difference is taken).                            *)
(***************************************************************************)
EXTENDS Integers, Sequences, TLC

CONSTANT CommentHeightAware

\* input geometry
RECURSIVE StartLine(_, _)
EndLine(d, i) == StartLine(d, i) + d[i].h - 1
StartLine(d, i) == IF i = 1 THEN 1 + d[1].gap ELSE EndLine(d, i - 1) + d[i].gap

\* the line the tokenizer stores with item i
Stored(d, i) == IF d[i].k = "str" THEN EndLine(d, i) ELSE StartLine(d, i)
\* get_line_offset for item i
Offset(d, i) ==
    IF i = 1 THEN Stored(d, 1) - 1
    ELSE LET prev == IF CommentHeightAware /\ d[i - 1].k = "cmt" THEN Stored(d, i - 1) + d[i - 1].h - 1
                     ELSE Stored(d, i - 1)
         IN Stored(d, i) - prev

\* writer geometry: offset line breaks before the item, then the item with its own height
RECURSIVE OutStart(_, _)
OutEnd(d, i) == OutStart(d, i) + d[i].h - 1
OutStart(d, i) == IF i = 1 THEN 1 + Offset(d, 1) ELSE OutEnd(d, i - 1) + Offset(d, i)

LinePreserved(d) == \A i \in 1..Len(d) : OutStart(d, i) = StartLine(d, i)

\* the document as the writer produced it: the writer escapes line breaks inside strings, so a written
\* string is one line high; the gaps are what was written.  Writing must be a fixpoint.
Flat(d) == [i \in 1..Len(d) |-> IF d[i].k = "str" THEN [d[i] EXCEPT !.h = 1] ELSE d[i]]
Rewritten(d) == [i \in 1..Len(d) |-> [Flat(d)[i] EXCEPT !.gap = Offset(d, i)]]
CycleStable(d) == LET w == Rewritten(d) IN Rewritten(w) = w

\* preconditions of the property: strings do not contain raw line breaks
InScope(d) == \A i \in 1..Len(d) : d[i].k = "str" => d[i].h = 1
=============================================================================
