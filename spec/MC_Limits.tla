------------------------------ MODULE MC_Limits ------------------------------
(* enumerates the complete decision table of Limits.tla: element kind x data type x conversion
   case x placement of the declared lower / upper limit; each row is exported and instantiated
   numerically by the harness *)
EXTENDS Limits, Json

VARIABLE sc
Init == sc = [stage |-> 0]
Next == \/ sc.stage = 0 /\ \E k \in Kinds, d \in DataTypes : sc' = [stage |-> 1, kind |-> k, dt |-> d]
        \/ sc.stage = 1 /\ \E c \in Convs, lo \in Sides, hi \in Sides :
               sc' = [stage |-> 2, kind |-> sc.kind, dt |-> sc.dt, conv |-> c, lower |-> lo, upper |-> hi]
Spec == Init /\ [][Next]_sc

TableOK == sc.stage = 2 =>
              /\ WellFormed(sc.conv)
              /\ (sc.lower = "inside" /\ sc.upper = "inside") => ~Report(sc.conv, sc.lower, sc.upper)
              /\ Unbounded(sc.conv) => ~Report(sc.conv, sc.lower, sc.upper)
Emit == sc.stage = 2 =>
          PrintT(<<"CASE", ToJson([kind |-> sc.kind, dt |-> sc.dt, conv |-> sc.conv, lower |-> sc.lower, upper |-> sc.upper,
                                   physLo |-> PhysLo(sc.conv), physHi |-> PhysHi(sc.conv),
                                   unbounded |-> Unbounded(sc.conv), report |-> Report(sc.conv, sc.lower, sc.upper)])>>)
=============================================================================
