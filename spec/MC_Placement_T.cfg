SPECIFICATION MCSpec
CONSTANTS
  Kinds <- MCKinds
  KindRank <- MCKindRank
  MaxUid = 2147483647
  CompactAt = 1073741824
  Compact = TRUE
  SortKindOrder <- MCSortKindOrder
  WithSortFull = FALSE
  Wrap = FALSE
  MaxInit = 3
  MaxElems = 5
  UidBound = 24
  NewNames = {1, 2}
  MergeLines = {7}
  UidBases = {0}
VIEW View
CONSTRAINT Bounded
INVARIANTS NoPanic UidsBounded
PROPERTIES SortStepIdeal InsertKeepsOrder
ACTION_CONSTRAINT EmitTransition
CHECK_DEADLOCK FALSE
