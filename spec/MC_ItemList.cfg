SPECIFICATION Spec
CONSTANTS
  Names <- MCNames
  NameOrder <- MCNameOrder
  GuardLast = TRUE
VIEW View
INVARIANTS Coherent Refines NoPanic UniqueNames RemovedAreGone
ACTION_CONSTRAINT EmitTransition
CHECK_DEADLOCK FALSE
