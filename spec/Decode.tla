------------------------------- MODULE Decode -------------------------------
(***************************************************************************)
(* Text encoding detection of the loader (loader.rs: decode_raw_bytes and  *)
(* the BOM strip in load), transcribed as a decision procedure over byte   *)
(* sequences: UTF-32 (either byte order, with or without BOM), then UTF-16,*)
(* then UTF-8, else ISO-8859-1.  A text is a sequence of Unicode code      *)
(* points; Invalid marks "not decodable in this encoding".                 *)
(*                                                                         *)
(* C17 at the design level: for every encoding e and every text d whose    *)
(* first character is ASCII,  Load(Encode(e, d)) = d.                      *)
(***************************************************************************)
EXTENDS Integers, Sequences, TLC

Invalid == <<-1>>
IsSurrogate(c) == c >= 55296 /\ c <= 57343          \* D800..DFFF
ValidCp(c) == c <= 1114111 /\ ~IsSurrogate(c)        \* char::from_u32

(***************************************************************************)
(* encoders                                                                *)
(***************************************************************************)
Utf8Of(c) ==
    IF c < 128 THEN <<c>>
    ELSE IF c < 2048 THEN <<192 + (c \div 64), 128 + (c % 64)>>
    ELSE IF c < 65536 THEN <<224 + (c \div 4096), 128 + ((c \div 64) % 64), 128 + (c % 64)>>
    ELSE <<240 + (c \div 262144), 128 + ((c \div 4096) % 64), 128 + ((c \div 64) % 64), 128 + (c % 64)>>
Utf16Units(c) == IF c < 65536 THEN <<c>> ELSE <<55296 + ((c - 65536) \div 1024), 56320 + ((c - 65536) % 1024)>>
Unit16(u, be) == IF be THEN <<u \div 256, u % 256>> ELSE <<u % 256, u \div 256>>
Cp32(c, be) == IF be THEN <<0, c \div 65536, (c \div 256) % 256, c % 256>>
               ELSE <<c % 256, (c \div 256) % 256, c \div 65536, 0>>

RECURSIVE Flat(_)
Flat(ss) == IF ss = <<>> THEN <<>> ELSE Head(ss) \o Flat(Tail(ss))
RECURSIVE Utf16Bytes(_, _)
Utf16Bytes(units, be) == IF units = <<>> THEN <<>> ELSE Unit16(Head(units), be) \o Utf16Bytes(Tail(units), be)

Encodings == {"utf8", "utf8bom", "utf16le", "utf16be", "utf16lebom", "utf16bebom",
              "utf32le", "utf32be", "utf32lebom", "utf32bebom"}
BOM == 65279
Encode(e, d) ==
    LET t == IF e \in {"utf8bom", "utf16lebom", "utf16bebom", "utf32lebom", "utf32bebom"} THEN <<BOM>> \o d ELSE d
        be == e \in {"utf16be", "utf16bebom", "utf32be", "utf32bebom"}
    IN IF e \in {"utf8", "utf8bom"} THEN Flat([i \in 1..Len(t) |-> Utf8Of(t[i])])
       ELSE IF e \in {"utf16le", "utf16be", "utf16lebom", "utf16bebom"}
            THEN Utf16Bytes(Flat([i \in 1..Len(t) |-> Utf16Units(t[i])]), be)
            ELSE Flat([i \in 1..Len(t) |-> Cp32(t[i], be)])

(***************************************************************************)
(* decoders (strict, as the Rust standard library)                         *)
(***************************************************************************)
Cont(b) == b >= 128 /\ b <= 191
RECURSIVE Utf8Dec(_, _, _)
Utf8Dec(b, i, acc) ==
    IF i > Len(b) THEN acc
    ELSE LET b1 == b[i]
             has(k) == i + k <= Len(b)
         IN IF b1 < 128 THEN Utf8Dec(b, i + 1, Append(acc, b1))
            ELSE IF b1 >= 194 /\ b1 <= 223
                 THEN IF has(1) /\ Cont(b[i + 1]) THEN Utf8Dec(b, i + 2, Append(acc, (b1 - 192) * 64 + (b[i + 1] - 128))) ELSE Invalid
            ELSE IF b1 >= 224 /\ b1 <= 239
                 THEN IF has(2) /\ Cont(b[i + 1]) /\ Cont(b[i + 2])
                         /\ (b1 = 224 => b[i + 1] >= 160) /\ (b1 = 237 => b[i + 1] <= 159)
                      THEN Utf8Dec(b, i + 3, Append(acc, (b1 - 224) * 4096 + (b[i + 1] - 128) * 64 + (b[i + 2] - 128)))
                      ELSE Invalid
            ELSE IF b1 >= 240 /\ b1 <= 244
                 THEN IF has(3) /\ Cont(b[i + 1]) /\ Cont(b[i + 2]) /\ Cont(b[i + 3])
                         /\ (b1 = 240 => b[i + 1] >= 144) /\ (b1 = 244 => b[i + 1] <= 143)
                      THEN Utf8Dec(b, i + 4, Append(acc, (b1 - 240) * 262144 + (b[i + 1] - 128) * 4096
                                                       + (b[i + 2] - 128) * 64 + (b[i + 3] - 128)))
                      ELSE Invalid
            ELSE Invalid

RECURSIVE Utf16Dec(_, _, _)
Utf16Dec(u, i, acc) ==
    IF i > Len(u) THEN acc
    ELSE IF u[i] >= 55296 /\ u[i] <= 56319                       \* high surrogate
         THEN IF i + 1 <= Len(u) /\ u[i + 1] >= 56320 /\ u[i + 1] <= 57343
              THEN Utf16Dec(u, i + 2, Append(acc, 65536 + (u[i] - 55296) * 1024 + (u[i + 1] - 56320)))
              ELSE Invalid
         ELSE IF u[i] >= 56320 /\ u[i] <= 57343 THEN Invalid      \* lone low surrogate
         ELSE Utf16Dec(u, i + 1, Append(acc, u[i]))

\* one UTF-32 character; -1 if it is not a Unicode scalar value (TLC integers are 32 bit signed, so
\* the top byte is tested instead of being multiplied in)
Cp32Of(b, k, be) ==
    LET hi == IF be THEN b[k] ELSE b[k + 3]
        v == IF be THEN b[k + 1] * 65536 + b[k + 2] * 256 + b[k + 3]
             ELSE b[k + 2] * 65536 + b[k + 1] * 256 + b[k]
    IN IF hi # 0 \/ ~ValidCp(v) THEN -1 ELSE v

(***************************************************************************)
(* decode_raw_bytes                                                        *)
(***************************************************************************)
TryUtf32(b) ==
    IF Len(b) % 4 = 0 /\ Len(b) > 3
    THEN LET conv == IF b[1] = 0 /\ b[2] = 0 /\ b[4] # 0 THEN "be"
                     ELSE IF b[1] # 0 /\ b[3] = 0 /\ b[4] = 0 THEN "le" ELSE "none"
         IN IF conv = "none" THEN Invalid
            ELSE LET cps == [i \in 1..(Len(b) \div 4) |-> Cp32Of(b, 4 * i - 3, conv = "be")]
                 IN IF \E i \in 1..Len(cps) : cps[i] = -1 THEN Invalid ELSE cps
    ELSE Invalid

TryUtf16(b) ==
    IF Len(b) % 2 = 0 /\ Len(b) > 1
    THEN LET conv == IF (b[1] = 0 /\ b[2] # 0) \/ (b[1] = 254 /\ b[2] = 255) THEN "be"
                     ELSE IF (b[1] # 0 /\ b[2] = 0) \/ (b[1] = 255 /\ b[2] = 254) THEN "le" ELSE "none"
         IN IF conv = "none" THEN Invalid
            ELSE Utf16Dec([i \in 1..(Len(b) \div 2) |->
                              IF conv = "be" THEN b[2 * i - 1] * 256 + b[2 * i] ELSE b[2 * i] * 256 + b[2 * i - 1]],
                          1, <<>>)
    ELSE Invalid

DecodeRaw(b) ==
    IF TryUtf32(b) # Invalid THEN TryUtf32(b)
    ELSE IF TryUtf16(b) # Invalid THEN TryUtf16(b)
    ELSE IF Utf8Dec(b, 1, <<>>) # Invalid THEN Utf8Dec(b, 1, <<>>)
    ELSE b                                                        \* ISO-8859-1: byte = code point
WhichEncoding(b) ==
    IF TryUtf32(b) # Invalid THEN "utf32"
    ELSE IF TryUtf16(b) # Invalid THEN "utf16"
    ELSE IF Utf8Dec(b, 1, <<>>) # Invalid THEN "utf8" ELSE "latin1"

\* loader::load: a leading BOM character is removed
StripBom(t) == IF Len(t) > 0 /\ t[1] = BOM THEN Tail(t) ELSE t
Load(b) == StripBom(DecodeRaw(b))

RoundTrips(e, d) == Load(Encode(e, d)) = d
=============================================================================
