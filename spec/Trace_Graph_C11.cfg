SPECIFICATION TraceSpec
CONSTANTS
  Judge = {"C11"}
POSTCONDITION TraceAccepted
CHECK_DEADLOCK FALSE
