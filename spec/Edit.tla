-------------------------------- MODULE Edit --------------------------------
(***************************************************************************)
(* Edits of a model through the API and what they do to the written text   *)
(* (C05, third sentence: "changing, adding or removing one object through  *)
(* the API changes only the output lines that belong to that object"; C01: *)
(* a model built or edited through the API is written and loaded again to  *)
(* an equal model).                                                        *)
(*                                                                         *)
(* The module-level view: a model is a sequence of objects in list order,  *)
(*    [id, tag, uid, line, gap, h]                                         *)
(* uid / line: the position keys the writer sorts by (BlockInfo.uid, line; *)
(*      an object created through the API has uid = 0 and line = 0)        *)
(* gap: line breaks in front of the object (start_offset), h: its height   *)
(* The writer (writer.rs add_group / sort_function) orders the objects:    *)
(* loaded objects (uid # 0) by uid; then the new ones (uid = 0) by line,   *)
(* then by tag; the sort is stable, so new objects of one kind keep the    *)
(* order in which they were pushed.  The text is the concatenation of      *)
(* <gap blank-or-break lines, then h lines> per object; every line is      *)
(* labelled with the id of the object it belongs to.                       *)
(***************************************************************************)
EXTENDS Integers, Sequences, FiniteSets, TLC

CONSTANTS Tags,        \* kinds of objects (ordered as strings by TagRank)
          TagRank,     \* function Tags -> Nat: the alphabetical order of the tags
          MaxObjects, MaxHeight, MaxGap,
          StableSort   \* TRUE: the writer's sort keeps the list order of objects with equal keys (sort_by);
                       \* FALSE: one possible outcome of an unstable sort (equal keys in reverse list order)

VARIABLES model,       \* Seq(object), list order
          nextId,
          last         \* the last edit: [op, id, before, after]  (texts as sequences of owner ids)

vars == <<model, nextId, last>>

\* writer order: key of an object; Position in the model breaks ties (stable sort)
Before(m, i, j) ==
    LET a == m[i]  b == m[j] IN
    IF a.uid = 0 /\ b.uid # 0 THEN FALSE
    ELSE IF b.uid = 0 /\ a.uid # 0 THEN TRUE
    ELSE IF a.uid # b.uid THEN a.uid < b.uid
    ELSE IF a.line # b.line THEN a.line < b.line
    ELSE IF a.tag # b.tag THEN TagRank[a.tag] < TagRank[b.tag]
    ELSE IF StableSort THEN i < j ELSE j < i

\* the permutation of 1..Len(m) in writer order
Rank(m, i) == Cardinality({j \in 1..Len(m) : j # i /\ Before(m, j, i)}) + 1
Ordered(m) == [r \in 1..Len(m) |-> m[CHOOSE i \in 1..Len(m) : Rank(m, i) = r]]

\* the text: one owner id per line
RECURSIVE LinesOf(_)
LinesOf(objs) == IF objs = <<>> THEN <<>>
                 ELSE [k \in 1..(Head(objs).gap + Head(objs).h) |-> Head(objs).id] \o LinesOf(Tail(objs))
Text(m) == LinesOf(Ordered(m))
Without(t, id) == SelectSeq(t, LAMBDA x : x # id)

Init == /\ model = <<>>
        /\ nextId = 1
        /\ last = [op |-> "none", id |-> 0, before |-> <<>>, after |-> <<>>]

\* an object as the loader creates it (uid in file order) - used to build the initial file
Load(tag, h, gap) ==
    /\ Len(model) < MaxObjects
    /\ last.op \in {"none", "load"}
    /\ model' = Append(model, [id |-> nextId, tag |-> tag, uid |-> Len(model) + 1, line |-> Len(model) + 1, gap |-> gap, h |-> h])
    /\ nextId' = nextId + 1
    /\ last' = [op |-> "load", id |-> nextId, before |-> Text(model), after |-> Text(model')]

\* push(T::new(..)): uid 0, line 0, default offsets (one line break in front)
Push(tag, h) ==
    /\ Len(model) < MaxObjects
    /\ model' = Append(model, [id |-> nextId, tag |-> tag, uid |-> 0, line |-> 0, gap |-> 1, h |-> h])
    /\ nextId' = nextId + 1
    /\ last' = [op |-> "push", id |-> nextId, before |-> Text(model), after |-> Text(model')]

Remove(i) ==
    /\ i \in 1..Len(model)
    /\ model' = [k \in 1..(Len(model) - 1) |-> IF k < i THEN model[k] ELSE model[k + 1]]
    /\ UNCHANGED nextId
    /\ last' = [op |-> "remove", id |-> model[i].id, before |-> Text(model), after |-> Text(model')]

\* a field edit may change the height of the object (a list grows), never its position keys
SetField(i, h) ==
    /\ i \in 1..Len(model)
    /\ model' = [model EXCEPT ![i].h = h]
    /\ UNCHANGED nextId
    /\ last' = [op |-> "set", id |-> model[i].id, before |-> Text(model), after |-> Text(model')]

Next == \/ \E t \in Tags, h \in 1..MaxHeight, g \in 0..MaxGap : Load(t, h, g)
        \/ \E t \in Tags, h \in 1..MaxHeight : Push(t, h)
        \/ \E i \in 1..MaxObjects : Remove(i)
        \/ \E i \in 1..MaxObjects, h \in 1..MaxHeight : SetField(i, h)

Spec == Init /\ [][Next]_vars

\* C05: only the lines of the edited object change
EditLocal == last.op \in {"push", "remove", "set"} => Without(last.before, last.id) = Without(last.after, last.id)
\* new objects are written behind everything that was loaded, and an existing object never moves
NewObjectsLast == \A i, j \in 1..Len(model) : (model[i].uid # 0 /\ model[j].uid = 0) => Before(model, i, j)

(***************************************************************************)
(* The pinned alternative that C01 must exclude: an unstable sort may      *)
(* exchange new objects of one kind.  Writing and loading again then gives *)
(* the lists in another order than the model had.  ReloadEqual states what *)
(* the stable order guarantees: objects of one tag are written in list     *)
(* order.                                                                  *)
(***************************************************************************)
ReloadEqual == LET o == Ordered(model) IN
               \A a, b \in 1..Len(o) : (a < b /\ o[a].tag = o[b].tag /\ o[a].uid = 0 /\ o[b].uid = 0) =>
                   (CHOOSE i \in 1..Len(model) : model[i].id = o[a].id) < (CHOOSE i \in 1..Len(model) : model[i].id = o[b].id)
=============================================================================
