SPECIFICATION Spec
INVARIANTS DesignOK Emit
CHECK_DEADLOCK FALSE
