------------------------------ MODULE MC_Include ------------------------------
(* C16 case generator: documents of 3 module-level elements split over include files in every
   shape below x placement of every include file relative to its including file x quoted /
   unquoted name x separator; plus the A2ML-include shape and the fault cases.  The writer model
   of Include.tla is checked for every shape (expected to fail for nested includes with
   Attribution = "innermost"). *)
EXTENDS Include, Json

VARIABLE sc
E(i) == [k |-> "e", id |-> i]
File(n, place, q, s, items) == [name |-> n, place |-> place, quoted |-> q, sep |-> s, items |-> items]
Inc(f) == [k |-> "inc", f |-> f]
Places == {"same", "sub", "subsub", "digitdir"}     \* (digitdir: a directory whose name begins with a digit)
Seps == {"/", "\\"}

Shapes == {"flat1", "two", "first_last", "nested2", "nested3", "sibling_nested", "empty_inc", "only_inc"}
ShapeOf(sh, p1, p2, p3, q, s) ==
    LET A(items) == File("incA.a2l", p1, q, s, items)
        B(items) == File("incB.a2l", p2, q, s, items)
        C(items) == File("incC.a2l", p3, q, s, items)
    IN CASE sh = "flat1" -> File("main.a2l", "same", TRUE, "/", <<E(1), Inc(A(<<E(2)>>)), E(3)>>)
         [] sh = "two" -> File("main.a2l", "same", TRUE, "/", <<Inc(A(<<E(1)>>)), E(2), Inc(B(<<E(3)>>))>>)
         [] sh = "first_last" -> File("main.a2l", "same", TRUE, "/", <<Inc(A(<<E(1), E(2)>>)), Inc(B(<<E(3)>>))>>)
         [] sh = "nested2" -> File("main.a2l", "same", TRUE, "/", <<E(1), Inc(A(<<E(2), Inc(B(<<E(3)>>))>>))>>)
         [] sh = "nested3" -> File("main.a2l", "same", TRUE, "/", <<Inc(A(<<Inc(B(<<Inc(C(<<E(1)>>))>>)), E(2)>>)), E(3)>>)
         [] sh = "sibling_nested" -> File("main.a2l", "same", TRUE, "/", <<Inc(A(<<E(1), Inc(C(<<E(2)>>))>>)), Inc(B(<<E(3)>>))>>)
         [] sh = "empty_inc" -> File("main.a2l", "same", TRUE, "/", <<E(1), Inc(A(<<>>)), E(2), E(3)>>)
         [] OTHER -> File("main.a2l", "same", TRUE, "/", <<Inc(A(<<E(1), E(2), E(3)>>))>>)

Faults == {"missing", "isdir", "self", "mutual", "missing_nested"}

Init == sc = [stage |-> 0]
Next == \/ sc.stage = 0 /\ \E sh \in Shapes, p1 \in Places : sc' = [stage |-> 1, sh |-> sh, p1 |-> p1]
        \* (an unquoted name that begins with a digit is not a file name token: digit-led directories only in quoted names)
        \/ sc.stage = 1 /\ \E p2 \in Places, p3 \in Places, q \in BOOLEAN, s \in Seps :
               ("digitdir" \in {sc.p1, p2, p3} => q) /\
               sc' = [stage |-> 2, fam |-> "shape", sh |-> sc.sh, f |-> ShapeOf(sc.sh, sc.p1, p2, p3, q, s)]
        \/ sc.stage = 0 /\ \E ft \in Faults, q \in BOOLEAN : sc' = [stage |-> 2, fam |-> "fault", fault |-> ft, quoted |-> q]
        \/ sc.stage = 0 /\ \E p1 \in Places, q \in BOOLEAN, s \in Seps : sc' = [stage |-> 2, fam |-> "a2ml", place |-> p1, quoted |-> q, sep |-> s, nested |-> FALSE]
        \* the A2ML block stands in an included file of another directory; the name inside it is relative to that file
        \/ sc.stage = 0 /\ \E p1 \in Places \ {"same"}, q \in BOOLEAN : sc' = [stage |-> 2, fam |-> "a2ml", place |-> p1, quoted |-> q, sep |-> "/", nested |-> TRUE]
        \* the include file named by its absolute path
        \/ sc.stage = 0 /\ sc' = [stage |-> 2, fam |-> "shape", sh |-> "flat1", f |-> ShapeOf("flat1", "same", "same", "same", TRUE, "/"), abs |-> TRUE]
        \* include files with a comment between their elements (comments are module children of their own)
        \/ sc.stage = 0 /\ \E sh \in {"first_last", "only_inc", "sibling_nested", "nested2"} :
               sc' = [stage |-> 2, fam |-> "shape", sh |-> sh, f |-> ShapeOf(sh, "same", "sub", "same", TRUE, "/"), cmt |-> TRUE]
        \* the include file in another text encoding than the main file (the loader decodes every file on its own)
        \/ sc.stage = 0 /\ \E enc \in {"utf8bom", "utf16le_bom", "utf16be_bom", "utf32le_bom", "utf16le"} :
               sc' = [stage |-> 2, fam |-> "shape", sh |-> "flat1", f |-> ShapeOf("flat1", "same", "same", "same", TRUE, "/"), enc |-> enc]
        \* a recoverable problem inside an include file: the diagnostic names that file and the line in it
        \/ sc.stage = 0 /\ \E p1 \in Places, lvl \in {1, 2} : sc' = [stage |-> 2, fam |-> "diag", place |-> p1, level |-> lvl]
        \* one include file used by two elements (and by two include files: a diamond)
        \/ sc.stage = 0 /\ \E q \in BOOLEAN, dia \in BOOLEAN : sc' = [stage |-> 2, fam |-> "shared", quoted |-> q, diamond |-> dia]
        \* an include inside an IF_DATA block (described by the A2ML of the file, or by nothing)
        \/ sc.stage = 0 /\ \E p1 \in Places, q \in BOOLEAN, d \in BOOLEAN :
               (p1 = "digitdir" => q) /\
               sc' = [stage |-> 2, fam |-> "ifdata", place |-> p1, quoted |-> q, sep |-> "/", described |-> d]
Spec == Init /\ [][Next]_sc

IdealOK == (sc.stage = 2 /\ sc.fam = "shape") => ReloadEqualIdeal(sc.f)
\* an include file without any element leaves no trace in the model; its directive cannot be reproduced
\* and is not needed for an equal reload
ImplOK == (sc.stage = 2 /\ sc.fam = "shape") => (ReloadEqualImpl(sc.f) /\ (sc.sh # "empty_inc" => DirectivesKept(sc.f)))
Emit == sc.stage = 2 =>
          IF sc.fam = "shape"
          THEN PrintT(<<"CASE", ToJson([fam |-> "shape", sh |-> sc.sh, f |-> sc.f, flat |-> Flatten(sc.f), main |-> MainItems(sc.f),
                                        enc |-> IF "enc" \in DOMAIN sc THEN sc.enc ELSE "utf8",
                                        cmt |-> "cmt" \in DOMAIN sc, abs |-> "abs" \in DOMAIN sc])>>)
          ELSE PrintT(<<"CASE", ToJson(sc)>>)
=============================================================================
