SPECIFICATION Spec
CONSTANTS
  RenameSites <- AllButInstanceTypeRef
INVARIANTS DesignOK
CHECK_DEADLOCK FALSE
