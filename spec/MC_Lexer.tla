------------------------------ MODULE MC_Lexer ------------------------------
(* Exhaustive inputs for the tokenizer: every string of at most MaxFull pieces over the full
   alphabet and of at most MaxCrit pieces over the critical alphabet.  A piece is one byte or one of
   the atoms /begin /end /include A2ML (so that bounded strings reach the keyword and the raw
   A2ML modes).  For every input the properties of Lexer.tla are checked and the result is
   exported for comparison with the real tokenizer. *)
EXTENDS Lexer, Json, FiniteSets

CONSTANTS MaxFull, MaxCrit, MaxSoup
VARIABLE sc

Atoms == {<<47, 98, 101, 103, 105, 110>>, <<47, 101, 110, 100>>, <<47, 105, 110, 99, 108, 117, 100, 101>>, <<65, 50, 77, 76>>}
\* "/begin A2ML" with its separating blank: reaches the raw A2ML mode within the length bound
BeginA2ml == {<<47, 98, 101, 103, 105, 110, 32, 65, 50, 77, 76>>}
NonAscii == {<<195, 169>>}          \* U+00E9 as UTF-8 (the tokenizer works on the bytes of a valid UTF-8 string)
Bytes(S) == {<<c>> : c \in S}
\* sp lf cr tab ff / * " \ ' a x F 0 1 - + . [ _ ,
Full == Bytes({32, 10, 13, 9, 12, 47, 42, 34, 92, 39, 97, 120, 70, 48, 49, 45, 43, 46, 91, 95, 44}) \cup Atoms \cup NonAscii \cup BeginA2ml
Crit == Bytes({32, 10, 13, 47, 42, 34, 92, 97, 48}) \cup Atoms \cup BeginA2ml

\* token soups: whole tokens (with a trailing blank) in any order
Str(s) == s
Soup == {<<47, 98, 101, 103, 105, 110, 32>>, <<47, 101, 110, 100, 32>>, <<47, 105, 110, 99, 108, 117, 100, 101, 32>>,
         <<65, 50, 77, 76, 32>>, <<73, 70, 95, 68, 65, 84, 65, 32>>, <<34, 115, 34, 32>>, <<34>>, <<47, 42, 99, 42, 47, 32>>, <<47, 42>>,
         <<47, 47, 99, 10>>, <<49, 32>>, <<120, 32>>, <<80, 82, 79, 74, 69, 67, 84, 32>>, <<77, 79, 68, 85, 76, 69, 32>>}

RECURSIVE Cat(_)
Cat(ps) == IF ps = <<>> THEN <<>> ELSE Head(ps) \o Cat(Tail(ps))

Init == sc = [stage |-> 0]
Next == \/ sc.stage = 0 /\ sc' = [stage |-> 2, bytes |-> <<>>]
        \/ sc.stage = 0 /\ \E n \in 1..MaxFull, f \in Full : sc' = [stage |-> 1, set |-> "full", n |-> n, first |-> f]
        \/ sc.stage = 0 /\ \E n \in (MaxFull + 1)..MaxCrit, f \in Crit : sc' = [stage |-> 1, set |-> "crit", n |-> n, first |-> f]
        \/ sc.stage = 0 /\ \E n \in 1..MaxSoup, f \in Soup : sc' = [stage |-> 1, set |-> "soup", n |-> n, first |-> f]
        \/ sc.stage = 1 /\ \E ps \in [1..(sc.n - 1) -> (IF sc.set = "full" THEN Full ELSE IF sc.set = "crit" THEN Crit ELSE Soup)] :
               sc' = [stage |-> 2, bytes |-> sc.first \o Cat(ps)]
Spec == Init /\ [][Next]_sc

LexOK == sc.stage = 2 =>
            LET r == Lex(sc.bytes) IN
            /\ SpansOrdered(sc.bytes, r) /\ LinesMonotonic(r) /\ LinesExact(sc.bytes, r) /\ NothingLost(sc.bytes, r)
Emit == sc.stage = 2 => PrintT(<<"CASE", ToJson([bytes |-> sc.bytes, r |-> Tokenize(sc.bytes)])>>)
=============================================================================
