SPECIFICATION MCSpec
CONSTANTS
  Kinds <- MCKinds
  KindRank <- MCKindRank
  MaxUid = 2147483647
  CompactAt = 1073741824
  Compact = TRUE
  SortKindOrder <- MCSortKindOrder
  WithSortFull = TRUE
  Wrap = FALSE
  MaxInit = 3
  MaxElems = 5
  UidBound = 12
  NewNames = {1, 200}
  MergeLines = {}
  UidBases = {0}
VIEW View
CONSTRAINT Bounded
INVARIANTS NoPanic
PROPERTIES SortFullStepIdeal SortFullIdempotent SortStepIdeal InsertKeepsOrder
ACTION_CONSTRAINT EmitTransition
CHECK_DEADLOCK FALSE
