SPECIFICATION Spec
CONSTANTS
  MaxFull = 3
  MaxCrit = 4
INVARIANTS LexOK Emit
CHECK_DEADLOCK FALSE
