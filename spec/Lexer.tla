-------------------------------- MODULE Lexer --------------------------------
(***************************************************************************)
(* The A2L tokenizer (tokenizer.rs: tokenize_core, find_block_comment_end, *)
(* find_string_end, handle_a2ml, separator_check) over a byte sequence.    *)
(* The scanner is written as a recursive step function: Scan(st) consumes  *)
(* at least one byte per step (invariant Progress), so it terminates on    *)
(* every input.  Byte positions are 0-based as in the code; the input `b`  *)
(* is a 1-based TLA+ sequence of byte values.                              *)
(*                                                                         *)
(* Result: [ok |-> TRUE, toks |-> Seq([t, s, e, line])] or                 *)
(*         [ok |-> FALSE, err |-> class, line |-> n]                       *)
(* /include resolution happens after this stage (Include.tla).             *)
(***************************************************************************)
EXTENDS Integers, Sequences, TLC

\* byte classes (u8::is_ascii_*)
IsWs(c) == c \in {9, 10, 12, 13, 32}                        \* is_ascii_whitespace: \t \n \x0C \r space
IsDigit(c) == c >= 48 /\ c <= 57
IsAlpha(c) == (c >= 65 /\ c <= 90) \/ (c >= 97 /\ c <= 122)
IsHexDigit(c) == IsDigit(c) \/ (c >= 65 /\ c <= 70) \/ (c >= 97 /\ c <= 102)
IsIdentChar(c) == IsAlpha(c) \/ IsDigit(c) \/ c \in {46, 91, 93, 95}       \* . [ ] _
IsPathChar(c) == IsIdentChar(c) \/ c \in {92, 47}                          \* \ /
IsNumChar(c) == IsHexDigit(c) \/ c \in {120, 88, 46, 43, 45}               \* x X . + -

At(b, p) == b[p + 1]                                       \* byte at 0-based position p
StartsWith(b, p, w) == p + Len(w) <= Len(b) /\ \A i \in 1..Len(w) : b[p + i] = w[i]
CountLf(b, s, e) == LET RECURSIVE cnt(_, _)
                        cnt(p, acc) == IF p >= e THEN acc ELSE cnt(p + 1, IF At(b, p) = 10 THEN acc + 1 ELSE acc)
                    IN cnt(s, 0)
\* first position >= p whose byte does not satisfy P (or Len(b))
SkipWhile(b, p, P(_)) ==
    LET S == {q \in p..(Len(b) - 1) : ~P(At(b, q))} IN
    IF S = {} THEN (IF p > Len(b) THEN p ELSE Len(b)) ELSE CHOOSE q \in S : \A r \in S : q <= r

W_begin == <<98, 101, 103, 105, 110>>
W_end == <<101, 110, 100>>
W_include == <<105, 110, 99, 108, 117, 100, 101>>
W_A2ML == <<65, 50, 77, 76>>
W_slashend == <<47, 101, 110, 100>>

\* find_block_comment_end(bytes, p): p is the position after "/*"; returns the position after "*/" or -1
BlockCommentEnd(b, p0) ==
    LET RECURSIVE go(_)
        go(p) == IF p < Len(b) /\ ~(At(b, p - 1) = 42 /\ At(b, p) = 47) THEN go(p + 1) ELSE p
        q == go(p0 + 1)
    IN IF q >= Len(b) THEN -1 ELSE q + 1

\* find_string_end(bytes, p): p is the position after the opening quote; returns the position after
\* the closing quote or -1 (unclosed).  "" and \" are escapes of the quote character.
StringEnd(b, p0) ==
    LET RECURSIVE go(_, _, _, _)
        go(p, found, pq, pb) ==
            IF p < Len(b) /\ ~found
            THEN IF At(b, p) = 34
                 THEN go(p + 1, FALSE, ~(pq \/ pb), FALSE)
                 ELSE IF pq THEN go(p + 1, TRUE, FALSE, pb)
                      ELSE IF At(b, p) = 92 THEN go(p + 1, FALSE, FALSE, ~pb)
                      ELSE go(p + 1, FALSE, FALSE, FALSE)
            ELSE [p |-> p, found |-> found, pq |-> pq]
        r == go(p0, FALSE, FALSE, FALSE)
    IN IF r.p = Len(b) /\ ~r.found
       THEN IF r.pq THEN r.p ELSE -1          \* closing quote was the last byte of the input / unclosed
       ELSE r.p - 1

\* handle_a2ml: after the identifier A2ML that directly follows /begin, everything up to "/end"
\* (skipping // and /* */ comments) is one raw String token; trailing blanks and the last line
\* break are not part of it.  Returns [p, tok] where tok is <<>> or one token (without line).
A2mlRaw(b, p0) ==
    LET RECURSIVE go(_)
        go(p) ==
            IF p >= Len(b) THEN p
            ELSE LET q == SkipWhile(b, p, LAMBDA c : c # 47) IN
                 IF StartsWith(b, q, <<47, 47>>) THEN go(SkipWhile(b, q + 2, LAMBDA c : c # 10))
                 ELSE IF StartsWith(b, q, <<47, 42>>)
                      THEN LET RECURSIVE bc(_)
                               bc(x) == IF x < Len(b) - 1 /\ ~(At(b, x) = 42 /\ At(b, x + 1) = 47) THEN bc(x + 1) ELSE x
                               e == bc(q + 2) + 2
                           IN go(IF e > Len(b) THEN Len(b) ELSE e)
                 ELSE IF StartsWith(b, q, W_slashend) THEN q
                 ELSE IF q < Len(b) THEN go(q + 1) ELSE q
        stop == go(p0)
        \* trim trailing blanks (not \r, \n), then one line break
        RECURSIVE trim(_)
        trim(p) == IF p > 0 /\ IsWs(At(b, p - 1)) /\ At(b, p - 1) # 13 /\ At(b, p - 1) # 10 THEN trim(p - 1) ELSE p
        t1 == trim(stop)
        t2 == IF t1 >= 2 /\ At(b, t1 - 2) = 13 /\ At(b, t1 - 1) = 10 THEN t1 - 2
              ELSE IF t1 > 0 /\ At(b, t1 - 1) = 10 THEN t1 - 1 ELSE t1
    IN [endpos |-> t2]

Tok(t, s, e, line) == [t |-> t, s |-> s, e |-> e, line |-> line]
Fail(c, line) == [ok |-> FALSE, err |-> c, line |-> line]

\* the main loop: st = [p, sep, line, toks]
RECURSIVE Scan(_, _)
Scan(b, st) ==
    IF st.p >= Len(b) THEN [ok |-> TRUE, toks |-> st.toks]
    ELSE
    LET p == st.p  c == At(b, p)  line == st.line  toks == st.toks
        lastIsInclude == toks # <<>> /\ toks[Len(toks)].t = "include"
        NeedSep == ~st.sep
        Push(t, e, newline) == Scan(b, [p |-> e, sep |-> FALSE, line |-> newline, toks |-> Append(toks, Tok(t, p, e, newline))])
    IN
    IF IsWs(c)
    THEN LET e == SkipWhile(b, p, IsWs) IN Scan(b, [p |-> e, sep |-> TRUE, line |-> line + CountLf(b, p, e), toks |-> toks])
    ELSE IF c = 47 /\ p + 1 < Len(b)
    THEN LET c2 == At(b, p + 1) IN
         IF c2 = 42
         THEN LET e == BlockCommentEnd(b, p + 2)
                  RECURSIVE back(_)
                  back(x) == IF x > 0 /\ At(b, x - 1) = 32 THEN back(x - 1) ELSE x
              IN IF e = -1 THEN Fail("UnclosedComment", line)
                 ELSE Scan(b, [p |-> e, sep |-> TRUE, line |-> line + CountLf(b, p, e),
                               toks |-> Append(toks, Tok("cmt", back(p), e, line))])
         ELSE IF c2 = 47
         THEN LET e == SkipWhile(b, p + 1, LAMBDA x : x # 10)
                  RECURSIVE back(_)
                  back(x) == IF x > 0 /\ At(b, x - 1) = 32 THEN back(x - 1) ELSE x
              IN Scan(b, [p |-> e, sep |-> TRUE, line |-> line, toks |-> Append(toks, Tok("cmt", back(p), e, line))])
         ELSE IF StartsWith(b, p + 1, W_begin) THEN (IF NeedSep THEN Fail("MissingWhitespace", line) ELSE Push("begin", p + 6, line))
         ELSE IF StartsWith(b, p + 1, W_end) THEN (IF NeedSep THEN Fail("MissingWhitespace", line) ELSE Push("end", p + 4, line))
         ELSE IF StartsWith(b, p + 1, W_include) THEN (IF NeedSep THEN Fail("MissingWhitespace", line) ELSE Push("include", p + 8, line))
         ELSE Fail("InvalidA2lToken", line)
    ELSE IF c = 34
    THEN IF NeedSep THEN Fail("MissingWhitespace", line)
         ELSE LET e == StringEnd(b, p + 1) IN
              IF e = -1 THEN Fail("UnclosedString", line)
              ELSE Push("str", e, line + CountLf(b, p, e))        \* a string token carries the line of its END
    ELSE IF lastIsInclude /\ ~IsDigit(c) /\ IsIdentChar(c)
    THEN IF NeedSep THEN Fail("MissingWhitespace", line) ELSE Push("id", SkipWhile(b, p, IsPathChar), line)
    ELSE IF IsAlpha(c) \/ c = 95
    THEN IF NeedSep THEN Fail("MissingWhitespace", line)
         ELSE LET e == SkipWhile(b, p, IsIdentChar)
                  toks1 == Append(toks, Tok("id", p, e, line))
                  isA2ml == Len(toks1) >= 2 /\ toks1[Len(toks1) - 1].t = "begin" /\ e - p = 4 /\ StartsWith(b, p, W_A2ML)
              IN IF ~isA2ml THEN Scan(b, [p |-> e, sep |-> FALSE, line |-> line, toks |-> toks1])
                 ELSE LET raw == A2mlRaw(b, e) IN
                      IF raw.endpos > e
                      THEN Scan(b, [p |-> raw.endpos, sep |-> TRUE, line |-> line + CountLf(b, e, raw.endpos),
                                    toks |-> Append(toks1, Tok("str", e, raw.endpos, line))])
                      ELSE Scan(b, [p |-> e, sep |-> FALSE, line |-> line, toks |-> toks1])
    ELSE IF c = 45 \/ IsNumChar(c)
    THEN IF NeedSep THEN Fail("MissingWhitespace", line)
         ELSE LET e == SkipWhile(b, p + 1, IsNumChar) IN
              IF e = Len(b) \/ ~IsIdentChar(At(b, e))
              THEN IF (e - p = 1 /\ c \in {45, 46}) \/ (e - p = 2 /\ c = 48 /\ At(b, p + 1) = 120)
                   THEN Fail("InvalidNumericalConstant", line)
                   ELSE Push("num", e, line)
              ELSE Push("id", SkipWhile(b, e, IsIdentChar), line)     \* identifier that starts with a digit
    ELSE Fail("InvalidA2lToken", line)

Lex(b) == Scan(b, [p |-> 0, sep |-> TRUE, line |-> 1, toks |-> <<>>])

\* tokenize(): after the scan, every /include must be followed by a file name; in this model no
\* include file exists, so the first directive ends the run with an error (Include.tla models
\* successful resolution)
Tokenize(b) ==
    LET r == Lex(b) IN
    IF ~r.ok THEN r
    ELSE LET incs == {i \in 1..Len(r.toks) : r.toks[i].t = "include"} IN
         IF incs = {} THEN r
         ELSE LET i == CHOOSE x \in incs : \A y \in incs : x <= y IN
              IF i < Len(r.toks) /\ r.toks[i + 1].t \in {"str", "id"}
              THEN Fail("IncludeFileError", r.toks[i + 1].line)
              ELSE Fail("IncompleteIncludeError", r.toks[i].line)

(***************************************************************************)
(* Properties of the result (checked by TLC for every generated input)     *)
(***************************************************************************)
SpansOrdered(b, r) ==
    r.ok => \A i \in 1..Len(r.toks) :
              /\ 0 <= r.toks[i].s /\ r.toks[i].s < r.toks[i].e /\ r.toks[i].e <= Len(b)
              \* tokens do not overlap (a comment may reach back over the blanks before it, never over a token)
              /\ (i > 1 => r.toks[i - 1].e <= r.toks[i].s)
LinesMonotonic(r) == r.ok => \A i \in 2..Len(r.toks) : r.toks[i - 1].line <= r.toks[i].line
LinesExact(b, r) ==
    r.ok => \A i \in 1..Len(r.toks) :
               LET t == r.toks[i] IN
               \* the line of a token is 1 + the number of line feeds before its start; a quoted string
               \* carries the line of its end
               IF t.t = "str" THEN t.line \in {1 + CountLf(b, 0, t.s), 1 + CountLf(b, 0, t.e)}
               ELSE t.line = 1 + CountLf(b, 0, t.s)
NothingLost(b, r) ==
    \* the bytes between tokens are whitespace only (nothing is skipped silently)
    r.ok => \A p \in 0..(Len(b) - 1) :
               (\E i \in 1..Len(r.toks) : r.toks[i].s <= p /\ p < r.toks[i].e) \/ IsWs(At(b, p))
=============================================================================
