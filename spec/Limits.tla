------------------------------- MODULE Limits -------------------------------
(***************************************************************************)
(* C12: limit plausibility of check() as a symbolic decision table.        *)
(* TLC integers are 32 bit and there are no reals, so the specification    *)
(* does no arithmetic: it says WHICH raw endpoint of the data type maps to *)
(* which physical limit under each conversion, and whether a report is due *)
(* for a declared limit that lies clearly inside / outside.  The harness   *)
(* evaluates the terms in exact rational arithmetic.                       *)
(*                                                                         *)
(* Terms: "RawLo", "RawHi" (range of the data type), Lin(x) = a*x + b,     *)
(* Inv(x) = (f*x - c) / b (inverse of the linear RAT_FUNC (b*x + c) / f),  *)
(* "Const" = b (LINEAR with a = 0).                                        *)
(***************************************************************************)
EXTENDS TLC

\* AXIS_DESCR_k: a standard axis in position k of a CURVE / MAP / CUBOID whose preceding axes are not
\* standard axes; its data type is the one of AXIS_PTS_X / _Y / _Z (position k) of the record layout
Kinds == {"MEASUREMENT", "CHARACTERISTIC", "AXIS_PTS", "AXIS_DESCR", "AXIS_DESCR_2", "AXIS_DESCR_3", "AXIS_DESCR_4", "AXIS_DESCR_5", "TYPEDEF_MEASUREMENT"}
DataTypes == {"UBYTE", "SBYTE", "UWORD", "SWORD", "ULONG", "SLONG", "A_UINT64", "A_INT64",
              "FLOAT16_IEEE", "FLOAT32_IEEE", "FLOAT64_IEEE"}
\* conversion cases: NONE = NO_COMPU_METHOD; LINEAR by sign of a; RATLIN = RAT_FUNC with a=d=e=0, f#0
\* by sign of f/b; RATGEN = any other RAT_FUNC
Convs == {"NONE", "IDENTICAL", "TAB_INTP", "TAB_NOINTP", "TAB_VERB", "FORM",
          "LINEAR_POS", "LINEAR_NEG", "LINEAR_ZERO", "RATLIN_POS", "RATLIN_NEG", "RATGEN"}
Sides == {"inside", "outside"}

Unbounded(conv) == conv \in {"FORM", "RATGEN"}

PhysLo(conv) ==
    CASE conv \in {"NONE", "IDENTICAL", "TAB_INTP", "TAB_NOINTP", "TAB_VERB"} -> "RawLo"
      [] conv = "LINEAR_POS" -> "Lin(RawLo)"
      [] conv = "LINEAR_NEG" -> "Lin(RawHi)"
      [] conv = "LINEAR_ZERO" -> "Const"
      [] conv = "RATLIN_POS" -> "Inv(RawLo)"
      [] conv = "RATLIN_NEG" -> "Inv(RawHi)"
      [] OTHER -> "-inf"
PhysHi(conv) ==
    CASE conv \in {"NONE", "IDENTICAL", "TAB_INTP", "TAB_NOINTP", "TAB_VERB"} -> "RawHi"
      [] conv = "LINEAR_POS" -> "Lin(RawHi)"
      [] conv = "LINEAR_NEG" -> "Lin(RawLo)"
      [] conv = "LINEAR_ZERO" -> "Const"
      [] conv = "RATLIN_POS" -> "Inv(RawHi)"
      [] conv = "RATLIN_NEG" -> "Inv(RawLo)"
      [] OTHER -> "+inf"

\* a limit error is due exactly when the conversion is evaluated and a declared limit lies outside
Report(conv, lowerSide, upperSide) ==
    ~Unbounded(conv) /\ (lowerSide = "outside" \/ upperSide = "outside")

\* sanity of the table: the physical interval is an interval (lower term and upper term are the
\* images of the two different raw endpoints, or both the constant), and nothing is reported when
\* both limits are inside
WellFormed(conv) ==
    \/ Unbounded(conv)
    \/ PhysLo(conv) = "Const" /\ PhysHi(conv) = "Const"
    \/ /\ PhysLo(conv) # PhysHi(conv)
       /\ \E f \in {"", "Lin", "Inv"} :
             {PhysLo(conv), PhysHi(conv)} = (IF f = "" THEN {"RawLo", "RawHi"}
                                            ELSE IF f = "Lin" THEN {"Lin(RawLo)", "Lin(RawHi)"}
                                            ELSE {"Inv(RawLo)", "Inv(RawHi)"})
=============================================================================
