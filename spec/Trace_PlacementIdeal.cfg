SPECIFICATION IdealTraceSpec
CONSTANTS
  Kinds = {}
  KindRank = 0
  MaxUid = 0
  CompactAt = 0
  Compact = FALSE
  Wrap = FALSE
  SortKindOrder = 0
POSTCONDITION TraceAccepted
CHECK_DEADLOCK FALSE
