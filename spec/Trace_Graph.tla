----------------------------- MODULE Trace_Graph -----------------------------
(* Judges operations observed on real a2lfile models by the relations of Graph.tla.
   Every event is one execution: the module graphs were extracted from the real objects (Debug
   tree + RefSites table) before and after the call.
     merge    A, B, R         -> MergeOK (C08), RefsFollow (C09)
     sysconst A, B, R         -> SysConstOK (C08): the SYSTEM_CONSTANT lists of MOD_PAR
     cleanup  G, R, R2        -> CleanupOK, CleanupIdempotent (C10)
     check    G, reports, thisOk -> CheckOK (C11)
     check2   G, G1, reports  -> the same for a file with two MODULEs (union of the expected reports)
   The events are independent; a failing event prints <<"FAILED", conjunct>> lines followed by
   <<"REJECT", index>> and the validation continues with the next event. *)
EXTENDS Graph, Json, IOUtils

Rec == ndJsonDeserialize(IOEnv.TRACE)
CONSTANT Judge      \* which properties are judged: subset of {"C08", "C09", "C10", "C11"}

VARIABLE l
Ev == Rec[l]

AsSet3(s) == {<<s[i][1], s[i][2], s[i][3]>> : i \in 1..Len(s)}
\* "no duplicates": a reference that neither input holds twice is not held twice by the result (member lists of
\* GROUPs and FUNCTIONs that are united by name)
Count(s, x) == Cardinality({i \in 1..Len(s) : s[i] = x})
NoDup(s) == \A i \in 1..Len(s) : Count(s, s[i]) = 1
NoNewDuplicates(A, B, R) == Chk("NoDuplicateMembers", (NoDup(A.refs) /\ NoDup(B.refs)) => NoDup(R.refs))
\* SYSTEM_CONSTANTs of MOD_PAR are a name-keyed list without renaming: A's constants stay (same order), every name
\* of B is present afterwards, nothing is invented and no name occurs twice
PairsOf(s) == {<<s[i][1], s[i][2]>> : i \in 1..Len(s)}
NamesOf(s) == {s[i][1] : i \in 1..Len(s)}
NamesUnique(s) == \A i, j \in 1..Len(s) : s[i][1] = s[j][1] => i = j
SysConstOK(A, B, R) ==
    /\ Chk("SysConstKeepsA", Len(R) >= Len(A) /\ \A i \in 1..Len(A) : R[i] = A[i])
    /\ Chk("SysConstRepresentsB", NamesOf(B) \subseteq NamesOf(R))
    /\ Chk("SysConstNothingInvented", PairsOf(R) \subseteq PairsOf(A) \cup PairsOf(B))
    /\ Chk("SysConstNamesUnique", (NamesUnique(A) /\ NamesUnique(B)) => NamesUnique(R))
Verdict(ev) ==
    CASE ev.ev = "sysconst" -> SysConstOK(ev.A, ev.B, ev.R)
      [] ev.ev = "merge" ->
            /\ ("C08" \in Judge => MergeOK(ev.A, ev.B, ev.R) /\ NoNewDuplicates(ev.A, ev.B, ev.R))
            /\ ("C09" \in Judge => RefsFollow(ev.A, ev.B, ev.R))
      [] ev.ev = "cleanup" ->
            /\ CleanupOK(ev.G, ev.R)
            /\ CleanupIdempotent(ev.R, ev.R2)
      [] ev.ev = "check" ->
            /\ Chk("NoPanic", ev.panic = FALSE)
            /\ Chk("Pure", ev.pure = TRUE)
            /\ CheckOK(ev.G, Range(ev.reports), AsSet3(ev.comps), {<<ev.this[i][1], ev.this[i][2]>> : i \in 1..Len(ev.this)})
      [] ev.ev = "check2" ->      \* one file with two MODULEs: the report of the file is the union of the modules' reports
            LET E == ExpectedReports(ev.G, AsSet3(ev.comps), {<<ev.this[i][1], ev.this[i][2]>> : i \in 1..Len(ev.this)})
                       \cup ExpectedReports(ev.G1, AsSet3(ev.comps1), {<<ev.this1[i][1], ev.this1[i][2]>> : i \in 1..Len(ev.this1)}) IN
            /\ Chk("NoPanic", ev.panic = FALSE)
            /\ Chk("Pure", ev.pure = TRUE)
            /\ Chk("Sound", \A t \in Range(ev.reports) : t \in E)
            /\ Chk("Complete", \A t \in E : t \in Range(ev.reports))
      [] OTHER -> Print(<<"FAILED", "unknown event">>, FALSE)

TraceInit == l = 1
TraceNext == /\ l <= Len(Rec)
             /\ (IF Verdict(Ev) THEN TRUE ELSE PrintT(<<"REJECT", l>>))
             /\ l' = l + 1
TraceSpec == TraceInit /\ [][TraceNext]_l

TraceAccepted ==
    LET d == TLCGet("stats").diameter IN
    IF d - 1 = Len(Rec) THEN TRUE
    ELSE Print(<<"TRACE-REJECTED-AT", d, ToJson(Rec[d])>>, FALSE)
=============================================================================
