--------------------------- MODULE Trace_Placement ---------------------------
(* Trace validation for Placement (C15): histories recorded from real a2lfile models
   (load, T::new + push, merge_modules, sort_new_items, write) are replayed through the actions
   of Placement.tla.  Every event carries, for each list kind, (name, uid, line) of every element
   in list order, and the /begin sequence of the written text (with comments).
   Not logged: the uids of comments (crate-private).  They are inferred at load time from the
   uids of the neighbouring elements (the parser hands out uids sequentially, one per element
   or comment), see CmtUid. *)
EXTENDS Placement, Json, IOUtils

Rec == ndJsonDeserialize(IOEnv.TRACE)

TagOrder == <<"AXIS_PTS", "BLOB", "CHARACTERISTIC", "COMPU_METHOD", "COMPU_TAB", "COMPU_VTAB",
              "COMPU_VTAB_RANGE", "FRAME", "FUNCTION", "GROUP", "INSTANCE", "MEASUREMENT",
              "RECORD_LAYOUT", "TRANSFORMER", "TYPEDEF_AXIS", "TYPEDEF_BLOB", "TYPEDEF_CHARACTERISTIC",
              "TYPEDEF_MEASUREMENT", "TYPEDEF_STRUCTURE", "UNIT">>
\* the order in which sort.rs hands out uids
TraceSortKindOrder == <<"CHARACTERISTIC", "MEASUREMENT", "AXIS_PTS", "INSTANCE", "BLOB", "COMPU_METHOD", "COMPU_TAB",
                        "COMPU_VTAB", "COMPU_VTAB_RANGE", "TYPEDEF_STRUCTURE", "TYPEDEF_CHARACTERISTIC",
                        "TYPEDEF_MEASUREMENT", "TYPEDEF_AXIS", "TYPEDEF_BLOB", "FRAME", "FUNCTION", "GROUP",
                        "RECORD_LAYOUT", "TRANSFORMER", "UNIT">>
TraceKinds == Range(TagOrder)
TraceKindRank == [k \in TraceKinds |-> PosIn(TagOrder, k)]

VARIABLE l
tvars == <<vars, l>>
Ev == Rec[l]

ListOf(ev, k) == IF k \in DOMAIN ev.lists THEN ev.lists[k] ELSE <<>>

\* --- what the event shows vs. what the specification state says
ObsLists(EE, LL, ev) ==
    \A k \in TraceKinds :
        /\ Len(ListOf(ev, k)) = Len(LL[k])
        /\ \A i \in 1..Len(LL[k]) :
              ListOf(ev, k)[i] = <<EE[LL[k][i]].name, EE[LL[k][i]].uid, EE[LL[k][i]].line>>
ObsWritten(EE, LL, ev) ==
    \A w \in {WriterOrder(EE, LL)} :
    /\ Len(ev.written) = Len(w)
    /\ \A i \in 1..Len(w) :
          ev.written[i] = IF EE[w[i]].cmt THEN <<"#", EE[w[i]].name>> ELSE <<EE[w[i]].kind, EE[w[i]].name>>
Obs(EE, LL, ev) == ObsLists(EE, LL, ev) /\ ObsWritten(EE, LL, ev)

\* --- load: build E in written order
LoadE(ev) ==
    LET W == ev.written
        n == Len(W)
        IsC(i) == W[i][1] = "#"
        Info(i) == CHOOSE t \in Range(ListOf(ev, W[i][1])) : t[1] = W[i][2]
        PrevE(i) == Max({j \in 1..(i - 1) : ~IsC(j)})
        NextE(i) == IF {j \in (i + 1)..n : ~IsC(j)} = {} THEN 0
                    ELSE CHOOSE j \in (i + 1)..n : ~IsC(j) /\ \A m \in (i + 1)..(j - 1) : IsC(m)
        CmtUid(i) == IF PrevE(i) # 0 THEN Info(PrevE(i))[2] + (i - PrevE(i))
                     ELSE IF NextE(i) # 0 THEN Info(NextE(i))[2] - (NextE(i) - i)
                     ELSE i
    IN [i \in 1..n |->
          IF IsC(i) THEN [kind |-> "#", name |-> W[i][2], uid |-> CmtUid(i), line |-> 0, cmt |-> TRUE]
          ELSE [kind |-> W[i][1], name |-> Info(i)[1], uid |-> Info(i)[2], line |-> Info(i)[3], cmt |-> FALSE]]
LoadL(ev, EE) ==
    [k \in TraceKinds |->
        [i \in 1..Len(ListOf(ev, k)) |->
            CHOOSE x \in 1..Len(EE) : ~EE[x].cmt /\ EE[x].kind = k /\ EE[x].name = ListOf(ev, k)[i][1]]]

TLoad == /\ l <= Len(Rec) /\ Ev.ev = "load"
         /\ E' = LoadE(Ev)
         /\ lists' = LoadL(Ev, E')
         /\ panic' = FALSE
         /\ last' = [op |-> "load"]
         /\ Obs(E', lists', Ev)          \* the specification's writer order reproduces the file order
         /\ l' = l + 1

TPush == /\ l <= Len(Rec) /\ Ev.ev = "push_new"
         /\ PushNew(Ev.kind, Ev.name)
         /\ Obs(E', lists', Ev)
         /\ l' = l + 1

\* the elements a merge added: per kind (alphabetical), the suffix of the logged list
RECURSIVE AddsFrom(_, _)
AddsFrom(ev, ks) ==
    IF ks = <<>> THEN <<>>
    ELSE LET k == Head(ks)
             old == Len(lists[k])
             new == ListOf(ev, k)
         IN [i \in 1..(Len(new) - old) |-> [kind |-> k, name |-> new[old + i][1], line |-> new[old + i][3]]]
            \o AddsFrom(ev, Tail(ks))
TMerge == /\ l <= Len(Rec) /\ Ev.ev = "merge" /\ Ev.panic = FALSE
          /\ \A k \in TraceKinds : Len(ListOf(Ev, k)) >= Len(lists[k])
          /\ MergeMany(AddsFrom(Ev, TagOrder))
          /\ Obs(E', lists', Ev)
          /\ l' = l + 1

TSort == /\ l <= Len(Rec) /\ Ev.ev = "sort_new_items"
         /\ SortNewItems
         /\ IF Ev.panic THEN panic' = TRUE
            ELSE panic' = FALSE /\ Obs(E', lists', Ev)
         /\ l' = l + 1

TSortFull == /\ l <= Len(Rec) /\ Ev.ev = "sort" /\ Ev.panic = FALSE
             /\ "relation_violated" \notin DOMAIN Ev
             /\ SortFull(4 + Ev.nifdata)
             /\ Obs(E', lists', Ev)
             /\ l' = l + 1

TWrite == /\ l <= Len(Rec) /\ Ev.ev = "write"
          /\ Obs(E, lists, Ev)
          /\ UNCHANGED vars
          /\ l' = l + 1

TraceInit == /\ E = <<>> /\ lists = [k \in TraceKinds |-> <<>>] /\ panic = FALSE /\ last = [op |-> "init"] /\ l = 1
\* a load event also restarts after a panic (new trace)
TraceNext == TLoad \/ TPush \/ TMerge \/ TSort \/ TSortFull \/ TWrite
TraceSpec == TraceInit /\ [][TraceNext]_tvars

TraceAccepted ==
    LET d == TLCGet("stats").diameter IN
    IF d - 1 = Len(Rec) THEN TRUE
    ELSE Print(<<"TRACE-REJECTED-AT", d, ToJson(Rec[d])>>, FALSE)
=============================================================================
