SPECIFICATION TraceSpec
CONSTANTS
  Judge = {"C01"}
POSTCONDITION TraceAccepted
CHECK_DEADLOCK FALSE
