SPECIFICATION TraceSpec
CONSTANTS
  Names <- TraceNames
  NameOrder <- TraceNameOrder
  GuardLast = TRUE
INVARIANTS Coherent Refines NoPanic UniqueNames
POSTCONDITION TraceAccepted
CHECK_DEADLOCK FALSE
