SPECIFICATION Spec
CONSTANTS
  MaxLen = 5
INVARIANTS RoundTripOK Emit
CHECK_DEADLOCK FALSE
