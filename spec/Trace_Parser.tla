----------------------------- MODULE Trace_Parser -----------------------------
(* Judges loads observed on the real library by Parser.tla.  One event per load:
     [toks, strict, out]  with  toks = the token stream the real tokenizer produced (hook) with the
     lexical attributes computed by the driver, out = the observed outcome:
       [ok |-> TRUE, diags |-> Seq([c, line]), tree |-> generic tree]  or  [ok |-> FALSE, e |-> [c, line]]
   The specification's Run for the same tokens and mode must give the same outcome.  The step
   loads the event into the variables Doc / Strict; the verdict is evaluated as a state predicate
   on the state reached (a failing event prints <<"FAILED", what>> and <<"REJECT", index>>). *)
EXTENDS Parser, Json, IOUtils

Rec == ndJsonDeserialize(IOEnv.TRACE)
VARIABLE l
tvars == <<Doc, Strict, Specs, l>>

Chk(name, cond) == IF cond THEN TRUE ELSE Print(<<"FAILED", name>>, FALSE)

\* diagnostics are compared as sequences of <<class, line>>
DiagSeq(ds) == [i \in 1..Len(ds) |-> <<ds[i].c, ds[i].line>>]
LoggedDiags(out) == [i \in 1..Len(out.diags) |-> <<out.diags[i][1], out.diags[i][2]>>]

\* the tree of the specification in the shape the driver logs: [tag, params, kids]
RECURSIVE TreeEq(_, _)
TreeEq(a, b) ==
    /\ a.tag = b.tag
    /\ a.params = b.params
    /\ Len(a.kids) = Len(b.kids)
    /\ \A i \in 1..Len(a.kids) : TreeEq(a.kids[i], b.kids[i])

\* C04: "each single deviation produces the corresponding diagnostic class".  cls = the classes of all
\* diagnostics and of the error (if any) of the run; ev.case is the descriptor the document was built from.
VersionClasses == {"BlockRefTooNew", "BlockRefDeprecated", "EnumRefTooNew", "EnumRefDeprecated"}
\* early: a strict run that stopped at a version problem of an enclosing element says nothing about
\* the later items
Corresponding(c, cls, early) ==
    LET k == c.k
        noise == cls \ VersionClasses
    IN CASE k \in {"enum_item", "kid_version"} /\ early -> noise = {}
         [] k = "pos" -> IF c.atbest THEN cls = {} ELSE noise = {}
         \* c.amb: the token that follows the deleted parameter has the lexical class of the parameter, so
         \* the shortened document may itself be a document of the grammar
         [] k = "delparam" -> c.amb \/ noise # {}
         [] k = "retype" -> noise # {}
         [] k = "enum_unknown" -> "InvalidEnumValue" \in cls
         [] k = "enum_item" -> /\ ("EnumRefTooNew" \in cls) = (c.since # 0 /\ c.ver < c.since)
                               /\ ("EnumRefDeprecated" \in cls) = (c.until # 0 /\ c.ver > c.until /\ ~(Strict /\ c.since # 0 /\ c.ver < c.since))
                               /\ noise = {}
         [] k = "kid_version" -> /\ ("BlockRefTooNew" \in cls) = (c.since # 0 /\ c.ver < c.since)
                                 /\ noise = {}
         [] k = "kid_absent" -> "InvalidMultiplicityNotPresent" \in cls
         \* (c.amb: the sub-element is a keyword that ends in an open identifier list, which swallows the tag of
         \* its own repetition)
         [] k = "kid_twice" -> c.amb \/ "InvalidMultiplicityTooMany" \in cls
         \* (behind an open-ended identifier list the tag of a keyword is swallowed as an identifier)
         [] k = "kid_wrongform" -> noise # {}
         [] k = "end_tag" -> "IncorrectEndTag" \in cls
         [] k = "no_end" -> noise # {}
         \* (c.amb: the element ends in an open sequence of numbers, which takes the extra number)
         [] k = "extra_token" -> c.amb \/ noise # {}
         [] k = "unknown_kid" -> "UnknownSubBlock" \in cls
         [] k = "seqbad" -> noise # {}
         [] k = "seqhalf" -> noise # {}
         [] k = "seqlen" -> noise = {}
         [] k = "file" -> CASE c.what = "no_version" -> "MissingVersionInfo" \in cls
                            [] c.what = "bad_version" -> "InvalidVersion" \in cls
                            [] c.what = "version_garbled" -> "MissingVersionInfo" \in cls
                            [] c.what = "trailing" -> "AdditionalTokensError" \in cls
                            [] c.what \in {"a2ml_syntax", "a2ml_no_ifdata_block", "a2ml_undeclared_type"} -> "A2mlError" \in cls
                            [] c.what = "a2ml_end_tag" -> "IncorrectEndTag" \in cls
                            [] c.what = "empty_project_missing" -> "InvalidMultiplicityNotPresent" \in cls
                            [] OTHER -> "InvalidMultiplicityTooMany" \in cls
         [] OTHER -> TRUE
ClassesOf(r) == {r.diags[i].c : i \in 1..Len(r.diags)} \cup (IF r.ok THEN {} ELSE {r.e.c})

\* (events with the field `frag` were observed on load_fragment: lenient, no diagnostics are returned to the caller)
Verdict(ev) ==
    LET r == IF "frag" \in DOMAIN ev THEN RunFragment ELSE Run IN
    /\ ("case" \in DOMAIN ev => Chk("CorrespondingClass", Corresponding(ev.case, ClassesOf(r), Strict /\ ~r.ok /\ r.e.c \in {"BlockRefTooNew", "EnumRefTooNew"})))
    /\ IF ev.out.ok
       THEN /\ Chk("Outcome", r.ok)
            /\ r.ok => /\ "frag" \in DOMAIN ev \/ Chk("Diagnostics", DiagSeq(r.diags) = LoggedDiags(ev.out))
                    \* which token lands in which field is decided here; whether the token text denotes the value
                    \* the library stored (number notation, string escapes) is compared by the driver
                    /\ PrintT(<<"TREE", l - 1, ToJson(r.tree)>>)
       ELSE /\ Chk("Outcome", ~r.ok)
            /\ ~r.ok => Chk("ErrorClass", r.e.c = ev.out.e[1] /\ (ev.out.e[2] = -1 \/ r.e.line = ev.out.e[2]))

\* C06: strict and non-strict loading of the same document (pair events: the two observed outcomes)
\*  R1  strict succeeds => lenient succeeds
\*  R2  lenient succeeds without warnings => strict succeeds with an equal model and no warnings
\*  R3  (documents without IF_DATA) strict fails <=> lenient fails or reports a problem other than a
\*      deprecation notice; equal models when both succeed
PairVerdict(ev) ==
    LET s == ev.s  n == ev.n
        serious == \E i \in 1..Len(n.diags) : n.diags[i][1] \notin Deprecations
    IN /\ Chk("R1", s.ok => n.ok)
       /\ Chk("R2", (n.ok /\ n.diags = <<>>) => (s.ok /\ s.diags = <<>> /\ ev.modelEq))
       /\ Chk("R3", ~ev.noIfData \/ ((~s.ok) <=> (~n.ok \/ serious)))
       /\ Chk("R3eq", ~ev.noIfData \/ ((s.ok /\ n.ok) => ev.modelEq))      \* (the property states this for inputs without IF_DATA)

\* C07: an unknown element between the sub-elements of a block (skip events: the observed outcomes of
\* the base document (lenient), of the document with the payload (lenient) and of the same in strict mode)
Classes(out) == [i \in 1..Len(out.diags) |-> out.diags[i][1]]
RECURSIVE RemoveOne(_, _)
RemoveOne(s, x) == IF s = <<>> THEN <<>> ELSE IF Head(s) = x THEN Tail(s) ELSE <<Head(s)>> \o RemoveOne(Tail(s), x)
SkipVerdict(ev) ==
    /\ Chk("BaseLoads", ev.base.ok)
    /\ Chk("LenientLoads", ev.n.ok)
    /\ ev.n.ok => /\ Chk("ExactlyOneWarning", /\ Len(ev.n.diags) = Len(ev.base.diags) + 1
                                               /\ RemoveOne(Classes(ev.n), "UnknownSubBlock") = Classes(ev.base))
                   /\ Chk("WarningNamesElement", ev.warningNamesTag)
                   /\ Chk("RestUnchanged", ev.modelEq)
    /\ Chk("StrictRejects", ~ev.s.ok /\ ev.s.e[1] = "UnknownSubBlock" /\ ev.strictNamesTag)

\* the A2ML definitions of a load event: defs = Seq([decls, infile]) (built-in argument first, then the A2ML block
\* of the document, which is in force behind that block)
SpecsOf(ev) == IF "defs" \in DOMAIN ev
               THEN [i \in 1..Len(ev.defs) |-> [t |-> Resolve(ev.defs[i].decls).t, infile |-> ev.defs[i].infile]]
               ELSE <<>>
TraceInit == Doc = <<>> /\ Strict = FALSE /\ Specs = <<>> /\ l = 1
TraceNext == /\ l <= Len(Rec)
             /\ IF "pair" \in DOMAIN Rec[l] \/ "skip" \in DOMAIN Rec[l] THEN UNCHANGED <<Doc, Strict, Specs>>
                ELSE Doc' = Rec[l].toks /\ Strict' = Rec[l].strict /\ Specs' = SpecsOf(Rec[l])
             /\ l' = l + 1
TraceSpec == TraceInit /\ [][TraceNext]_tvars

Judge == l > 1 => (IF (IF "pair" \in DOMAIN Rec[l - 1] THEN PairVerdict(Rec[l - 1])
                       ELSE IF "skip" \in DOMAIN Rec[l - 1] THEN SkipVerdict(Rec[l - 1]) ELSE Verdict(Rec[l - 1]))
                   THEN TRUE ELSE PrintT(<<"REJECT", l - 1>>))

TraceAccepted ==
    LET d == TLCGet("stats").diameter IN
    IF d - 1 = Len(Rec) THEN TRUE
    ELSE Print(<<"TRACE-REJECTED-AT", d, "">>, FALSE)
=============================================================================
