----------------------------- MODULE Trace_Parser -----------------------------
(* Judges loads observed on the real library by Parser.tla.  One event per load:
     [toks, strict, out]  with  toks = the token stream the real tokenizer produced (hook) with the
     lexical attributes computed by the driver, out = the observed outcome:
       [ok |-> TRUE, diags |-> Seq([c, line]), tree |-> generic tree]  or  [ok |-> FALSE, e |-> [c, line]]
   The specification's Run for the same tokens and mode must give the same outcome.  The step
   loads the event into the variables Doc / Strict; the verdict is evaluated as a state predicate
   on the state reached (a failing event prints <<"FAILED", what>> and <<"REJECT", index>>). *)
EXTENDS Parser, Json, IOUtils

Rec == ndJsonDeserialize(IOEnv.TRACE)
VARIABLE l
tvars == <<Doc, Strict, l>>

Chk(name, cond) == IF cond THEN TRUE ELSE Print(<<"FAILED", name>>, FALSE)

\* diagnostics are compared as sequences of <<class, line>>
DiagSeq(ds) == [i \in 1..Len(ds) |-> <<ds[i].c, ds[i].line>>]
LoggedDiags(out) == [i \in 1..Len(out.diags) |-> <<out.diags[i][1], out.diags[i][2]>>]

\* the tree of the specification in the shape the driver logs: [tag, params, kids]
RECURSIVE TreeEq(_, _)
TreeEq(a, b) ==
    /\ a.tag = b.tag
    /\ a.params = b.params
    /\ Len(a.kids) = Len(b.kids)
    /\ \A i \in 1..Len(a.kids) : TreeEq(a.kids[i], b.kids[i])

Verdict(ev) ==
    LET r == Run IN
    IF ev.out.ok
    THEN /\ Chk("Outcome", r.ok)
         /\ r.ok => /\ Chk("Diagnostics", DiagSeq(r.diags) = LoggedDiags(ev.out))
                    \* which token lands in which field is decided here; whether the token text denotes the value
                    \* the library stored (number notation, string escapes) is compared by the driver
                    /\ PrintT(<<"TREE", l - 1, ToJson(r.tree)>>)
    ELSE /\ Chk("Outcome", ~r.ok)
         /\ ~r.ok => Chk("ErrorClass", r.e.c = ev.out.e[1] /\ (ev.out.e[2] = -1 \/ r.e.line = ev.out.e[2]))

TraceInit == Doc = <<>> /\ Strict = FALSE /\ l = 1
TraceNext == /\ l <= Len(Rec)
             /\ Doc' = Rec[l].toks /\ Strict' = Rec[l].strict
             /\ l' = l + 1
TraceSpec == TraceInit /\ [][TraceNext]_tvars

Judge == l > 1 => (IF Verdict(Rec[l - 1]) THEN TRUE ELSE PrintT(<<"REJECT", l - 1>>))

TraceAccepted ==
    LET d == TLCGet("stats").diameter IN
    IF d - 1 = Len(Rec) THEN TRUE
    ELSE Print(<<"TRACE-REJECTED-AT", d, "">>, FALSE)
=============================================================================
