----------------------------- MODULE ParserCore -----------------------------
(***************************************************************************)
(* Token level of the A2L parser (the part shared by the block parser of    *)
(* Parser.tla and the IF_DATA interpreter of A2ml.tla).                     *)
(* The A2L parser is a function of the token sequence, parametric in the   *)
(* grammar (module Grammar, generated from the frozen DSL).  This is a     *)
(* transcription of the code-generator templates                           *)
(* (a2lmacros/src/codegenerator/parser.rs) and of the hand-written helpers *)
(* in a2lfile/src/parser.rs - not of the 36 000 generated lines.           *)
(*                                                                         *)
(* A token is [t, v, line, a]: type, text, line, and lexical attributes    *)
(* computed independently of the library:                                  *)
(*    id  : a.digit (starts with a digit), a.long (> 1024 bytes)           *)
(*    num : a.fits (Seq of the integer types the literal fits), a.float,   *)
(*          a.val (its value if it is a small non-negative integer, else -1)*)
(* A parser state is S = [pos, last, diags]: cursor (1-based index of the  *)
(* next token), last_token_position, diagnostics logged so far.  Rewinding *)
(* the cursor (sequences, unknown tags, version look-ahead) restores       *)
(* neither `last` nor `diags`, exactly as in the code.                     *)
(*                                                                         *)
(* Every operator returns [ok, S, v] or [ok |-> FALSE, S, e |-> [c, line]].*)
(* Severity of every diagnostic site (C06):                                *)
(*    Log(S, d)      error_or_log: hard error in strict mode, else logged  *)
(*    Warn(S, d)     log_warning : logged in both modes (deprecations)     *)
(*    Err(S, c)      return Err  : hard error in both modes                *)
(***************************************************************************)
EXTENDS Integers, Sequences, FiniteSets, TLC, Grammar

\* The document under consideration and the parsing mode are state variables (so that one TLC run
\* can judge many documents); this module defines no behaviour of its own.
VARIABLES Doc,      \* Seq(token)
          Strict    \* BOOLEAN

Tok(i) == Doc[i]
NTok == Len(Doc)

Ok(S, v) == [ok |-> TRUE, S |-> S, v |-> v]
Err(S, c, line) == [ok |-> FALSE, S |-> S, e |-> [c |-> c, line |-> line]]
Diag(c, line, tag) == [c |-> c, line |-> line, tag |-> tag]
\* error_or_log
Log(S, d) == IF Strict THEN Err(S, d.c, d.line) ELSE Ok([S EXCEPT !.diags = Append(@, d)], TRUE)
\* log_warning
Warn(S, d) == [S EXCEPT !.diags = Append(@, d)]
Deprecations == {"BlockRefDeprecated", "EnumRefDeprecated"}

(***************************************************************************)
(* token level (parser.rs)                                                 *)
(***************************************************************************)
\* get_token
GetToken(S) ==
    IF S.pos <= NTok THEN Ok([S EXCEPT !.pos = @ + 1, !.last = Tok(S.pos).line], S.pos)
    ELSE Err(S, "UnexpectedEOF", S.last)

\* expect_token: comments are skipped
RECURSIVE ExpectToken(_, _)
ExpectToken(S, ttype) ==
    LET r == GetToken(S) IN
    IF ~r.ok THEN r
    ELSE IF Tok(r.v).t = "cmt" THEN ExpectToken(r.S, ttype)
    ELSE IF Tok(r.v).t # ttype THEN Err(r.S, "UnexpectedTokenType", r.S.last)
    ELSE r

\* get_identifier
GetIdentifier(S) ==
    LET r == ExpectToken(S, "id") IN
    IF ~r.ok THEN r
    ELSE LET tk == Tok(r.v) IN
         IF tk.a.digit \/ tk.a.long
         THEN LET l == Log(r.S, Diag("InvalidIdentifier", r.S.last, tk.v)) IN
              IF l.ok THEN Ok(l.S, tk.v) ELSE l
         ELSE Ok(r.S, tk.v)

\* get_string: an identifier is tolerated in place of a string (recoverable)
GetString(S) ==
    IF S.pos <= NTok /\ Tok(S.pos).t = "id"
    THEN LET r == GetIdentifier(S) IN
         IF ~r.ok THEN r
         ELSE LET l == Log(r.S, Diag("UnexpectedTokenType", r.S.last, r.v)) IN
              IF l.ok THEN Ok(l.S, r.v) ELSE l
    ELSE LET r == ExpectToken(S, "str") IN
         IF r.ok THEN Ok(r.S, Tok(r.v).v) ELSE r

\* get_integer::<T> / get_float / get_double: the literal must be representable in the field
GetNumber(S, type) ==
    LET r == ExpectToken(S, "num") IN
    IF ~r.ok THEN r
    ELSE LET tk == Tok(r.v)
             fits == IF type \in IntTypes THEN \E i \in 1..Len(tk.a.fits) : tk.a.fits[i] = type ELSE tk.a.float
         IN IF fits THEN Ok(r.S, [txt |-> tk.v, val |-> tk.a.val]) ELSE Err(r.S, "MalformedNumber", r.S.last)

(***************************************************************************)
(* enum items (generate_enum_parser)                                       *)
(***************************************************************************)
ParseEnum(S, ename, ver) ==
    LET r == GetIdentifier(S) IN
    IF ~r.ok THEN r
    ELSE LET items == Enum[ename]
             idx == {i \in 1..Len(items) : items[i].item = r.v}
         IN IF idx = {} THEN Err(r.S, "InvalidEnumValue", r.S.last)
            ELSE LET it == items[CHOOSE i \in idx : TRUE]
                     l1 == IF it.since # 0 /\ ver < it.since
                           THEN Log(r.S, Diag("EnumRefTooNew", r.S.last, r.v)) ELSE Ok(r.S, TRUE)
                 IN IF ~l1.ok THEN l1
                    ELSE LET S2 == IF it.until # 0 /\ ver > it.until
                                   THEN Warn(l1.S, Diag("EnumRefDeprecated", l1.S.last, r.v)) ELSE l1.S
                         IN Ok(S2, r.v)

\* one scalar item (generate_item_parser_call)
ParseScalar(S, type, ver) ==
    IF type = "ident" THEN GetIdentifier(S)
    ELSE IF type = "string" THEN GetString(S)
    ELSE IF type \in ScalarTypes THEN GetNumber(S, type)
    ELSE ParseEnum(S, type, ver)

\* fixed-size array: n items in a row
RECURSIVE ParseArray(_, _, _, _, _)
ParseArray(S, type, n, ver, acc) ==
    IF n = 0 THEN Ok(S, acc)
    ELSE LET r == ParseScalar(S, type, ver) IN
         IF ~r.ok THEN r ELSE ParseArray(r.S, type, n - 1, ver, Append(acc, r.v))

\* one item of a sequence: a single scalar, or all fields of the anonymous struct in order
RECURSIVE ParseFields(_, _, _, _)
ParseFields(S, fields, ver, acc) ==
    IF fields = <<>> THEN Ok(S, acc)
    ELSE LET r == ParseScalar(S, Head(fields).type, ver) IN
         IF ~r.ok THEN r ELSE ParseFields(r.S, Tail(fields), ver, Append(acc, r.v))

\* generate_sequence_parser: greedy; a failing item ends the sequence and rewinds the cursor
\* (not `last`, not the diagnostics); stopwords end a sequence of identifiers
RECURSIVE ParseSeq(_, _, _, _, _)
ParseSeq(S, fields, stop, ver, acc) ==
    LET r == ParseFields(S, fields, ver, <<>>) IN
    IF ~r.ok THEN Ok([r.S EXCEPT !.pos = S.pos], acc)
    ELSE IF Len(fields) = 1 /\ fields[1].type = "ident" /\ r.v[1] \in stop
         THEN Ok([r.S EXCEPT !.pos = S.pos], acc)
         ELSE ParseSeq(r.S, fields, stop, ver, Append(acc, IF Len(fields) = 1 THEN r.v[1] ELSE r.v))

(***************************************************************************)
(* handle_unknown_taggedstruct_tag                                         *)
(***************************************************************************)
RECURSIVE SkipUnknown(_, _, _, _, _)
SkipUnknown(S, tag, isBlock, stopList, balance) ==
    LET r == GetToken(S) IN
    IF ~r.ok THEN r
    ELSE LET tk == Tok(r.v) IN
         IF tk.t = "begin" THEN SkipUnknown(r.S, tag, isBlock, stopList, balance + 1)
         ELSE IF tk.t = "end"
              THEN IF balance - 1 = -1 THEN Ok([r.S EXCEPT !.pos = @ - 1], TRUE)
                   ELSE SkipUnknown(r.S, tag, isBlock, stopList, balance - 1)
         ELSE IF tk.t = "id"
              THEN IF isBlock
                   THEN IF balance = 0
                        THEN IF tk.v = tag THEN Ok(r.S, TRUE) ELSE Err(r.S, "IncorrectEndTag", r.S.last)
                        ELSE SkipUnknown(r.S, tag, isBlock, stopList, balance)
                   ELSE IF balance \in {0, 1} /\ tk.v \in stopList
                        THEN Ok([r.S EXCEPT !.pos = @ - (IF balance = 1 THEN 2 ELSE 1)], TRUE)
                        ELSE SkipUnknown(r.S, tag, isBlock, stopList, balance)
         ELSE IF isBlock /\ balance = 0 THEN Err(r.S, "IncorrectEndTag", r.S.last)
              ELSE SkipUnknown(r.S, tag, isBlock, stopList, balance)

HandleUnknown(S, ctx, tag, isBlock, stopList) ==
    LET l == Log(S, Diag("UnknownSubBlock", S.last, tag)) IN
    IF ~l.ok THEN l
    ELSE LET g == GetToken(l.S) IN                      \* "make sure there actually is a next token"
         IF ~g.ok THEN g
         ELSE SkipUnknown([g.S EXCEPT !.pos = @ - 1], tag, isBlock, stopList, IF isBlock THEN 1 ELSE 0)

\* get_next_tag_or_comment: v = [k |-> "cmt"] | [k |-> "tag", tag, isBlock, line] | [k |-> "none"]
NextTagOrComment(S) ==
    IF S.pos <= NTok /\ Tok(S.pos).t = "cmt" THEN Ok([S EXCEPT !.pos = @ + 1], [k |-> "cmt"])
    ELSE IF S.pos <= NTok /\ Tok(S.pos).t = "begin"
         THEN LET g == GetToken(S)
                  r == ExpectToken(g.S, "id")
              IN IF r.ok THEN Ok(r.S, [k |-> "tag", tag |-> Tok(r.v).v, isBlock |-> TRUE, line |-> Tok(r.v).line])
                 ELSE [r EXCEPT !.S.pos = S.pos]
         ELSE LET r == ExpectToken(S, "id") IN
              IF r.ok THEN Ok(r.S, [k |-> "tag", tag |-> Tok(r.v).v, isBlock |-> FALSE, line |-> Tok(r.v).line])
              ELSE Ok([r.S EXCEPT !.pos = S.pos], [k |-> "none"])

Node(tag, params, kids) == [tag |-> tag, params |-> params, kids |-> kids]

\* `/end TAG` of a block; a wrong tag is recoverable
CloseBlock(S, tag) ==
    LET e == ExpectToken(S, "end") IN
    IF ~e.ok THEN e
    ELSE LET i == GetIdentifier(e.S) IN
         IF ~i.ok THEN i
         ELSE IF i.v # tag THEN Log(i.S, Diag("IncorrectEndTag", i.S.last, i.v)) ELSE Ok(i.S, TRUE)
=============================================================================
