------------------------ MODULE Trace_PlacementIdeal ------------------------
(* The property C15 itself, evaluated on recorded histories using only what the property talks
   about: the order of the children in the written text.  No uids, no lines.  This is the judge
   when the implementation-shaped specification (Trace_Placement) rejects a history: a history
   that this module accepts satisfies C15 even if the code no longer follows the uid scheme of
   Placement.tla.
   "placed" is defined by the history, as in DESIGN.md 4.6: children loaded from a file are
   placed; a new child becomes placed by a sort_new_items call if a placed child of its kind
   exists at that time; otherwise it stays in the trailing run and remains unplaced. *)
EXTENDS Placement, Json, IOUtils

Rec == ndJsonDeserialize(IOEnv.TRACE)

VARIABLES order,    \* Seq of <<kind, name>> as last written
          placedI,  \* set of <<kind, name>>
          placedX,  \* the placed children of the kinds outside the placement model (IF_DATA, USER_RIGHTS): set of <<kind, name>>
          loadedAll,\* every direct child of the MODULE as loaded (also optional singletons, IF_DATA, USER_RIGHTS,
                    \* which the placement model leaves out): Seq of <<kind, name>> in written order
          perturbed,\* a child was removed through the API since the load (children that share a uid may have changed places)
          l
ivars == <<order, placedI, placedX, loadedAll, perturbed, l>>
Ev == Rec[l]

IsSubOrder(old, new) == SelectSeq(new, LAMBDA x : x \in Range(old)) = old
\* whatever was loaded from the file is placed: its relative order never changes (only sort() may change it)
\* (IF, not a disjunction: inside an action TLC evaluates both disjuncts)
KeepsLoaded == IF "all" \in DOMAIN Ev THEN IsSubOrder(loadedAll, Ev.all) ELSE TRUE

\* map the recorded orders onto the vocabulary of Placement!IdealSortNew
EEof(before) == [i \in 1..Len(before) |->
                   [kind |-> before[i][1], name |-> before[i][2], line |-> 0, cmt |-> (before[i][1] = "#"),
                    uid |-> IF before[i] \in placedI \/ before[i][1] = "#" THEN 1 ELSE 0]]
IdxIn(before, x) == CHOOSE i \in 1..Len(before) : before[i] = x

\* IF_DATA and USER_RIGHTS (outside the implementation-shaped model): a new child goes directly behind the last placed
\* child of its kind - only new children of the same kind may stand between them
ExtraKinds == {"IF_DATA", "USER_RIGHTS", "VARIANT_CODING"}
PosA(seq, x) == CHOOSE i \in 1..Len(seq) : seq[i] = x
ExtrasSortNew(after) ==
    \A K \in ExtraKinds :
        LET plK == {x \in Range(after) : x[1] = K /\ x \in placedX}
            newK == {x \in Range(after) : x[1] = K /\ x \notin placedX}
        IN IF plK # {}
           THEN LET lastP == CHOOSE i \in {PosA(after, p) : p \in plK} : \A p \in plK : PosA(after, p) <= i IN
                \A x \in newK : /\ PosA(after, x) > lastP
                                /\ \A j \in (lastP + 1)..(PosA(after, x) - 1) : after[j][1] = K /\ after[j] \notin placedX
           \* no placed child of the kind: the new one stays at the end (nothing that was loaded follows it)
           ELSE \A x \in newK : \A j \in (PosA(after, x) + 1)..Len(after) : after[j] \notin Range(loadedAll)
NewlyPlacedX(after) == {x \in Range(after) : x[1] \in ExtraKinds /\ x \notin placedX /\ \E p \in placedX : p[1] = x[1]}
AllOf(ev) == IF "all" \in DOMAIN ev THEN ev.all ELSE <<>>

\* IdealSortNew for histories with removals: ItemList::swap_remove and the next sort may permute placed children of one kind
\* that share a uid, so the stable order is demanded between children of different kinds only; a new child still goes
\* behind the last placed child of its kind
IdealSortNewLoose(EE, before, after) ==
    \A pb \in {Inv(before)}, pa \in {Inv(after)}, P \in {{i \in Range(before) : EE[i].uid # 0}} :
    /\ Range(after) = Range(before) /\ Len(after) = Len(before)
    /\ \A a, b \in P : (EE[a].kind # EE[b].kind \/ EE[a].cmt \/ EE[b].cmt) => ((pb[a] < pb[b]) <=> (pa[a] < pa[b]))
    /\ \A e \in Range(before) \ P :
         \A sameKind \in {{p \in P : ~EE[p].cmt /\ EE[p].kind = EE[e].kind}} :
         IF sameKind = {}
         THEN \A x \in P : pa[x] < pa[e]
         ELSE \A L \in {CHOOSE p \in sameKind : \A q \in sameKind : pa[q] <= pa[p]} :
              /\ pa[L] < pa[e]
              /\ \A x \in Range(before) : (pa[L] < pa[x] /\ pa[x] < pa[e]) => (x \notin P /\ EE[x].kind = EE[e].kind)

ILoad == /\ l <= Len(Rec) /\ Ev.ev \in {"load", "state"}
         /\ order' = Ev.written
         /\ placedI' = IF Ev.ev = "load" THEN Range(Ev.written) ELSE Range(Ev.placed)
         /\ loadedAll' = IF "all" \in DOMAIN Ev THEN Ev.all ELSE <<>>
         /\ placedX' = {x \in Range(AllOf(Ev)) : x[1] \in ExtraKinds}
         /\ perturbed' = FALSE
         /\ l' = l + 1
IInsert == /\ l <= Len(Rec) /\ Ev.ev \in {"push_new", "merge", "merge_in"}
           /\ ("panic" \in DOMAIN Ev => Ev.panic = FALSE)
           /\ IsSubOrder(order, Ev.written)
           /\ KeepsLoaded
           /\ order' = Ev.written
           /\ UNCHANGED <<placedI, placedX, loadedAll, perturbed>>
           /\ l' = l + 1
ISort == /\ l <= Len(Rec) /\ Ev.ev = "sort_new_items"
         /\ Ev.panic = FALSE
         /\ Len(Ev.written) = Len(order) /\ Range(Ev.written) = Range(order)
         /\ IF perturbed
            THEN IdealSortNewLoose(EEof(order), [i \in 1..Len(order) |-> i], [j \in 1..Len(order) |-> IdxIn(order, Ev.written[j])])
            ELSE IdealSortNew(EEof(order), [i \in 1..Len(order) |-> i], [j \in 1..Len(order) |-> IdxIn(order, Ev.written[j])])
         /\ KeepsLoaded
         /\ ExtrasSortNew(AllOf(Ev))
         /\ order' = Ev.written
         /\ placedI' = placedI \cup {x \in Range(order) : \E p \in placedI : p[1] = x[1]}
         /\ placedX' = placedX \cup NewlyPlacedX(AllOf(Ev))
         /\ UNCHANGED <<loadedAll, perturbed>>
         /\ l' = l + 1
\* C14: sort() - same elements (comments may go), grouped by kind, ascending names in a kind
ISortFull == /\ l <= Len(Rec) /\ Ev.ev = "sort"
             /\ Ev.panic = FALSE
             /\ "relation_violated" \notin DOMAIN Ev
             /\ IdealSortFull(EEof(order), [i \in 1..Len(order) |-> i],
                              [j \in 1..Len(Ev.written) |-> IdxIn(order, Ev.written[j])])
             /\ order' = Ev.written
             /\ placedI' = Range(Ev.written)
             /\ loadedAll' = IF "all" \in DOMAIN Ev THEN Ev.all ELSE <<>>
             /\ placedX' = {x \in Range(AllOf(Ev)) : x[1] \in ExtraKinds}
             /\ perturbed' = FALSE
             /\ l' = l + 1
\* one child is removed through the API (ItemList::swap_remove: the last element of the list takes the place of the removed
\* one, so children that share a uid - or have none yet - may change places): nothing else goes, nothing comes; the order that
\* is written now is the reference for what follows
Without(seq, x) == SelectSeq(seq, LAMBDA y : y # x)
IRemove == /\ l <= Len(Rec) /\ Ev.ev = "remove"
           /\ LET x == <<Ev.kind, Ev.name>>
                  xa == <<Ev.kind, Ev.name_text>> IN
              /\ x \in Range(order)
              /\ Len(Ev.written) = Len(order) - 1 /\ Range(Ev.written) = Range(order) \ {x}
              /\ Range(AllOf(Ev)) \cap Range(loadedAll) = Range(loadedAll) \ {xa}
              /\ order' = Ev.written
              /\ placedI' = placedI \ {x}
              /\ loadedAll' = SelectSeq(AllOf(Ev), LAMBDA y : y \in Range(loadedAll))
              /\ UNCHANGED placedX
              /\ perturbed' = TRUE
           /\ l' = l + 1
IWrite == /\ l <= Len(Rec) /\ Ev.ev = "write"
          /\ Ev.written = order
          /\ KeepsLoaded
          /\ UNCHANGED <<order, placedI, placedX, loadedAll, perturbed>>
          /\ l' = l + 1

IdealInit == order = <<>> /\ placedI = {} /\ placedX = {} /\ loadedAll = <<>> /\ perturbed = FALSE /\ l = 1
             /\ E = <<>> /\ lists = [k \in Kinds |-> <<>>] /\ panic = FALSE /\ last = [op |-> "init"]
IdealNext == (ILoad \/ IInsert \/ ISort \/ ISortFull \/ IRemove \/ IWrite) /\ UNCHANGED vars
IdealTraceSpec == IdealInit /\ [][IdealNext]_<<ivars, vars>>

TraceAccepted ==
    LET d == TLCGet("stats").diameter IN
    IF d - 1 = Len(Rec) THEN TRUE
    ELSE Print(<<"TRACE-REJECTED-AT", d, ToJson(Rec[d])>>, FALSE)
=============================================================================
